// vinstr rewrites packages of the repository under test so that every
// synchronisation operation goes through the controlled runtime (vrt).
//
//	vinstr -repo /repo -modfile F -out DIR -pkgs ./coalesce,./ctree [-rand ./testing/fake/queue]
//
// For every non-test Go file of the selected packages a rewritten copy is
// written below DIR/src and DIR/overlay.json maps original -> copy
// (`go build -overlay`). The repository itself is never touched.
package main

import (
	"bytes"
	"encoding/json"
	"flag"
	"fmt"
	"go/ast"
	"go/printer"
	"go/token"
	"go/types"
	"os"
	"path/filepath"
	"strconv"
	"strings"

	"golang.org/x/tools/go/ast/astutil"
	"golang.org/x/tools/go/packages"
)

const (
	base     = "github.com/openconfig/gnmi/zzverif/"
	vrtPath  = base + "vrt"
	vrtName  = "zzvrt"
	tmpPfx   = "zzv"
	maxGoGen = 5
)

var importMap = map[string]string{
	"sync":        base + "vsync",
	"time":        base + "vtime",
	"context":     base + "vcontext",
	"sync/atomic": base + "vatomic",
}

type stats struct {
	Files, Imports, Gos, Sends, Recvs, Closes, Selects, MapRanges, ChanRanges, Touches int
}

func main() {
	repo := flag.String("repo", "/repo", "repository root")
	modfile := flag.String("modfile", "", "go.mod copy to use")
	out := flag.String("out", "", "output directory")
	pkgsF := flag.String("pkgs", "", "comma separated package patterns relative to repo")
	randF := flag.String("rand", "", "comma separated packages whose math/rand is replaced by vrand")
	boF := flag.String("backoff", "", "comma separated packages whose cenkalti/backoff is replaced by vbackoff (virtual clock)")
	tags := flag.String("tags", "", "build tags")
	flag.Parse()
	if *out == "" || *pkgsF == "" {
		fmt.Fprintln(os.Stderr, "usage: vinstr -out DIR -pkgs a,b")
		os.Exit(2)
	}
	boPkgs := map[string]bool{}
	for _, p := range strings.Split(*boF, ",") {
		if p != "" {
			boPkgs[strings.TrimPrefix(p, "./")] = true
		}
	}
	randPkgs := map[string]bool{}
	for _, p := range strings.Split(*randF, ",") {
		if p != "" {
			randPkgs[strings.TrimPrefix(p, "./")] = true
		}
	}
	var flags []string
	if *modfile != "" {
		flags = append(flags, "-modfile="+*modfile)
	}
	if *tags != "" {
		flags = append(flags, "-tags="+*tags)
	}
	cfg := &packages.Config{
		Mode:       packages.NeedName | packages.NeedFiles | packages.NeedCompiledGoFiles | packages.NeedSyntax | packages.NeedTypes | packages.NeedTypesInfo | packages.NeedImports,
		Dir:        *repo,
		BuildFlags: flags,
		Env:        append(os.Environ(), "GOFLAGS=-mod=mod", "GOPROXY=off", "GOSUMDB=off"),
	}
	pats := strings.Split(*pkgsF, ",")
	pkgs, err := packages.Load(cfg, pats...)
	if err != nil {
		fmt.Fprintln(os.Stderr, "vinstr: load:", err)
		os.Exit(2)
	}
	bad := false
	for _, p := range pkgs {
		for _, e := range p.Errors {
			fmt.Fprintln(os.Stderr, "vinstr:", p.PkgPath, e)
			bad = true
		}
	}
	if bad {
		os.Exit(2)
	}
	overlay := map[string]string{}
	var st stats
	for _, p := range pkgs {
		rel := strings.TrimPrefix(p.PkgPath, "github.com/openconfig/gnmi/")
		for i, f := range p.Syntax {
			name := p.CompiledGoFiles[i]
			if strings.HasSuffix(name, "_test.go") {
				continue
			}
			r := &rewriter{fset: p.Fset, info: p.TypesInfo, file: f, st: &st, useRand: randPkgs[rel], useBackoff: boPkgs[rel]}
			if err := r.rewrite(); err != nil {
				fmt.Fprintf(os.Stderr, "vinstr: %s: %v\n", name, err)
				os.Exit(2)
			}
			var buf bytes.Buffer
			if err := (&printer.Config{Mode: printer.UseSpaces | printer.TabIndent, Tabwidth: 8}).Fprint(&buf, p.Fset, f); err != nil {
				fmt.Fprintf(os.Stderr, "vinstr: print %s: %v\n", name, err)
				os.Exit(2)
			}
			dst := filepath.Join(*out, "src", rel, filepath.Base(name))
			os.MkdirAll(filepath.Dir(dst), 0o755)
			if err := os.WriteFile(dst, buf.Bytes(), 0o644); err != nil {
				fmt.Fprintln(os.Stderr, "vinstr:", err)
				os.Exit(2)
			}
			overlay[name] = dst
			st.Files++
		}
	}
	b, _ := json.MarshalIndent(map[string]interface{}{"Replace": overlay}, "", " ")
	if err := os.WriteFile(filepath.Join(*out, "overlay.instr.json"), b, 0o644); err != nil {
		fmt.Fprintln(os.Stderr, "vinstr:", err)
		os.Exit(2)
	}
	sb, _ := json.Marshal(st)
	fmt.Println(string(sb))
}

type rewriter struct {
	fset    *token.FileSet
	info    *types.Info
	file    *ast.File
	st      *stats
	useRand bool
	useBackoff bool
	usedVrt bool
	skip    map[ast.Node]bool // top-level comm operations of select clauses
	rkind   map[*ast.RangeStmt]string
	selBlk  map[*ast.BlockStmt]*ast.SwitchStmt
	gosig   map[*ast.GoStmt]*types.Signature
	touch   map[*ast.AssignStmt]ast.Expr
	closes  map[*ast.CallExpr]bool
	tmp     int
	err     error
}

func (r *rewriter) vrt(name string) ast.Expr {
	r.usedVrt = true
	return &ast.SelectorExpr{X: ast.NewIdent(vrtName), Sel: ast.NewIdent(name)}
}

func (r *rewriter) call(name string, args ...ast.Expr) *ast.CallExpr {
	return &ast.CallExpr{Fun: r.vrt(name), Args: args}
}

func (r *rewriter) fresh(s string) *ast.Ident {
	r.tmp++
	return ast.NewIdent(tmpPfx + s + strconv.Itoa(r.tmp))
}

func unparen(e ast.Expr) ast.Expr {
	for {
		p, ok := e.(*ast.ParenExpr)
		if !ok {
			return e
		}
		e = p.X
	}
}

func isRecv(e ast.Expr) (*ast.UnaryExpr, bool) {
	u, ok := unparen(e).(*ast.UnaryExpr)
	if ok && u.Op == token.ARROW {
		return u, true
	}
	return nil, false
}

func simpleExpr(e ast.Expr) bool {
	switch x := e.(type) {
	case *ast.Ident, *ast.BasicLit:
		return true
	case *ast.SelectorExpr:
		return simpleExpr(x.X)
	case *ast.ParenExpr:
		return simpleExpr(x.X)
	case *ast.StarExpr:
		return simpleExpr(x.X)
	case *ast.CompositeLit:
		return len(x.Elts) == 0
	case *ast.IndexExpr:
		return simpleExpr(x.X) && simpleExpr(x.Index)
	}
	return false
}

func (r *rewriter) rewrite() error {
	r.skip = map[ast.Node]bool{}
	r.rkind = map[*ast.RangeStmt]string{}
	r.selBlk = map[*ast.BlockStmt]*ast.SwitchStmt{}
	r.gosig = map[*ast.GoStmt]*types.Signature{}
	r.touch = map[*ast.AssignStmt]ast.Expr{}
	r.closes = map[*ast.CallExpr]bool{}

	// imports
	for _, im := range r.file.Imports {
		p, _ := strconv.Unquote(im.Path.Value)
		np, ok := importMap[p]
		if !ok && r.useRand && p == "math/rand" {
			np, ok = base+"vrand", true
		}
		if !ok && r.useBackoff && p == "github.com/cenkalti/backoff/v4" {
			np, ok = base+"vbackoff", true
			if im.Name == nil {
				im.Name = ast.NewIdent("backoff")
			}
		}
		if !ok {
			continue
		}
		if im.Name != nil && (im.Name.Name == "_" || im.Name.Name == ".") {
			continue
		}
		if im.Name == nil {
			im.Name = ast.NewIdent(filepath.Base(p))
		}
		im.Path.Value = strconv.Quote(np)
		r.st.Imports++
	}

	// drop comments except directives (positions of rewritten code would
	// otherwise attract unrelated comments)
	var keep []*ast.CommentGroup
	for _, g := range r.file.Comments {
		k := false
		for _, c := range g.List {
			if strings.HasPrefix(c.Text, "//go:") || strings.HasPrefix(c.Text, "// +build") || strings.HasPrefix(c.Text, "//line") {
				k = true
			}
		}
		if k {
			keep = append(keep, g)
		}
	}
	r.file.Comments = keep

	astutil.Apply(r.file, r.pre, r.post)
	if r.err != nil {
		return r.err
	}
	if r.usedVrt {
		astutil.AddNamedImport(r.fset, r.file, vrtName, vrtPath)
	}
	return nil
}

// pre records type facts about original nodes before children are replaced.
func (r *rewriter) pre(c *astutil.Cursor) bool {
	switch n := c.Node().(type) {
	case *ast.SelectStmt:
		for _, s := range n.Body.List {
			cc := s.(*ast.CommClause)
			switch cm := cc.Comm.(type) {
			case *ast.SendStmt:
				r.skip[cm] = true
			case *ast.ExprStmt:
				if u, ok := isRecv(cm.X); ok {
					r.skip[u] = true
				}
			case *ast.AssignStmt:
				if u, ok := isRecv(cm.Rhs[0]); ok {
					r.skip[u] = true
				}
			}
		}
	case *ast.RangeStmt:
		if t := r.info.TypeOf(n.X); t != nil {
			switch t.Underlying().(type) {
			case *types.Map:
				r.rkind[n] = "map"
			case *types.Chan:
				r.rkind[n] = "chan"
			}
		}
	case *ast.GoStmt:
		if t := r.info.TypeOf(n.Call.Fun); t != nil {
			if sig, ok := t.Underlying().(*types.Signature); ok {
				r.gosig[n] = sig
			}
		}
	case *ast.CallExpr:
		if id, ok := n.Fun.(*ast.Ident); ok && id.Name == "close" && len(n.Args) == 1 {
			if _, isB := r.info.Uses[id].(*types.Builtin); isB {
				r.closes[n] = true
			}
		}
	case *ast.AssignStmt:
		if len(n.Lhs) == 1 && (n.Tok == token.ASSIGN) {
			if ix, ok := n.Lhs[0].(*ast.IndexExpr); ok {
				if t := r.info.TypeOf(ix.X); t != nil {
					if m, ok := t.Underlying().(*types.Map); ok && needsTouch(m.Key()) && simpleExpr(ix.Index) {
						r.touch[n] = ix.Index
					}
				}
			}
		}
	}
	return true
}

func needsTouch(k types.Type) bool {
	switch u := k.Underlying().(type) {
	case *types.Basic:
		return false
	case *types.Pointer, *types.Interface, *types.Chan:
		return true
	default:
		_ = u
		return false
	}
}

func (r *rewriter) post(c *astutil.Cursor) bool {
	switch n := c.Node().(type) {
	case *ast.SendStmt:
		if r.skip[n] {
			return true
		}
		r.st.Sends++
		c.Replace(&ast.ExprStmt{X: r.call("Send", n.Chan, n.Value)})
	case *ast.UnaryExpr:
		if n.Op != token.ARROW || r.skip[n] {
			return true
		}
		r.st.Recvs++
		fn := "Recv"
		switch p := c.Parent().(type) {
		case *ast.AssignStmt:
			if len(p.Lhs) == 2 && len(p.Rhs) == 1 {
				fn = "Recv2"
			}
		case *ast.ValueSpec:
			if len(p.Names) == 2 && len(p.Values) == 1 {
				fn = "Recv2"
			}
		}
		c.Replace(r.call(fn, n.X))
	case *ast.CallExpr:
		if r.closes[n] {
			r.st.Closes++
			n.Fun = r.vrt("Close")
		}
	case *ast.GoStmt:
		r.st.Gos++
		c.Replace(r.goStmt(n))
	case *ast.SelectStmt:
		r.st.Selects++
		blk, sw := r.selectStmt(n)
		r.selBlk[blk] = sw
		c.Replace(blk)
	case *ast.LabeledStmt:
		if blk, ok := n.Stmt.(*ast.BlockStmt); ok {
			if sw, ok := r.selBlk[blk]; ok {
				// move the label from the block onto the switch inside it
				for i, s := range blk.List {
					if s == ast.Stmt(sw) {
						blk.List[i] = &ast.LabeledStmt{Label: n.Label, Stmt: sw}
					}
				}
				c.Replace(blk)
			}
		}
	case *ast.RangeStmt:
		switch r.rkind[n] {
		case "map":
			r.st.MapRanges++
			r.mapRange(c, n)
		case "chan":
			r.st.ChanRanges++
			r.chanRange(c, n)
		}
	case *ast.AssignStmt:
		if k, ok := r.touch[n]; ok && c.Index() >= 0 {
			r.st.Touches++
			c.InsertBefore(&ast.ExprStmt{X: r.call("Touch", k)})
		}
	}
	return true
}

func (r *rewriter) goStmt(n *ast.GoStmt) ast.Stmt {
	call := n.Call
	sig := r.gosig[n]
	noRes := sig != nil && sig.Results().Len() == 0
	if len(call.Args) == 0 && noRes {
		return &ast.ExprStmt{X: r.call("Go", call.Fun)}
	}
	if noRes && !sig.Variadic() && len(call.Args) <= maxGoGen && len(call.Args) == sig.Params().Len() && !call.Ellipsis.IsValid() {
		args := append([]ast.Expr{call.Fun}, call.Args...)
		return &ast.ExprStmt{X: r.call("Go"+strconv.Itoa(len(call.Args)), args...)}
	}
	// general form: evaluate callee and arguments now, call later
	blk := &ast.BlockStmt{}
	f := r.fresh("f")
	blk.List = append(blk.List, &ast.AssignStmt{Lhs: []ast.Expr{f}, Tok: token.DEFINE, Rhs: []ast.Expr{call.Fun}})
	var args []ast.Expr
	for _, a := range call.Args {
		if _, lit := a.(*ast.BasicLit); lit {
			args = append(args, a)
			continue
		}
		if id, ok := a.(*ast.Ident); ok && (id.Name == "nil" || id.Name == "true" || id.Name == "false") {
			args = append(args, a)
			continue
		}
		t := r.fresh("a")
		blk.List = append(blk.List, &ast.AssignStmt{Lhs: []ast.Expr{t}, Tok: token.DEFINE, Rhs: []ast.Expr{a}})
		args = append(args, t)
	}
	inner := &ast.CallExpr{Fun: f, Args: args, Ellipsis: call.Ellipsis}
	lit := &ast.FuncLit{Type: &ast.FuncType{Params: &ast.FieldList{}}, Body: &ast.BlockStmt{List: []ast.Stmt{&ast.ExprStmt{X: inner}}}}
	blk.List = append(blk.List, &ast.ExprStmt{X: r.call("Go", lit)})
	return blk
}

func (r *rewriter) selectStmt(n *ast.SelectStmt) (*ast.BlockStmt, *ast.SwitchStmt) {
	blk := &ast.BlockStmt{}
	sw := &ast.SwitchStmt{Body: &ast.BlockStmt{}}
	hasDefault := false
	var cases []ast.Expr
	idx := 0
	for _, s := range n.Body.List {
		cc := s.(*ast.CommClause)
		if cc.Comm == nil {
			hasDefault = true
			sw.Body.List = append(sw.Body.List, &ast.CaseClause{List: nil, Body: cc.Body})
			continue
		}
		ch := r.fresh("c")
		var first ast.Stmt
		switch cm := cc.Comm.(type) {
		case *ast.SendStmt:
			blk.List = append(blk.List, &ast.AssignStmt{Lhs: []ast.Expr{ch}, Tok: token.DEFINE, Rhs: []ast.Expr{cm.Chan}})
			val := cm.Value
			if !simpleExpr(val) {
				v := r.fresh("v")
				blk.List = append(blk.List, &ast.AssignStmt{Lhs: []ast.Expr{v}, Tok: token.DEFINE, Rhs: []ast.Expr{val}})
				val = v
			}
			cases = append(cases, r.call("S", ch))
			first = &ast.ExprStmt{X: r.call("SendNow", ch, val)}
		case *ast.ExprStmt:
			u, _ := isRecv(cm.X)
			blk.List = append(blk.List, &ast.AssignStmt{Lhs: []ast.Expr{ch}, Tok: token.DEFINE, Rhs: []ast.Expr{u.X}})
			cases = append(cases, r.call("R", ch))
			first = &ast.ExprStmt{X: r.call("RecvNow", ch)}
		case *ast.AssignStmt:
			u, _ := isRecv(cm.Rhs[0])
			blk.List = append(blk.List, &ast.AssignStmt{Lhs: []ast.Expr{ch}, Tok: token.DEFINE, Rhs: []ast.Expr{u.X}})
			cases = append(cases, r.call("R", ch))
			fn := "RecvNow"
			if len(cm.Lhs) == 2 {
				fn = "RecvNow2"
			}
			first = &ast.AssignStmt{Lhs: cm.Lhs, Tok: cm.Tok, Rhs: []ast.Expr{r.call(fn, ch)}}
		default:
			r.err = fmt.Errorf("unsupported select communication at %s", r.fset.Position(cc.Pos()))
			return blk, sw
		}
		body := append([]ast.Stmt{first}, cc.Body...)
		sw.Body.List = append(sw.Body.List, &ast.CaseClause{List: []ast.Expr{&ast.BasicLit{Kind: token.INT, Value: strconv.Itoa(idx)}}, Body: body})
		idx++
	}
	def := "false"
	if hasDefault {
		def = "true"
	} else {
		// keeps the switch a terminating statement when the select was one
		sw.Body.List = append(sw.Body.List, &ast.CaseClause{List: nil, Body: []ast.Stmt{&ast.ExprStmt{X: &ast.CallExpr{Fun: ast.NewIdent("panic"), Args: []ast.Expr{&ast.BasicLit{Kind: token.STRING, Value: `"vrt: select returned no case"`}}}}}})
	}
	sw.Tag = r.call("Select", append([]ast.Expr{ast.NewIdent(def)}, cases...)...)
	blk.List = append(blk.List, sw)
	return blk, sw
}

func notBlank(e ast.Expr) bool {
	if e == nil {
		return false
	}
	if id, ok := e.(*ast.Ident); ok && id.Name == "_" {
		return false
	}
	return true
}

func (r *rewriter) mapRange(c *astutil.Cursor, n *ast.RangeStmt) {
	m := n.X
	var pre []ast.Stmt
	if !simpleExpr(m) {
		if _, labeled := c.Parent().(*ast.LabeledStmt); labeled {
			r.err = fmt.Errorf("unsupported: labeled range over non-simple map expression at %s", r.fset.Position(n.Pos()))
			return
		}
		t := r.fresh("m")
		pre = append(pre, &ast.AssignStmt{Lhs: []ast.Expr{t}, Tok: token.DEFINE, Rhs: []ast.Expr{m}})
		m = t
	}
	k := r.fresh("k")
	var body []ast.Stmt
	wantV := notBlank(n.Value)
	wantK := notBlank(n.Key)
	vv := ast.NewIdent("_")
	if wantV {
		vv = r.fresh("v")
	}
	ok := r.fresh("ok")
	body = append(body,
		&ast.AssignStmt{Lhs: []ast.Expr{vv, ok}, Tok: token.DEFINE, Rhs: []ast.Expr{&ast.IndexExpr{X: m, Index: k}}},
		&ast.IfStmt{Cond: &ast.UnaryExpr{Op: token.NOT, X: ok}, Body: &ast.BlockStmt{List: []ast.Stmt{&ast.BranchStmt{Tok: token.CONTINUE}}}},
	)
	var lhs, rhs []ast.Expr
	if wantK {
		lhs, rhs = append(lhs, n.Key), append(rhs, k)
	}
	if wantV {
		lhs, rhs = append(lhs, n.Value), append(rhs, vv)
	}
	if len(lhs) > 0 {
		body = append(body, &ast.AssignStmt{Lhs: lhs, Tok: n.Tok, Rhs: rhs})
		if n.Tok == token.DEFINE {
			// avoid "declared and not used" for variables the body ignores
			for _, l := range lhs {
				body = append(body, &ast.AssignStmt{Lhs: []ast.Expr{ast.NewIdent("_")}, Tok: token.ASSIGN, Rhs: []ast.Expr{l}})
			}
		}
	}
	body = append(body, n.Body.List...)
	loop := &ast.RangeStmt{Key: ast.NewIdent("_"), Value: k, Tok: token.DEFINE, X: r.call("MapKeys", m), Body: &ast.BlockStmt{List: body}}
	if len(pre) > 0 {
		c.Replace(&ast.BlockStmt{List: append(pre, loop)})
		return
	}
	c.Replace(loop)
}

func (r *rewriter) chanRange(c *astutil.Cursor, n *ast.RangeStmt) {
	ch := n.X
	var pre []ast.Stmt
	if !simpleExpr(ch) {
		if _, labeled := c.Parent().(*ast.LabeledStmt); labeled {
			r.err = fmt.Errorf("unsupported: labeled range over non-simple channel expression at %s", r.fset.Position(n.Pos()))
			return
		}
		t := r.fresh("ch")
		pre = append(pre, &ast.AssignStmt{Lhs: []ast.Expr{t}, Tok: token.DEFINE, Rhs: []ast.Expr{ch}})
		ch = t
	}
	ok := r.fresh("ok")
	v := r.fresh("v")
	body := []ast.Stmt{
		&ast.AssignStmt{Lhs: []ast.Expr{v, ok}, Tok: token.DEFINE, Rhs: []ast.Expr{r.call("Recv2", ch)}},
		&ast.IfStmt{Cond: &ast.UnaryExpr{Op: token.NOT, X: ok}, Body: &ast.BlockStmt{List: []ast.Stmt{&ast.BranchStmt{Tok: token.BREAK}}}},
	}
	if notBlank(n.Key) {
		body = append(body, &ast.AssignStmt{Lhs: []ast.Expr{n.Key}, Tok: n.Tok, Rhs: []ast.Expr{v}})
		if n.Tok == token.DEFINE {
			body = append(body, &ast.AssignStmt{Lhs: []ast.Expr{ast.NewIdent("_")}, Tok: token.ASSIGN, Rhs: []ast.Expr{n.Key}})
		}
	} else {
		body = append(body, &ast.AssignStmt{Lhs: []ast.Expr{ast.NewIdent("_")}, Tok: token.ASSIGN, Rhs: []ast.Expr{v}})
	}
	body = append(body, n.Body.List...)
	loop := &ast.ForStmt{Body: &ast.BlockStmt{List: body}}
	if len(pre) > 0 {
		c.Replace(&ast.BlockStmt{List: append(pre, loop)})
		return
	}
	c.Replace(loop)
}
