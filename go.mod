module github.com/openconfig/gnmi/zzverif

go 1.22.0

require golang.org/x/tools v0.29.0

require (
	github.com/anishathalye/porcupine v1.3.0
	golang.org/x/mod v0.22.0 // indirect
	golang.org/x/sync v0.10.0 // indirect
)
