// C01 — the collector relays each configured target's state faithfully.
// End-to-end rig (E3): the real gnmi_collector and gnmi_cli binaries built
// from the current tree, a scripted TLS gNMI target that plays one history per
// configured target, and exhaustive enumeration of target histories (all
// sequences up to a length over an update/delete alphabet covering every
// scalar type, list keys, origins and the deprecated path encoding), collector
// configurations and CLI invocation forms, against a map model.
package main

import (
	"bytes"
	"context"
	"crypto/rand"
	"crypto/rsa"
	"crypto/tls"
	"crypto/x509"
	"crypto/x509/pkix"
	"encoding/json"
	"encoding/pem"
	"flag"
	"fmt"
	"google.golang.org/grpc/codes"
	"google.golang.org/grpc/status"
	"math/big"
	"net"
	"os"
	"os/exec"
	"path/filepath"
	"sort"
	"strings"
	"sync"
	"time"

	"google.golang.org/grpc"
	"google.golang.org/grpc/credentials"

	"github.com/openconfig/gnmi/client"
	_ "github.com/openconfig/gnmi/client/gnmi"
	pb "github.com/openconfig/gnmi/proto/gnmi"
	"github.com/openconfig/gnmi/zzverif/xplore"
)

// ---------------------------------------------------------------- histories

type hop struct {
	kind string // upd, del
	path int    // index into paths
}

type pspec struct {
	name   string
	origin string // carried by the notification prefix
	build  func() *pb.Path
	index  []string // expected index below [target, origin]
}

func el(name string, kv ...string) *pb.PathElem {
	e := &pb.PathElem{Name: name}
	if len(kv) >= 2 {
		e.Key = map[string]string{}
		for i := 0; i+1 < len(kv); i += 2 {
			e.Key[kv[i]] = kv[i+1]
		}
	}
	return e
}

var paths = []pspec{
	{"a/b", "", func() *pb.Path { return &pb.Path{Elem: []*pb.PathElem{el("a"), el("b")}} }, []string{"a", "b"}},
	{"a/c[k=v]", "", func() *pb.Path { return &pb.Path{Elem: []*pb.PathElem{el("a"), el("c", "k", "v")}} }, []string{"a", "c", "v"}},
	// a second entry of the same list, identified by TWO keys whose values sort
	// the other way round than their names (indexed by key name: x's value, then y's)
	{"a/c[x=2][y=1]", "", func() *pb.Path { return &pb.Path{Elem: []*pb.PathElem{el("a"), el("c", "x", "2", "y", "1")}} }, []string{"a", "c", "2", "1"}},
	{"o2:x", "o2", func() *pb.Path { return &pb.Path{Elem: []*pb.PathElem{el("x")}} }, []string{"x"}},
	{"deprecated d/e", "", func() *pb.Path { return &pb.Path{Element: []string{"d", "e"}} }, []string{"d", "e"}},
	// delete-only patterns
	{"a (subtree)", "", func() *pb.Path { return &pb.Path{Elem: []*pb.PathElem{el("a")}} }, []string{"a"}},
	{"a/c (list)", "", func() *pb.Path { return &pb.Path{Elem: []*pb.PathElem{el("a"), el("c")}} }, []string{"a", "c"}},
}

const nLeafPaths = 5

// value kinds rotate with the position in the history so that consecutive
// updates differ in type and value
func valueAt(i int) (*pb.TypedValue, interface{}) {
	switch i % 7 {
	case 0:
		return &pb.TypedValue{Value: &pb.TypedValue_IntVal{IntVal: int64(-3 - i)}}, int64(-3 - i)
	case 1:
		return &pb.TypedValue{Value: &pb.TypedValue_UintVal{UintVal: uint64(7 + i)}}, uint64(7 + i)
	case 2:
		return &pb.TypedValue{Value: &pb.TypedValue_BoolVal{BoolVal: true}}, true
	case 3:
		return &pb.TypedValue{Value: &pb.TypedValue_StringVal{StringVal: fmt.Sprintf("s%d/é", i)}}, fmt.Sprintf("s%d/é", i)
	case 4:
		return &pb.TypedValue{Value: &pb.TypedValue_DoubleVal{DoubleVal: 1.5 + float64(i)}}, 1.5 + float64(i)
	case 5:
		return &pb.TypedValue{Value: &pb.TypedValue_LeaflistVal{LeaflistVal: &pb.ScalarArray{Element: []*pb.TypedValue{{Value: &pb.TypedValue_StringVal{StringVal: "x"}}, {Value: &pb.TypedValue_IntVal{IntVal: int64(i)}}}}}}, []interface{}{"x", int64(i)}
	}
	return &pb.TypedValue{Value: &pb.TypedValue_BytesVal{BytesVal: []byte{1, byte(i)}}}, []byte{1, byte(i)}
}

func alphabet() []hop {
	var out []hop
	for p := 0; p < nLeafPaths; p++ {
		out = append(out, hop{"upd", p})
	}
	for p := range paths {
		out = append(out, hop{"del", p})
	}
	// "replace": ONE notification deleting subtree a and updating a/b, a/c[k=v] below it
	out = append(out, hop{"replace", 0}, hop{"replace", 1})
	// updates carrying their value in the deprecated Update.value field (JSON
	// encoding), which collector and client library still relay and decode
	out = append(out, hop{"updjson", 0}, hop{"updjson", 4})
	return out
}

// jsonAt is the deprecated-encoding value written at position i of a history.
func jsonAt(i int) (*pb.Value, interface{}) {
	return &pb.Value{Type: pb.Encoding_JSON, Value: []byte(fmt.Sprintf("%q", fmt.Sprintf("j%d", i)))}, fmt.Sprintf("j%d", i)
}

func histories(maxLen int) [][]hop {
	out := [][]hop{{}}
	prev := [][]hop{{}}
	a := alphabet()
	for l := 1; l <= maxLen; l++ {
		var cur [][]hop
		for _, h := range prev {
			for _, o := range a {
				cur = append(cur, append(append([]hop{}, h...), o))
			}
		}
		out = append(out, cur...)
		prev = cur
	}
	return out
}

func histName(h []hop) string {
	var p []string
	for i, o := range h {
		if o.kind == "upd" {
			_, v := valueAt(i)
			p = append(p, fmt.Sprintf("update(%s=%T %v)", paths[o.path].name, v, v))
		} else if o.kind == "updjson" {
			_, v := jsonAt(i)
			p = append(p, fmt.Sprintf("update(%s=deprecated JSON value %q)", paths[o.path].name, v))
		} else if o.kind == "drop" {
			p = append(p, "TARGET DROPS THE STREAM (collector reconnects; later sessions are stamped EARLIER than this one, which ran an hour ahead of the collector's clock)")
		} else if o.kind == "replace" {
			_, v := valueAt(i)
			p = append(p, fmt.Sprintf("replace(delete a + update %s=%T %v in one notification)", paths[o.path].name, v, v))
		} else {
			p = append(p, fmt.Sprintf("delete(%s)", paths[o.path].name))
		}
	}
	return "[" + strings.Join(p, "; ") + "]"
}

// model: "origin/elems..." -> rendered scalar
func model(h []hop) map[string]string {
	m := map[string]string{}
	for i, o := range h {
		ps := paths[o.path]
		org := ps.origin
		if org == "" {
			org = "openconfig"
		}
		key := org + "/" + strings.Join(ps.index, "/")
		if o.kind == "upd" {
			_, v := valueAt(i)
			m[key] = render(v)
			continue
		}
		if o.kind == "updjson" {
			_, v := jsonAt(i)
			m[key] = render(v)
			continue
		}
		if o.kind == "drop" {
			m = map[string]string{} // the collector resets the target: the new session starts from nothing
			continue
		}
		if o.kind == "replace" {
			for k := range m {
				if strings.HasPrefix(k, "openconfig/a/") {
					delete(m, k)
				}
			}
			_, v := valueAt(i)
			m[key] = render(v)
			continue
		}
		for k := range m {
			if k == key || strings.HasPrefix(k, key+"/") {
				delete(m, k)
			}
		}
	}
	return m
}

func render(v interface{}) string {
	switch x := v.(type) {
	case []byte:
		return fmt.Sprintf("bytes%v", x)
	case []interface{}:
		var p []string
		for _, e := range x {
			p = append(p, render(e))
		}
		return "[" + strings.Join(p, ",") + "]"
	case float64:
		return fmt.Sprintf("%T:%v", x, x)
	}
	return fmt.Sprintf("%T:%v", v, v)
}

// ---------------------------------------------------------------- scripted target

type targetServer struct {
	pb.UnimplementedGNMIServer
	mu    sync.Mutex
	plays map[string][]hop // target name -> history
	// gates: the history of a target is played only once its gate is open (the
	// harness opens it after a client has subscribed to that target through the
	// collector and received its sync, so that every operation is relayed live)
	gates map[string]chan struct{}
	once  map[string]*sync.Once
	sess  map[string]int // sessions started per target
}

func (s *targetServer) open(name string) {
	s.mu.Lock()
	o, g := s.once[name], s.gates[name]
	s.mu.Unlock()
	if o != nil {
		o.Do(func() { close(g) })
	}
}

const sentinel = "zz-sentinel"

func (s *targetServer) Subscribe(stream pb.GNMI_SubscribeServer) error {
	req, err := stream.Recv()
	if err != nil {
		return err
	}
	name := req.GetSubscribe().GetPrefix().GetTarget()
	s.mu.Lock()
	h, ok := s.plays[name]
	s.mu.Unlock()
	if !ok {
		return fmt.Errorf("no history for target %q", name)
	}
	s.mu.Lock()
	g := s.gates[name]
	s.mu.Unlock()
	if g != nil {
		select {
		case <-g:
		case <-stream.Context().Done():
			return nil
		}
	}
	// a history may contain "drop" hops: each Subscribe call plays the next
	// segment; after every segment but the last the stream is ended with an error
	s.mu.Lock()
	if s.sess == nil {
		s.sess = map[string]int{}
	}
	sn := s.sess[name]
	s.sess[name]++
	s.mu.Unlock()
	segStart, segEnd, seg, segs := 0, len(h), 0, 1
	for _, o := range h {
		if o.kind == "drop" {
			segs++
		}
	}
	if sn >= segs {
		sn = segs - 1
	}
	for i, o := range h {
		if o.kind != "drop" {
			continue
		}
		if seg == sn {
			segEnd = i
			break
		}
		seg++
		segStart = i + 1
	}
	last := sn == segs-1
	ts := int64(1000)
	if segs > 1 {
		// earlier sessions run further ahead of the collector's clock
		ts = time.Now().UnixNano() + int64(segs-1-sn)*int64(time.Hour) + 1000
	}
	for i, o := range h {
		if i < segStart || i >= segEnd {
			continue
		}
		ts++
		ps := paths[o.path]
		n := &pb.Notification{Timestamp: ts}
		if ps.origin != "" {
			n.Prefix = &pb.Path{Origin: ps.origin}
		}
		if o.kind == "upd" {
			tv, _ := valueAt(i)
			n.Update = []*pb.Update{{Path: ps.build(), Val: tv}}
		} else if o.kind == "updjson" {
			dv, _ := jsonAt(i)
			n.Update = []*pb.Update{{Path: ps.build(), Value: dv}}
		} else if o.kind == "replace" {
			tv, _ := valueAt(i)
			n.Delete = []*pb.Path{paths[5].build()}
			n.Update = []*pb.Update{{Path: ps.build(), Val: tv}}
		} else {
			n.Delete = []*pb.Path{ps.build()}
		}
		if err := stream.Send(&pb.SubscribeResponse{Response: &pb.SubscribeResponse_Update{Update: n}}); err != nil {
			return err
		}
		// Pace the operations so that each is normally relayed to the live
		// client before the next arrives (a subscriber is sent a leaf's LATEST
		// value, so back-to-back operations would hide a relay that drops the
		// later one). Sensitivity only: no verdict depends on this pause.
		time.Sleep(50 * time.Millisecond)
	}
	if !last {
		time.Sleep(50 * time.Millisecond)
		return status.Error(codes.Unavailable, "scripted stream drop")
	}
	ts++
	stream.Send(&pb.SubscribeResponse{Response: &pb.SubscribeResponse_Update{Update: &pb.Notification{Timestamp: ts, Update: []*pb.Update{{Path: &pb.Path{Elem: []*pb.PathElem{el(sentinel)}}, Val: &pb.TypedValue{Value: &pb.TypedValue_BoolVal{BoolVal: true}}}}}}})
	stream.Send(&pb.SubscribeResponse{Response: &pb.SubscribeResponse_SyncResponse{SyncResponse: true}})
	<-stream.Context().Done()
	return nil
}

func selfSigned(dir string) (certFile, keyFile string, cert tls.Certificate, err error) {
	priv, err := rsa.GenerateKey(rand.Reader, 2048)
	if err != nil {
		return
	}
	tmpl := x509.Certificate{SerialNumber: big.NewInt(1), Subject: pkix.Name{Organization: []string{"verif"}}, DNSNames: []string{"localhost"},
		NotBefore: time.Now().Add(-time.Hour), NotAfter: time.Now().Add(24 * time.Hour),
		KeyUsage: x509.KeyUsageKeyEncipherment | x509.KeyUsageDigitalSignature, ExtKeyUsage: []x509.ExtKeyUsage{x509.ExtKeyUsageServerAuth}, BasicConstraintsValid: true}
	der, err := x509.CreateCertificate(rand.Reader, &tmpl, &tmpl, &priv.PublicKey, priv)
	if err != nil {
		return
	}
	cb := pem.EncodeToMemory(&pem.Block{Type: "CERTIFICATE", Bytes: der})
	kb := pem.EncodeToMemory(&pem.Block{Type: "RSA PRIVATE KEY", Bytes: x509.MarshalPKCS1PrivateKey(priv)})
	certFile, keyFile = filepath.Join(dir, "cert.pem"), filepath.Join(dir, "key.pem")
	if err = os.WriteFile(certFile, cb, 0o600); err != nil {
		return
	}
	if err = os.WriteFile(keyFile, kb, 0o600); err != nil {
		return
	}
	cert, err = tls.X509KeyPair(cb, kb)
	return
}

func freePort() int {
	l, err := net.Listen("tcp", "127.0.0.1:0")
	if err != nil {
		panic(err)
	}
	defer l.Close()
	return l.Addr().(*net.TCPAddr).Port
}

// ---------------------------------------------------------------- rig

type violation struct {
	class, msg, hist string
}

type rig struct {
	work    string
	bindir  string
	cert    string
	key     string
	tlsCert tls.Certificate
	vios    []violation
	known   map[string]bool
	knownN  map[string]int
	ops     int64
	mu      sync.Mutex
}

func (r *rig) viol(class, hist, format string, a ...interface{}) {
	r.mu.Lock()
	defer r.mu.Unlock()
	if r.known[class] {
		r.knownN[class]++
		return
	}
	for _, v := range r.vios {
		if v.class == class {
			return
		}
	}
	r.vios = append(r.vios, violation{class, fmt.Sprintf(format, a...), hist})
}

// runBatch plays one history per configured target through one collector process.
func (r *rig) runBatch(batch int, hs [][]hop, distinctRequests bool, cliSample map[int]bool) {
	// scripted target
	ts := &targetServer{plays: map[string][]hop{}, gates: map[string]chan struct{}{}, once: map[string]*sync.Once{}}
	names := make([]string, len(hs))
	for i, h := range hs {
		names[i] = fmt.Sprintf("h%03d", i)
		ts.plays[names[i]] = h
		ts.gates[names[i]] = make(chan struct{})
		ts.once[names[i]] = &sync.Once{}
		r.ops += int64(len(h))
	}
	lis, err := net.Listen("tcp", "127.0.0.1:0")
	if err != nil {
		r.viol("machinery", "", "listen: %v", err)
		return
	}
	srv := grpc.NewServer(grpc.Creds(credentials.NewServerTLSFromCert(&r.tlsCert)))
	pb.RegisterGNMIServer(srv, ts)
	go srv.Serve(lis)
	defer srv.Stop()
	taddr := lis.Addr().String()

	// collector configuration
	var b strings.Builder
	req := `{ subscribe: { prefix: { origin: "openconfig" } subscription: { path: { elem: { name: "*" } } } } }`
	if !distinctRequests {
		fmt.Fprintf(&b, "request: { key: \"shared\" value: %s }\n", req)
	}
	for _, n := range names {
		rq := "shared"
		if distinctRequests {
			rq = "req-" + n
			fmt.Fprintf(&b, "request: { key: %q value: %s }\n", rq, req)
		}
		fmt.Fprintf(&b, "target: { key: %q value: { addresses: %q request: %q } }\n", n, taddr, rq)
	}
	cfgFile := filepath.Join(r.work, fmt.Sprintf("collector-%d.cfg", batch))
	os.WriteFile(cfgFile, []byte(b.String()), 0o644)
	port := freePort()
	logdir := filepath.Join(r.work, fmt.Sprintf("logs-%d", batch))
	os.MkdirAll(logdir, 0o755)
	cmd := exec.Command(filepath.Join(r.bindir, "gnmi_collector"), "-config_file", cfgFile, "-cert_file", r.cert, "-key_file", r.key,
		"-port", fmt.Sprint(port), "-log_dir", logdir, "-logtostderr=false", "-stderrthreshold=FATAL", "-dial_timeout", "20s")
	var stderr bytes.Buffer
	cmd.Stderr = &stderr
	if err := cmd.Start(); err != nil {
		r.viol("machinery", "", "cannot start gnmi_collector: %v", err)
		return
	}
	caddr := fmt.Sprintf("127.0.0.1:%d", port)
	exited := make(chan error, 1)
	go func() { exited <- cmd.Wait() }()
	defer func() { cmd.Process.Kill(); <-exited; exited <- nil }()
	up := false
wait:
	for i := 0; i < 1800; i++ { // up to 3 minutes on a loaded machine; no verdict depends on this
		select {
		case err := <-exited:
			exited <- err
			r.viol("collector-exited", "", "gnmi_collector exited while starting (%v); stderr: %s", err, stderr.String())
			return
		default:
		}
		c, err := net.DialTimeout("tcp", caddr, 200*time.Millisecond)
		if err == nil {
			c.Close()
			up = true
			break wait
		}
		time.Sleep(100 * time.Millisecond)
	}
	if !up {
		// alive but not serving after 3 minutes: the sandbox is overloaded, not a verdict
		r.viol("machinery", "", "gnmi_collector did not open its port within 3 minutes (still running); stderr: %s", stderr.String())
		return
	}
	// (a) client-library view of every slot, in parallel
	var wg sync.WaitGroup
	sem := make(chan struct{}, 16)
	for i := range hs {
		i := i
		wg.Add(1)
		sem <- struct{}{}
		go func() {
			defer wg.Done()
			defer func() { <-sem }()
			r.checkSlot(ts, caddr, names[i], hs[i], cliSample[i])
		}()
	}
	wg.Wait()
}

func leavesOf(c *client.CacheClient, target string) (map[string]string, bool) {
	out := map[string]string{}
	sent := false
	for _, l := range c.Leaves() {
		if len(l.Path) < 2 || l.Path[0] != target {
			out["<foreign>"+strings.Join(l.Path, "/")] = render(l.Val)
			continue
		}
		k := strings.Join(l.Path[1:], "/")
		if k == "openconfig/"+sentinel {
			sent = true
			continue
		}
		if strings.HasPrefix(k, "meta/") {
			continue // the collector's own per-target metadata, not target state
		}
		out[k] = render(l.Val)
	}
	return out, sent
}

func renderMap(m map[string]string) string {
	ks := make([]string, 0, len(m))
	for k := range m {
		ks = append(ks, k)
	}
	sort.Strings(ks)
	var b strings.Builder
	for _, k := range ks {
		fmt.Fprintf(&b, "%s=%s ", k, m[k])
	}
	return b.String()
}

func (r *rig) checkSlot(ts *targetServer, caddr, target string, h []hop, withCLI bool) {
	defer ts.open(target) // never leave the target's handler waiting
	hn := histName(h)
	want := model(h)
	// first a client that is subscribed BEFORE the target starts streaming
	// (every operation reaches it live), then a fresh one that gets the final
	// state as its initial snapshot
	if !r.viewOf(ts, caddr, target, hn, want, true) {
		return
	}
	if !r.viewOf(ts, caddr, target, hn, want, false) {
		return
	}
	r.cliForms(caddr, target, hn, want, withCLI)
}

// viewOf subscribes a CacheClient to target through the collector and compares
// its view behind the barrier with the model; live: the target's history is
// released only after this client received its sync.
func (r *rig) viewOf(ts *targetServer, caddr, target, hn string, want map[string]string, live bool) bool {
	mode := "snapshot"
	if live {
		mode = "live"
	}
	c := client.New()
	defer c.Close()
	q := client.Query{Addrs: []string{caddr}, Target: target, Type: client.Stream, Queries: []client.Path{{"*"}}, TLS: &tls.Config{InsecureSkipVerify: true}, Timeout: 90 * time.Second}
	errC := make(chan error, 1)
	ctx, cancel := context.WithCancel(context.Background())
	defer cancel()
	go func() { errC <- c.Subscribe(ctx, q) }()
	deadline := time.Now().Add(300 * time.Second)
	var got map[string]string
	seen := false
	for time.Now().Before(deadline) {
		select {
		case err := <-errC:
			r.viol("subscribe-through-collector-failed", hn, "target %s: a client subscribed through the collector got %v instead of the target's state (history %s)", target, err, hn)
			return false
		default:
		}
		// barrier = the client's sync (every leaf of the unordered initial walk
		// has arrived) AND the sentinel (everything streamed before it has
		// arrived: per-subscriber delivery is FIFO by first pending insertion)
		synced := false
		select {
		case <-c.Synced():
			synced = true
		default:
		}
		if synced {
			ts.open(target) // live: only now does the target start streaming
		}
		got, seen = leavesOf(c, target)
		if seen && synced {
			break
		}
		seen = false
		time.Sleep(20 * time.Millisecond)
	}
	if !seen {
		r.viol("leaf-never-visible", hn, "target %s (%s client): the sentinel leaf streamed after history %s never became visible to a client subscribed through the collector (view: %s)", target, mode, hn, renderMap(got))
		return false
	}
	if renderMap(got) != renderMap(want) {
		r.viol("client-view-differs", hn, "target %s after history %s: the view of a client subscribed %s is\n  %s\nthe target's final state is\n  %s", target, hn, map[bool]string{true: "before the target streamed (live relay)", false: "afterwards (snapshot)"}[live], renderMap(got), renderMap(want))
		return false
	}
	return true
}

func (r *rig) cliForms(caddr, target, hn string, want map[string]string, withCLI bool) {
	if !withCLI {
		return
	}
	// (b) gnmi_cli ONCE in three equivalent forms
	proto := fmt.Sprintf(`subscribe: { prefix: { target: %q } subscription: { path: { elem: { name: "*" } } } mode: ONCE }`, target)
	pf := filepath.Join(r.work, "req-"+target+".txt")
	os.WriteFile(pf, []byte(proto), 0o644)
	forms := map[string][]string{
		"flags":      {"-a", caddr, "-t", target, "-q", "*", "-qt", "once"},
		"proto":      {"-a", caddr, "-proto", proto},
		"proto_file": {"-a", caddr, "-proto_file", pf},
	}
	outs := map[string]string{}
	for name, args := range forms {
		for _, dt := range []string{"single", "group"} {
			full := append(append([]string{}, args...), "-tls_skip_verify", "-dt", dt, "-timeout", "90s", "-logtostderr=false", "-stderrthreshold=FATAL", "-log_dir", filepath.Join(r.work))
			cctx, ccancel := context.WithTimeout(context.Background(), 300*time.Second)
			o, err := exec.CommandContext(cctx, filepath.Join(r.bindir, "gnmi_cli"), full...).CombinedOutput()
			ccancel()
			if err != nil {
				r.viol("cli-failed:"+name, hn, "gnmi_cli %s (%s display) failed for target %s: %v\n%s", name, dt, target, err, o)
				continue
			}
			// "single" display prints in arrival order, which is not defined:
			// compare as a sorted set of lines
			// (trailing blanks are trimmed per line: an empty string value prints
			// as "path, " and may or may not be the last line printed)
			lines := strings.Split(strings.Trim(string(o), "\n"), "\n")
			for i := range lines {
				lines[i] = strings.TrimRight(lines[i], " \r")
			}
			if dt == "single" {
				sort.Strings(lines)
			}
			outs[name+"/"+dt] = strings.Join(lines, "\n")
		}
	}
	// single display: "target/origin/elems, value" lines; compare the path set and compare the forms
	for _, dt := range []string{"single", "group"} {
		ref, ok := outs["flags/"+dt]
		if !ok {
			continue
		}
		for _, name := range []string{"proto", "proto_file"} {
			if o, ok := outs[name+"/"+dt]; ok && o != ref {
				r.viol("cli-forms-differ:"+name, hn, "target %s history %s: gnmi_cli -%s (%s display) printed\n%s\nbut the equivalent query flags printed\n%s", target, hn, name, dt, o, ref)
			}
		}
	}
	if o, ok := outs["flags/single"]; ok {
		gotPaths := map[string]bool{}
		for _, line := range strings.Split(strings.TrimSpace(o), "\n") {
			if line == "" {
				continue
			}
			p := line
			if i := strings.Index(line, ", "); i >= 0 {
				p = line[:i]
			}
			p = strings.TrimPrefix(p, target+"/")
			if p == "openconfig/"+sentinel || strings.HasPrefix(p, "meta/") {
				continue
			}
			gotPaths[p] = true
		}
		for k := range want {
			if !gotPaths[k] {
				r.viol("cli-view-differs", hn, "target %s history %s: gnmi_cli output lacks leaf %s:\n%s", target, hn, k, o)
			}
		}
		for k := range gotPaths {
			if _, ok := want[k]; !ok {
				r.viol("cli-view-differs", hn, "target %s history %s: gnmi_cli output has extra/stale leaf %s:\n%s", target, hn, k, o)
			}
		}
	}
}

func main() {
	tier := flag.String("tier", "quick", "")
	evidence := flag.String("evidence", "", "")
	knownF := flag.String("known", "", "")
	replays := flag.String("replays", "replays", "")
	replay := flag.String("replay", "", "")
	// flags of the schedule explorer, accepted so that one command line can be
	// passed to every run of the property; the rig has no use for them
	flag.Duration("budget", 0, "ignored by the rig")
	flag.Int("maxbound", -1, "ignored by the rig")
	flag.Bool("unlockpoints", false, "ignored by the rig")
	flag.String("only", "", "ignored by the rig")
	xplore.QuietLogs()
	flag.Parse()
	start := time.Now()
	bindir := os.Getenv("VERIF_BINDIR")
	if bindir == "" {
		fmt.Fprintln(os.Stderr, "MACHINERY: VERIF_BINDIR not set")
		os.Exit(2)
	}
	work, err := os.MkdirTemp(os.Getenv("VERIF_LOGDIR"), "c01-")
	if err != nil {
		work, err = os.MkdirTemp("", "c01-")
	}
	if err != nil {
		fmt.Fprintln(os.Stderr, "MACHINERY:", err)
		os.Exit(2)
	}
	defer os.RemoveAll(work)
	r := &rig{work: work, bindir: bindir, known: map[string]bool{}, knownN: map[string]int{}}
	var knownList []xplore.Finding
	if *knownF != "" {
		knownList = xplore.LoadFindings(*knownF, "C01")
		for _, k := range knownList {
			r.known[k.Class] = true
		}
	}
	r.cert, r.key, r.tlsCert, err = selfSigned(work)
	if err != nil {
		fmt.Fprintln(os.Stderr, "MACHINERY:", err)
		os.Exit(2)
	}
	maxLen := 3
	if *tier == "thorough" {
		maxLen = 4
	}
	hs := histories(maxLen)
	if *replay != "" {
		b, _ := os.ReadFile(*replay)
		var rf struct{ Hist []hop }
		json.Unmarshal(b, &rf)
		hs = [][]hop{rf.Hist}
	}
	const batch = 64
	nb := 0
	for from := 0; from < len(hs); from += batch {
		to := from + batch
		if to > len(hs) {
			to = len(hs)
		}
		// CLI forms are exercised on a sample of slots of every batch
		cliSample := map[int]bool{0: true, (to - from) / 2: true, to - from - 1: true}
		if *tier == "thorough" || *replay != "" {
			for i := 0; i < to-from; i += 4 {
				cliSample[i] = true
			}
		}
		r.runBatch(nb, hs[from:to], nb%2 == 1, cliSample)
		nb++
		if len(r.vios) > 0 {
			break
		}
	}
	// reconnect histories: the target drops its stream after a first session
	// that ran an hour ahead of the collector's clock and comes back with a
	// different state stamped earlier; the client must end up with the second
	// session's state only
	if len(r.vios) == 0 && *replay == "" {
		l1, l2 := 1, 1
		if *tier == "thorough" {
			l1 = 2
		}
		var rh [][]hop
		for _, h1 := range histories(l1) {
			for _, h2 := range histories(l2) {
				if len(h1) == 0 {
					continue
				}
				rh = append(rh, append(append(append([]hop{}, h1...), hop{"drop", 0}), h2...))
			}
		}
		hs = append(hs, rh...) // for replay-file lookup by name
		for from := 0; from < len(rh) && len(r.vios) == 0; from += batch {
			to := from + batch
			if to > len(rh) {
				to = len(rh)
			}
			r.runBatch(nb, rh[from:to], nb%2 == 1, map[int]bool{0: true})
			nb++
		}
	}
	// single-target collector configuration
	if len(r.vios) == 0 && *replay == "" {
		r.runBatch(nb, hs[len(hs)-1:], false, map[int]bool{0: true})
		nb++
	}
	rc := 0
	for _, k := range knownList {
		if r.knownN[k.Class] > 0 {
			fmt.Printf("KNOWN-FINDING: property=C01 %s (class %s, %d cases)\n", k.What, k.Class, r.knownN[k.Class])
		}
	}
	for _, v := range r.vios {
		if v.class == "machinery" {
			fmt.Fprintln(os.Stderr, "MACHINERY:", v.msg)
			rc = 2
			continue
		}
		os.MkdirAll(*replays, 0o755)
		path, _ := filepath.Abs(filepath.Join(*replays, "C01-"+strings.NewReplacer(":", "_", "/", "_").Replace(v.class)+".json"))
		var hist []hop
		for _, h := range hs {
			if histName(h) == v.hist {
				hist = h
			}
		}
		b, _ := json.MarshalIndent(map[string]interface{}{"property": "C01", "class": v.class, "msg": v.msg, "history": v.hist, "Hist": hist, "run": "c01", "tier": *tier}, "", " ")
		os.WriteFile(path, b, 0o644)
		fmt.Printf("VIOLATION property=C01 replay=%s\n  class=%s\n  %s\n", path, v.class, strings.ReplaceAll(v.msg, "\n", "\n  "))
		if rc == 0 {
			rc = 1
		}
	}
	wall := time.Since(start).Seconds()
	fmt.Printf("C01 tier=%s histories=%d batches(collector processes)=%d operations=%d wall=%.1fs\n", *tier, len(hs), nb, r.ops, wall)
	if *evidence != "" && rc != 2 {
		finals := map[string]bool{}
		for _, h := range hs {
			finals[renderMap(model(h))] = true
		}
		samples := []interface{}{}
		for _, i := range []int{1, len(hs) / 3, len(hs) - 1} {
			if i < len(hs) {
				samples = append(samples, histName(hs[i])+" => "+renderMap(model(hs[i])))
			}
		}
		ev := map[string]interface{}{
			"property_id": "C01", "tier": *tier, "seed": 0, "level": "model_checking", "wall_s": wall, "violations": len(r.vios),
			"coverage": map[string]interface{}{
				"states": len(finals), "transitions": r.ops + int64(len(hs)), "traces_validated_against_impl": len(hs), "samples": samples,
				"evaluations": len(hs), "distinct_nontrivial": len(finals),
				"rule":       "every history (sequence of updates/deletes up to the tier's length over the alphabet) is played by a scripted TLS target to a real gnmi_collector process (one configured target per history); states = distinct final target states, transitions = streamed operations + sentinels; each history is validated through a real client.CacheClient and a sample through the gnmi_cli binary in 3 invocation forms x 2 display types",
				"exhaustive": len(r.vios) == 0, "collector_processes": nb, "engine": "E3 end-to-end rig (real binaries, free-running: no schedule claim)",
			},
			"assumptions": []string{"in-order delivery per target makes the sentinel leaf a barrier", "free-running processes: exhaustive over histories/configurations/invocation forms, not over schedules"},
		}
		b, _ := json.MarshalIndent(ev, "", " ")
		os.WriteFile(*evidence, b, 0o644)
	}
	os.Exit(rc)
}
