// C01, client side — the client library's cache (client.CacheClient, what
// gnmi_cli displays and what applications read through Leaves) against a map
// model: every sequence of up to four notifications over updates of three
// leaves (timestamps older / equal / newer, two values), deletes by name and
// with a wildcard at every position, and a Connected in between, delivered
// through a real Subscribe of the real CacheClient over a scripted transport.
// After the stream ended the client's view equals the model: last write wins
// (the client cache does not judge timestamps - the collector's cache does),
// a delete removes exactly what the path tree's query semantics match.
package main

import (
	"context"
	"fmt"
	"io"
	"sort"
	"strings"
	"time"

	"github.com/openconfig/gnmi/client"
	"github.com/openconfig/gnmi/zzverif/seqmc"
)

type ev struct {
	kind string // upd, del, connected
	path []string
	ts   int64
	val  int
}

func (e ev) String() string {
	switch e.kind {
	case "upd":
		return fmt.Sprintf("Update(%s@%d=%d)", strings.Join(e.path, "/"), e.ts, e.val)
	case "del":
		return fmt.Sprintf("Delete(%s)", strings.Join(e.path, "/"))
	}
	if e.kind == "sync" {
		return "Sync"
	}
	if e.kind == "reopen" {
		return "<stream ends; Close; Subscribe again on the same client>"
	}
	return "Connected"
}

func alphabet() []ev {
	var out []ev
	for _, p := range [][]string{{"t", "a", "x"}, {"t", "a", "y"}, {"t", "b"}} {
		for _, ts := range []int64{1, 2} {
			for _, v := range []int{1, 2} {
				out = append(out, ev{"upd", p, ts, v})
			}
		}
	}
	for _, p := range [][]string{{"t", "a", "x"}, {"t", "a"}, {"t", "*"}, {"t", "a", "*"}, {"t", "*", "x"}, {"*"}, {"t"}, {"*", "a", "*"}} {
		out = append(out, ev{kind: "del", path: p, ts: 3})
	}
	return append(out, ev{kind: "connected"}, ev{kind: "sync"}, ev{kind: "reopen"})
}

// matches: the path tree's query/delete semantics (see h/c09).
func matches(q, l []string) bool {
	n := len(q)
	if len(l) < n {
		n = len(l)
	}
	for i := 0; i < n; i++ {
		if q[i] != "*" && q[i] != l[i] {
			return false
		}
	}
	if len(q) <= len(l) {
		return true
	}
	return len(q) == len(l)+1 && q[len(q)-1] == "*"
}

type impl struct {
	q      client.Query
	script []ev
	pos    *int
}

func (s *impl) Subscribe(ctx context.Context, q client.Query) error { s.q = q; return nil }
func (s *impl) Recv() error {
	if *s.pos >= len(s.script) {
		return io.EOF
	}
	e := s.script[*s.pos]
	*s.pos++
	switch e.kind {
	case "reopen":
		return io.EOF
	case "sync":
		return s.q.NotificationHandler(client.Sync{})
	case "upd":
		return s.q.NotificationHandler(client.Update{Path: append([]string{}, e.path...), TS: time.Unix(0, e.ts), Val: e.val})
	case "del":
		return s.q.NotificationHandler(client.Delete{Path: append([]string{}, e.path...), TS: time.Unix(0, e.ts)})
	}
	return s.q.NotificationHandler(client.Connected{})
}
func (s *impl) Close() error { return nil }
func (s *impl) Poll() error  { return nil }

func vio(class, format string, a ...interface{}) []seqmc.Violation {
	return []seqmc.Violation{{Class: class, Msg: fmt.Sprintf(format, a...)}}
}

func protect(f func() error) (err error) {
	defer func() {
		if r := recover(); r != nil {
			err = fmt.Errorf("panic: %v", r)
		}
	}()
	return f()
}

type harness struct{}

func (harness) Property() string { return "C01" }
func (harness) Specs(tier string) []seqmc.Spec {
	alpha := alphabet()
	maxLen := 3
	if tier == "thorough" {
		maxLen = 4
	}
	var seqs [][]int
	var rec func(cur []int)
	rec = func(cur []int) {
		if len(cur) > 0 {
			seqs = append(seqs, append([]int{}, cur...))
		}
		if len(cur) == maxLen {
			return
		}
		for i := range alpha {
			rec(append(cur, i))
		}
	}
	rec(nil)
	return []seqmc.Spec{{Name: fmt.Sprintf("client-library view: every sequence of <=%d notifications (updates of 3 leaves x 2 timestamps x 2 values, 8 delete patterns, Connected, Sync, and the stream ending + Close + Subscribe again on the same client object) through the real CacheClient", maxLen), N: len(seqs), Run: func(i int) (string, bool, []seqmc.Violation) {
		var script []ev
		var names []string
		for _, k := range seqs[i] {
			script = append(script, alpha[k])
			names = append(names, alpha[k].String())
		}
		desc := strings.Join(names, "; ")
		model := map[string]int{}
		for _, e := range script {
			switch e.kind {
			case "upd":
				model[strings.Join(e.path, "/")] = e.val
			case "del":
				for k := range model {
					if matches(e.path, strings.Split(k, "/")) {
						delete(model, k)
					}
				}
			}
		}
		client.ResetRegisteredImpls()
		pos, sessions, delivered := 0, 1, 0
		for _, e := range script {
			if e.kind == "reopen" {
				sessions++
			} else {
				delivered++
			}
		}
		client.RegisterTest("scripted", func(ctx context.Context, d client.Destination) (client.Impl, error) {
			return &impl{script: script, pos: &pos}, nil
		})
		c := client.New()
		seen := 0
		q := client.Query{Addrs: []string{"x"}, Target: "t", Type: client.Stream, Queries: []client.Path{{"*"}}, NotificationHandler: func(client.Notification) error { seen++; return nil }}
		for k := 0; k < sessions; k++ {
			if k > 0 {
				if err := c.Close(); err != nil {
					return desc, true, vio("client-close", "%s: Close returned %v", desc, err)
				}
			}
			if err := protect(func() error { return c.Subscribe(context.Background(), q, "scripted") }); err != nil {
				return desc, true, vio("client-subscribe", "%s: Subscribe #%d returned %v", desc, k+1, err)
			}
		}
		got := map[string]int{}
		for _, l := range c.Leaves() {
			got[strings.Join(l.Path, "/")], _ = l.Val.(int)
		}
		render := func(m map[string]int) string {
			var ks []string
			for k, v := range m {
				ks = append(ks, fmt.Sprintf("%s=%d", k, v))
			}
			sort.Strings(ks)
			return strings.Join(ks, " ")
		}
		if render(got) != render(model) {
			return desc, true, vio("client-view-differs", "after [%s] the client library's cache holds {%s}, the notifications it was given amount to {%s}", desc, render(got), render(model))
		}
		if seen != delivered {
			return desc, true, vio("client-handler-calls", "after [%s] the application's handler was called %d times for %d notifications", desc, seen, delivered)
		}
		return desc, len(model) > 0, nil
	}}}
}

func main() { seqmc.Main(harness{}) }
