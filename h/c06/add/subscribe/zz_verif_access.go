package subscribe

import (
	"github.com/openconfig/gnmi/coalesce"
	"github.com/openconfig/gnmi/match"
	pb "github.com/openconfig/gnmi/proto/gnmi"
)

// Added by /verif through the build overlay only: registers a subscription
// list exactly as Subscribe does for STREAM mode and returns the queue the
// registered client inserts into.
func VerifAddSubscription(m *match.Match, s *pb.SubscriptionList) (*coalesce.Queue, func()) {
	c := &matchClient{q: coalesce.NewQueue()}
	return c.q, addSubscription(m, s, c)
}
