// C06 — streaming filter consistent with queries; one delivery per
// notification; nothing after removal. Exhaustive enumeration of the match
// relation to length 4, containment against ctree.Query and against the gNMI
// layer (CompletePath + Cache.Query vs addSubscription + UpdateNotification),
// once-per-notification, and BFS over subscribe/unsubscribe/notify histories.
package main

import (
	"context"
	"fmt"
	"sort"
	"strings"

	"github.com/openconfig/gnmi/cache"
	"github.com/openconfig/gnmi/ctree"
	"github.com/openconfig/gnmi/match"
	"github.com/openconfig/gnmi/path"
	pb "github.com/openconfig/gnmi/proto/gnmi"
	"github.com/openconfig/gnmi/subscribe"
	"github.com/openconfig/gnmi/zzverif/seqmc"
)

func seqs(alpha []string, minLen, maxLen int) [][]string {
	var out [][]string
	prev := [][]string{{}}
	if minLen == 0 {
		out = append(out, []string{})
	}
	for l := 1; l <= maxLen; l++ {
		var cur [][]string
		for _, p := range prev {
			for _, a := range alpha {
				cur = append(cur, append(append([]string{}, p...), a))
			}
		}
		if l >= minLen {
			out = append(out, cur...)
		}
		prev = cur
	}
	return out
}

// rel is the relation of the statement: agreement on every common position,
// a wildcard on either side agrees with anything.
func rel(q, p []string) bool {
	n := len(q)
	if len(p) < n {
		n = len(p)
	}
	for i := 0; i < n; i++ {
		if q[i] != "*" && p[i] != "*" && q[i] != p[i] {
			return false
		}
	}
	return true
}

type counter struct{ n int }

func (c *counter) Update(interface{}) { c.n++ }

func vio(class, format string, a ...interface{}) []seqmc.Violation {
	return []seqmc.Violation{{Class: class, Msg: fmt.Sprintf(format, a...)}}
}

// (a) relation
func specRelation(maxLen int) seqmc.Spec {
	qs := seqs([]string{"a", "b", "*"}, 0, maxLen)
	return seqmc.Spec{Name: fmt.Sprintf("relation: all (query, update path) over {a,b,*} to length %d", maxLen), N: len(qs) * len(qs), Run: func(i int) (string, bool, []seqmc.Violation) {
		q, p := qs[i/len(qs)], qs[i%len(qs)]
		m := match.New()
		c := &counter{}
		remove := m.AddQuery(q, c)
		m.Update("n", p)
		desc := fmt.Sprintf("query=%v path=%v", q, p)
		want := rel(q, p)
		if (c.n > 0) != want || c.n > 1 {
			return desc, true, vio("relation", "client registered at %v was invoked %d times for an update at %v; the statement says invoked=%v", q, c.n, p, want)
		}
		remove()
		c.n = 0
		m.Update("n", p)
		if c.n != 0 {
			return desc, true, vio("after-remove", "client registered at %v was invoked after its remove function ran (update at %v)", q, p)
		}
		remove() // idempotent
		return desc, want, nil
	}}
}

// (b1) containment against ctree.Query
func specContainTree(maxLen int) seqmc.Spec {
	ls := seqs([]string{"a", "b"}, 1, maxLen)
	qs := seqs([]string{"a", "b", "*"}, 0, maxLen)
	return seqmc.Spec{Name: fmt.Sprintf("containment: ctree.Query(Q) reports L => trie offers L to Q (length <= %d)", maxLen), N: len(ls) * len(qs), Run: func(i int) (string, bool, []seqmc.Violation) {
		l, q := ls[i/len(qs)], qs[i%len(qs)]
		t := &ctree.Tree{}
		t.Add(l, "v")
		reported := false
		t.Query(q, func([]string, *ctree.Leaf, interface{}) error { reported = true; return nil })
		m := match.New()
		c := &counter{}
		m.AddQuery(q, c)
		m.Update("n", l)
		desc := fmt.Sprintf("leaf=%v query=%v", l, q)
		if reported && c.n == 0 {
			return desc, true, vio("containment", "ctree.Query(%v) reports leaf %v but an update at that leaf is not offered to a subscriber of %v", q, l, q)
		}
		return desc, reported, nil
	}}
}

type gcase struct {
	target, pOrigin, sOrigin string
	pElems, sElems           []string
	lTarget, lOrigin         string
	lElems                   []string
	lead                     int  // 0: single path; 1: after a path without origin; 2: after a path with origin o2
	split                    int  // number of leaf elements carried in the notification prefix
	originInPath             bool // the leaf's origin travels in the update path, the prefix has none
	deprPrefix               bool // the subscription prefix carries its elements in the deprecated string-list encoding
}

func mkp(origin string, elems []string) *pb.Path {
	p := &pb.Path{Origin: origin}
	for _, e := range elems {
		p.Elem = append(p.Elem, &pb.PathElem{Name: e})
	}
	return p
}

// (b2) containment through the gNMI layer
func specContainGNMI() seqmc.Spec {
	var cases []gcase
	for _, tg := range []string{"t1", "*"} {
		for _, po := range []string{"", "o"} {
			for _, pe := range [][]string{{}, {"a"}, {"*"}} {
				for _, so := range []string{"", "o"} {
					for _, se := range seqs([]string{"a", "b", "*"}, 0, 2) {
						for _, lt := range []string{"t1", "t2"} {
							for _, lo := range []string{"", "o", "o2"} {
								for _, le := range [][]string{{"a"}, {"a", "b"}, {"b"}, {"a", "a"}} {
									for lead := 0; lead <= 2; lead++ {
										// split: how many of the leaf's elements the notification
										// carries in its PREFIX (the rest in the update path; with
										// all of them in the prefix the update path has no elements)
										for split := 0; split <= len(le); split++ {
											if split > 0 && lead > 0 {
												continue
											}
											cases = append(cases, gcase{tg, po, so, pe, se, lt, lo, le, lead, split, false, false})
											if len(pe) > 0 && split == 0 {
												cases = append(cases, gcase{tg, po, so, pe, se, lt, lo, le, lead, split, false, true})
											}
										}
										// the same leaf announced with its origin carried by the
										// UPDATE PATH under an origin-less prefix: wherever the cache
										// files that (it indexes by the prefix only), the trie offers
										// the update where a query finds the leaf
										if lo != "" && lead == 0 {
											cases = append(cases, gcase{tg, po, so, pe, se, lt, lo, le, lead, 0, true, false})
										}
									}
								}
							}
						}
					}
				}
			}
		}
	}
	return seqmc.Spec{Name: "containment: CompletePath+Cache.Query selects leaf => addSubscription+UpdateNotification offers it", N: len(cases), Run: func(i int) (string, bool, []seqmc.Violation) {
		g := cases[i]
		desc := fmt.Sprintf("%+v", g)
		c := cache.New([]string{"t1", "t2"})
		npre := mkp(g.lOrigin, g.lElems[:g.split])
		npre.Target = g.lTarget
		n := &pb.Notification{Timestamp: 1, Prefix: npre, Update: []*pb.Update{{Path: mkp("", g.lElems[g.split:]), Val: &pb.TypedValue{Value: &pb.TypedValue_IntVal{IntVal: 1}}}}}
		if g.originInPath {
			npre.Origin = ""
			n.Update[0].Path.Origin = g.lOrigin
		}
		var fed *ctree.Leaf
		c.SetClient(func(l *ctree.Leaf) { fed = l })
		if err := c.GnmiUpdate(n); err != nil {
			return desc, false, vio("setup", "GnmiUpdate: %v", err)
		}
		prefix := mkp(g.pOrigin, g.pElems)
		prefix.Target = g.target
		if g.deprPrefix {
			for _, e := range prefix.Elem {
				prefix.Element = append(prefix.Element, e.Name)
			}
			prefix.Elem = nil
		}
		sl := &pb.SubscriptionList{Prefix: prefix}
		// the path under test comes after another path of the same list
		// (nothing registered for one path may leak into the next)
		switch g.lead {
		case 1:
			sl.Subscription = append(sl.Subscription, &pb.Subscription{Path: mkp("", []string{"z"})})
		case 2:
			sl.Subscription = append(sl.Subscription, &pb.Subscription{Path: mkp("o2", []string{"z"})})
		}
		sl.Subscription = append(sl.Subscription, &pb.Subscription{Path: mkp(g.sOrigin, g.sElems)})
		for _, sub := range sl.Subscription[:len(sl.Subscription)-1] {
			if _, err := path.CompletePath(sl.Prefix, sub.Path); err != nil {
				return desc, false, nil // the leading path itself is illegal with this prefix
			}
		}
		full, err := path.CompletePath(sl.Prefix, sl.Subscription[len(sl.Subscription)-1].Path)
		if err != nil {
			return desc, false, nil
		}
		selected := false
		c.Query(g.target, full, func([]string, *ctree.Leaf, interface{}) error { selected = true; return nil })
		m := match.New()
		q, remove := subscribe.VerifAddSubscription(m, sl)
		subscribe.UpdateNotification(m, fed, n, path.ToStrings(n.Prefix, true))
		offered := q.Len() > 0
		if selected && !offered {
			return desc, true, vio("containment-gnmi", "a snapshot query for %v selects the leaf but a streamed update of it is not offered to the subscription", sl)
		}
		remove()
		subscribe.UpdateNotification(m, fed, n, path.ToStrings(n.Prefix, true))
		if q.Len() > 1 || (!offered && q.Len() > 0) {
			return desc, true, vio("after-remove", "subscription %v received an update after it was removed", sl)
		}
		_ = context.Background
		return desc, selected, nil
	}}
}

// (c) at most once per notification, and iff some pair matches
func specOnce() seqmc.Spec {
	qs := seqs([]string{"a", "b", "*"}, 0, 2)
	var sets [][][]string
	for i := range qs {
		sets = append(sets, [][]string{qs[i]})
		for j := i + 1; j < len(qs); j++ {
			sets = append(sets, [][]string{qs[i], qs[j]})
		}
	}
	paths := [][]string{{"a"}, {"b"}, {"a", "b"}, {"a", "a"}, {"b", "a"}, {}} // {}: every element is in the prefix
	type noti struct{ ups, dels [][]string }
	var notis []noti
	for _, p := range paths {
		notis = append(notis, noti{ups: [][]string{p}}, noti{dels: [][]string{p}})
		for _, p2 := range paths {
			notis = append(notis, noti{ups: [][]string{p, p2}}, noti{ups: [][]string{p}, dels: [][]string{p2}})
		}
	}
	notis = append(notis, noti{ups: [][]string{{"a"}, {"a", "b"}, {"b"}}}, noti{ups: [][]string{{"a"}}, dels: [][]string{{"a", "b"}, {"b", "a"}}})
	// every notification plain, below a prefix, and as an atomic group below a prefix
	const variants = 3
	return seqmc.Spec{Name: "once per notification: clients with 1-2 paths x notifications with 1-3 updates/deletes x {plain, prefixed, atomic}", N: len(sets) * len(notis) * variants, Run: func(i int) (string, bool, []seqmc.Violation) {
		variant := i % variants
		i /= variants
		set, nt := sets[i/len(notis)], notis[i%len(notis)]
		var prefix []string
		if variant > 0 {
			prefix = []string{"a"}
		}
		full := func(p []string) []string { return append(append([]string{}, prefix...), p...) }
		m := match.New()
		c, other := &counter{}, &counter{}
		for _, q := range set {
			m.AddQuery(q, c)
			m.AddQuery(q, other)
		}
		n := &pb.Notification{Timestamp: 1, Atomic: variant == 2}
		if variant > 0 {
			n.Prefix = mkp("", prefix)
		}
		want := false
		for _, p := range nt.ups {
			n.Update = append(n.Update, &pb.Update{Path: mkp("", p)})
			for _, q := range set {
				want = want || rel(q, full(p))
			}
		}
		for _, p := range nt.dels {
			n.Delete = append(n.Delete, mkp("", p))
			for _, q := range set {
				want = want || rel(q, full(p))
			}
		}
		subscribe.UpdateNotification(m, n, n, append([]string{}, prefix...))
		desc := fmt.Sprintf("queries=%v prefix=%v atomic=%v updates=%v deletes=%v", set, prefix, n.Atomic, nt.ups, nt.dels)
		if c.n > 1 || other.n > 1 {
			return desc, true, vio("more-than-once", "one notification was offered %d times to a subscriber (%s)", c.n, desc)
		}
		if (c.n == 1) != want || (other.n == 1) != want {
			return desc, true, vio("once-iff-match", "notification offered=%v/%v, some pair matches=%v (%s)", c.n == 1, other.n == 1, want, desc)
		}
		return desc, want, nil
	}}
}

// (d) histories: subscribe / unsubscribe / notify for three clients, through
// the server's registration routine with multi-path lists sharing a prefix.
type hop struct {
	kind   string
	client int
	set    int
	path   []string
}

var subSets = [][][]string{
	{{"a"}},
	{{"a", "b"}, {"a", "c"}}, // two paths below one prefix element
	{{"b"}, {"*", "c"}},
	{{"a"}, {"a"}}, // the same path listed twice: one registration, two remove functions
	{{"a", "b"}},   // a single path nested below another client's {a}: its removal leaves a child-less node that still holds that client
}

var probes = [][]string{{"t", "a"}, {"t", "a", "b"}, {"t", "a", "c"}, {"t", "b"}, {"t", "b", "c"}, {"t", "c", "c"}}

type hsys struct {
	ops     []hop
	m       *match.Match
	queues  [3]interface{ Len() int }
	removes [3]func()
	active  [3]int // -1 none, else subSets index
	drain   [3]func()
	// past[c]: bit 0 = client c has unsubscribed a list with a repeated path,
	// bit 1 = it has unsubscribed any other list. Part of the canonical state:
	// an implementation may keep bookkeeping (registration counts) that past
	// removals leave behind and that no probe shows until later.
	past [3]int
	// ever: bit i = list i of subSets has been fully unsubscribed by somebody at
	// some point. The trie is one shared structure: what a removal leaves behind
	// in it (a pruned branch that is still referenced, a count) depends on WHICH
	// list went away, not on who removed it. everMask selects the bits that are
	// part of the canonical state (quick: the wildcard list; thorough: all).
	ever, everMask int
}

func (s *hsys) offered(p []string) [3]bool {
	var before [3]int
	for i := range s.queues {
		if s.queues[i] != nil {
			before[i] = s.queues[i].Len()
		}
	}
	// every probe is a distinct value so that the coalescing queue grows by one per offer
	s.m.Update(&struct{ p []string }{p}, p)
	var out [3]bool
	for i := range s.queues {
		if s.queues[i] != nil {
			out[i] = s.queues[i].Len() > before[i]
		}
	}
	return out
}

func (s *hsys) wantOffered(ci int, p []string) bool {
	if s.active[ci] < 0 {
		return false
	}
	for _, q := range subSets[s.active[ci]] {
		if rel(append([]string{"t", "p"}, q...), p) || rel(append([]string{"t"}, append([]string{"p"}, q...)...), p) {
			return true
		}
	}
	return false
}

func (s *hsys) Apply(i int) []seqmc.Violation {
	o := s.ops[i]
	switch o.kind {
	case "sub":
		if s.active[o.client] >= 0 {
			return nil // already subscribed: one subscription per client at a time
		}
		sl := &pb.SubscriptionList{Prefix: &pb.Path{Target: "t", Elem: []*pb.PathElem{{Name: "p"}}}}
		for _, q := range subSets[o.set] {
			sl.Subscription = append(sl.Subscription, &pb.Subscription{Path: mkp("", q)})
		}
		q, rm := subscribe.VerifAddSubscription(s.m, sl)
		s.queues[o.client], s.removes[o.client], s.active[o.client] = q, rm, o.set
	case "unsub":
		if s.removes[o.client] != nil {
			s.removes[o.client]()
			s.removes[o.client]() // idempotent
			if s.active[o.client] == 3 || s.active[o.client] == 4 {
				s.past[o.client] |= 1
			} else if s.active[o.client] >= 0 {
				s.past[o.client] |= 2
			}
			if s.active[o.client] >= 0 {
				s.ever |= 1 << uint(s.active[o.client])
			}
			s.active[o.client] = -1
		}
	}
	// probe every path: who is offered an update there?
	for _, p := range append(probes, [][]string{{"t", "p", "a"}, {"t", "p", "a", "b"}, {"t", "p", "a", "c"}, {"t", "p", "b"}, {"t", "p", "x", "c"}, {"t", "p"}, {"t"}}...) {
		got := s.offered(p)
		for ci := 0; ci < 3; ci++ {
			if want := s.wantOffered(ci, p); got[ci] != want {
				if !want {
					return vio("offered-after-remove", "after %v: client %d (active set %d) was offered an update at %v although no registered path of it matches (removed subscriptions must not be invoked)", o, ci, s.active[ci], p)
				}
				return vio("not-offered", "after %v: client %d (subscribed to p/%v) was not offered an update at %v", o, ci, subSets[s.active[ci]], p)
			}
		}
	}
	return nil
}

func (s *hsys) Key() string {
	var b strings.Builder
	for ci := 0; ci < 3; ci++ {
		fmt.Fprintf(&b, "%d/%d;", s.active[ci], s.past[ci])
	}
	fmt.Fprintf(&b, "ever=%d;", s.ever&s.everMask)
	// observable behaviour of the trie on the probe set
	var obs []string
	for _, p := range [][]string{{"t", "p", "a"}, {"t", "p", "a", "b"}, {"t", "p", "a", "c"}, {"t", "p", "b"}, {"t", "p", "x", "c"}, {"t", "p"}} {
		obs = append(obs, fmt.Sprint(s.offered(p)))
	}
	sort.Strings(obs)
	return b.String() + strings.Join(obs, "")
}

func specHistories(depth int, fullMask bool) seqmc.Spec {
	var ops []hop
	var names []string
	for c := 0; c < 3; c++ {
		for si := range subSets {
			ops = append(ops, hop{kind: "sub", client: c, set: si})
		}
		ops = append(ops, hop{kind: "unsub", client: c})
	}
	for _, o := range ops {
		if o.kind == "sub" {
			names = append(names, fmt.Sprintf("subscribe(c%d, p/%v)", o.client, subSets[o.set]))
		} else {
			names = append(names, fmt.Sprintf("unsubscribe(c%d)", o.client))
		}
	}
	return seqmc.Spec{Name: "histories: subscribe/unsubscribe by 3 clients via addSubscription, probed after every step (closure)", Ops: names, Depth: depth, New: func() seqmc.Sys {
		mask := 1 << 2 // the list with a wildcard element
		if fullMask {
			mask = 1<<uint(len(subSets)) - 1
		}
		return &hsys{ops: ops, m: match.New(), active: [3]int{-1, -1, -1}, everMask: mask}
	}}
}

// (e) populations: MANY clients registered at once - every subset of a 3x3 grid
// of queries d/{x,y,z}/{1,2,3} plus (optionally) clients at d/x, d/* and d, each
// its own client - and one update at every path of a set that ends above, at and
// below them, with wildcards. Every client is invoked exactly once iff the
// relation holds, through Update and through UpdateOnce.
func specPopulations() seqmc.Spec {
	var grid [][]string
	for _, a := range []string{"x", "y", "z"} {
		for _, b := range []string{"1", "2", "3"} {
			grid = append(grid, []string{"d", a, b})
		}
	}
	extra := [][]string{{"d", "x"}, {"d", "*"}, {"d"}}
	paths := [][]string{{}, {"d"}, {"*"}, {"d", "x"}, {"d", "*"}, {"d", "y"}, {"d", "x", "1"}, {"d", "*", "2"}, {"*", "*", "*"}, {"d", "z", "3", "deep"}, {"e"}}
	n := (1 << uint(len(grid))) * 2 * len(paths)
	return seqmc.Spec{Name: fmt.Sprintf("populations: every subset of 9 sibling queries d/{x,y,z}/{1,2,3} (x with/without 3 clients above them), each its own client, x %d update paths ending above / at / below them", len(paths)), N: n, Run: func(i int) (string, bool, []seqmc.Violation) {
		p := paths[i%len(paths)]
		i /= len(paths)
		withExtra := i%2 == 1
		mask := i / 2
		m := match.New()
		var qs [][]string
		for k, q := range grid {
			if mask>>uint(k)&1 == 1 {
				qs = append(qs, q)
			}
		}
		if withExtra {
			qs = append(qs, extra...)
		}
		cs := make([]*counter, len(qs))
		for k, q := range qs {
			cs[k] = &counter{}
			m.AddQuery(q, cs[k])
		}
		desc := fmt.Sprintf("queries=%v update at %v", qs, p)
		for _, once := range []bool{false, true} {
			for _, c := range cs {
				c.n = 0
			}
			if once {
				m.UpdateOnce("n", p, map[match.Client]struct{}{})
			} else {
				m.Update("n", p)
			}
			for k, q := range qs {
				want := 0
				if rel(q, p) {
					want = 1
				}
				if cs[k].n != want {
					return desc, true, vio("population", "with clients registered at %v, an update at %v (UpdateOnce=%v) invoked the client at %v %d times; the statement says %d", qs, p, once, q, cs[k].n, want)
				}
			}
		}
		return desc, len(qs) > 1, nil
	}}
}

// (f) one client, two queries, one of them removed: the other registration is
// untouched - whatever the two have in common (a shared prefix, a wildcard
// tail that selects the same updates, one nested in the other).
func specTwoQueries() seqmc.Spec {
	qs := seqs([]string{"a", "b", "*"}, 1, 3)
	ps := seqs([]string{"a", "b", "*"}, 0, 3)
	return seqmc.Spec{Name: fmt.Sprintf("one client with two queries (each <=3 over {a,b,*}), the first removed: offered iff the remaining one agrees (%d pairs x %d update paths)", len(qs)*len(qs), len(ps)), N: len(qs) * len(qs), Run: func(i int) (string, bool, []seqmc.Violation) {
		q1, q2 := qs[i/len(qs)], qs[i%len(qs)]
		desc := fmt.Sprintf("queries %v and %v of one client, %v removed", q1, q2, q1)
		if fmt.Sprint(q1) == fmt.Sprint(q2) {
			return desc, false, nil // the same query twice is one registration
		}
		m := match.New()
		c := &counter{}
		rm1 := m.AddQuery(q1, c)
		rm2 := m.AddQuery(q2, c)
		for _, p := range ps {
			c.n = 0
			m.UpdateOnce("n", p, map[match.Client]struct{}{})
			want := 0
			if rel(q1, p) || rel(q2, p) {
				want = 1
			}
			if c.n != want {
				return desc, true, vio("two-queries", "client registered at %v and %v was invoked %d times (UpdateOnce) for an update at %v; the statement says %d", q1, q2, c.n, p, want)
			}
		}
		rm1()
		for _, p := range ps {
			c.n = 0
			m.Update("n", p)
			want := rel(q2, p)
			if (c.n > 0) != want || c.n > 1 {
				return desc, true, vio("two-queries", "client registered at %v and %v, after removing %v: invoked %d times for an update at %v; its remaining query %v says invoked=%v", q1, q2, q1, c.n, p, q2, want)
			}
		}
		rm2()
		for _, p := range ps {
			c.n = 0
			m.Update("n", p)
			if c.n != 0 {
				return desc, true, vio("after-remove", "client invoked at %v after both its queries %v, %v were removed", p, q1, q2)
			}
		}
		return desc, true, nil
	}}
}

type harness struct{}

func (harness) Property() string { return "C06" }
func (harness) Specs(tier string) []seqmc.Spec {
	n := 4
	if tier == "thorough" {
		n = 5
	}
	return []seqmc.Spec{specRelation(n), specContainTree(n), specContainGNMI(), specOnce(), specHistories(30, tier == "thorough"), specPopulations(), specTwoQueries()}
}

func main() { seqmc.Main(harness{}) }
