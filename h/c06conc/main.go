// C06 (schedules) — the match trie under concurrent use: updates racing
// subscribe / unsubscribe. A client is never invoked after its remove function
// returned, other clients registered with matching paths are offered every
// update exactly once, no deadlock / panic; the same exploration runs in a
// -race build.
package main

import (
	"fmt"
	"strings"
	"sync"

	"github.com/openconfig/gnmi/match"
	"github.com/openconfig/gnmi/zzverif/hutil"
	"github.com/openconfig/gnmi/zzverif/vrt"
	"github.com/openconfig/gnmi/zzverif/xplore"
)

type client struct {
	name  string
	mu    sync.Mutex // real mutex: two updaters may call back concurrently (both hold the read lock)
	calls []int64    // stamps of invocations
}

func (c *client) Update(interface{}) {
	vrt.Yield() // the callback takes time: other threads may run meanwhile
	c.mu.Lock()
	c.calls = append(c.calls, vrt.Stamp())
	c.mu.Unlock()
}

type cfgData struct {
	stay    [][]string // queries of the client that stays
	leave   [][]string // queries of the client that unsubscribes
	updates [][]string // one updater thread per path list element
	once    bool
	adder   bool
}

type harness struct{}

func (harness) Property() string { return "C06" }

func (harness) Configs(tier string) []xplore.Config {
	var out []xplore.Config
	bound := 2
	if tier == "thorough" {
		bound = 3
	}
	qsets := [][][]string{{{"a"}}, {{"a", "b"}}, {{"*"}}, {{"a", "b"}, {"a", "c"}}}
	upds := [][][]string{{{"a", "b"}}, {{"a"}}, {{"a", "b"}, {"a", "c"}}}
	for _, stay := range qsets {
		for _, leave := range qsets {
			for _, u := range upds {
				for _, once := range []bool{false, true} {
					out = append(out, xplore.Config{Name: fmt.Sprintf("stay=%v leave=%v updates=%v once=%v", stay, leave, u, once), Bound: bound, Data: cfgData{stay, leave, u, once, len(u) == 1}})
				}
			}
		}
	}
	return out
}

func rel(q, p []string) bool {
	n := len(q)
	if len(p) < n {
		n = len(p)
	}
	for i := 0; i < n; i++ {
		if q[i] != "*" && p[i] != "*" && q[i] != p[i] {
			return false
		}
	}
	return true
}

func (harness) Run(cfg xplore.Config, ch vrt.Chooser, trace bool) (xplore.Outcome, *vrt.Result) {
	d := cfg.Data.(cfgData)
	var out xplore.Outcome
	viol := func(class, format string, a ...interface{}) {
		out.Violations = append(out.Violations, xplore.Violation{Class: class, Msg: fmt.Sprintf(format, a...)})
	}
	res := vrt.Run(ch, vrt.Options{Trace: trace, FreeSwitch: true}, func() {
		m := match.New()
		stay, leave, late := &client{name: "stay"}, &client{name: "leave"}, &client{name: "late"}
		for _, q := range d.stay {
			m.AddQuery(q, stay)
		}
		var removes []func()
		for _, q := range d.leave {
			removes = append(removes, m.AddQuery(q, leave))
		}
		var removedAt int64 = -1
		vrt.GoNamed("unsubscribe", func() {
			for _, r := range removes {
				r()
			}
			removedAt = vrt.Stamp()
		})
		for i, p := range d.updates {
			p := p
			vrt.GoNamed(fmt.Sprintf("update%d", i), func() {
				if d.once {
					m.UpdateOnce("n", p, map[match.Client]struct{}{})
				} else {
					m.Update("n", p)
				}
			})
		}
		if d.adder {
			vrt.GoNamed("subscribe", func() { m.AddQuery([]string{"a", "b"}, late) })
		}
		vrt.Idle()
		vrt.Join()
		if !vrt.AllDone() {
			viol("deadlock", "threads never finished: %v", vrt.ParkedInfo())
			return
		}
		for _, s := range leave.calls {
			if s > removedAt {
				viol("invoked-after-remove", "the unsubscribed client was invoked at logical time %d, after its remove function had returned at %d", s, removedAt)
			}
		}
		// the client that stays is offered every matching update exactly once
		want := 0
		for _, p := range d.updates {
			for _, q := range d.stay {
				if rel(q, p) {
					want++
					break
				}
			}
		}
		if !d.once {
			want = 0
			for _, p := range d.updates {
				for _, q := range d.stay {
					if rel(q, p) {
						want++ // Update offers once per matching registered query
					}
				}
			}
		}
		if len(stay.calls) != want {
			viol("bystander-affected", "the client that stays subscribed to %v was invoked %d times for updates %v, expected %d", d.stay, len(stay.calls), d.updates, want)
		}
		out.Obs = fmt.Sprintf("leave=%d stay=%d late=%d", len(leave.calls), len(stay.calls), len(late.calls))
		out.Nontrivial = true
	})
	if res.Aborted != "" {
		viol(hutil.AbortClass(res.Aborted, res.Panic), "%s %s", res.Aborted, strings.Join(res.Parked, "; "))
	}
	return out, res
}

func main() { xplore.Main(harness{}) }
