// C09 — ctree is a prefix-free map with consistent wildcard query/delete.
// Explicit-state BFS over all sequences of mutators on the real ctree.Tree in
// lock-step with a map model; in every new state ALL observers are evaluated
// with ALL arguments of the alphabet.
package main

import (
	"errors"
	"fmt"
	"sort"
	"strings"

	"github.com/openconfig/gnmi/ctree"
	"github.com/openconfig/gnmi/zzverif/seqmc"
	"github.com/openconfig/gnmi/zzverif/vrt"
)

type opT struct {
	kind string // add, del, delc, walkdel, upd, walkstop, sortedstop, querystop; seq = two operations with no observer in between
	path []string
	val  string
	sub  []opT // seq
}

func (o opT) String() string {
	p := "[" + strings.Join(o.path, ",") + "]"
	switch o.kind {
	case "seq":
		return o.sub[0].String() + "; " + o.sub[1].String() + " (nothing observed in between)"
	case "add":
		return fmt.Sprintf("Add(%s,%s)", p, o.val)
	case "upd":
		return fmt.Sprintf("GetLeaf(%s).Update(%s)", p, o.val)
	case "del":
		return fmt.Sprintf("Delete(%s)", p)
	case "delc":
		return fmt.Sprintf("DeleteConditional(%s,==%s)", p, o.val)
	case "walkdel":
		return fmt.Sprintf("WalkDeleted(%s,==%s)", p, o.val)
	case "walkstop":
		return fmt.Sprintf("Walk(callback fails at leaf %s)", o.val)
	case "sortedstop":
		return fmt.Sprintf("WalkSorted(callback fails at leaf %s)", o.val)
	case "querystop":
		return fmt.Sprintf("Query(%s, callback fails at leaf %s)", p, o.val)
	}
	return "?"
}

func seqs(alpha []string, maxLen int) [][]string {
	out := [][]string{{}}
	prev := [][]string{{}}
	for l := 1; l <= maxLen; l++ {
		var cur [][]string
		for _, p := range prev {
			for _, a := range alpha {
				cur = append(cur, append(append([]string{}, p...), a))
			}
		}
		out = append(out, cur...)
		prev = cur
	}
	return out
}

// visits cut short by a failing callback (the read-only operations must
// leave nothing behind: the tree still behaves as a map afterwards)
var stopOps = []opT{
	{kind: "walkstop", val: "1"}, {kind: "walkstop", val: "2"},
	{kind: "sortedstop", val: "1"}, {kind: "sortedstop", val: "2"},
	{kind: "querystop", path: []string{"*"}, val: "1"}, {kind: "querystop", path: []string{"a"}, val: "2"},
}

type zeroChooser struct{}

func (zeroChooser) Choose(n int, costs []uint8, sig uint64) int { return 0 }

type alphabet struct {
	paths    [][]string
	patterns [][]string
	ops      []opT
	names    []string
}

func mkAlphabet(elems []string, pathLen, patLen int) *alphabet {
	a := &alphabet{paths: seqs(elems, pathLen), patterns: seqs(append(append([]string{}, elems...), "*"), patLen)}
	for _, p := range a.paths {
		for _, v := range []string{"v1", "v2"} {
			a.ops = append(a.ops, opT{kind: "add", path: p, val: v})
		}
	}
	for _, p := range a.paths {
		a.ops = append(a.ops, opT{kind: "upd", path: p, val: "v2"})
	}
	for _, q := range a.patterns {
		a.ops = append(a.ops, opT{kind: "del", path: q}, opT{kind: "delc", path: q, val: "v1"}, opT{kind: "walkdel", path: q, val: "v2"})
	}
	a.ops = append(a.ops, stopOps...)
	for _, o := range a.ops {
		a.names = append(a.names, o.String())
	}
	return a
}

// mkExplicit builds an alphabet from explicit leaf paths and patterns (deep
// sibling leaves: slice capacity growth makes depths 4 and 6 special).
func mkExplicit(paths, patterns []string) *alphabet {
	a := &alphabet{}
	sp := func(s string) []string {
		if s == "" {
			return []string{}
		}
		return strings.Split(s, "/")
	}
	for _, p := range paths {
		a.paths = append(a.paths, sp(p))
	}
	for _, q := range patterns {
		a.patterns = append(a.patterns, sp(q))
	}
	// every proper prefix of a leaf path is a node path worth observing
	seen := map[string]bool{}
	for _, p := range a.paths {
		seen[strings.Join(p, "/")] = true
	}
	for _, p := range append([][]string{}, a.paths...) {
		for i := 0; i < len(p); i++ {
			k := strings.Join(p[:i], "/")
			if !seen[k] {
				seen[k] = true
				a.paths = append(a.paths, append([]string{}, p[:i]...))
			}
		}
	}
	for _, p := range a.paths[:len(paths)] {
		for _, v := range []string{"v1", "v2"} {
			a.ops = append(a.ops, opT{kind: "add", path: p, val: v})
		}
		a.ops = append(a.ops, opT{kind: "upd", path: p, val: "v2"})
	}
	for _, q := range a.patterns {
		a.ops = append(a.ops, opT{kind: "del", path: q}, opT{kind: "delc", path: q, val: "v1"}, opT{kind: "walkdel", path: q, val: "v2"})
	}
	a.ops = append(a.ops, stopOps...)
	for _, o := range a.ops {
		a.names = append(a.names, o.String())
	}
	return a
}

const sep = "/"

func key(p []string) string { return strings.Join(p, sep) }

type sys struct {
	a *alphabet
	t *ctree.Tree
	m map[string]string // model: joined path -> value ("" key = root leaf); prefix-free
	// probeEvery: every observer is evaluated after EVERY operation of a history
	// (also while the prefix leading to a state is replayed), not only in the
	// state reached: what an observer leaves behind in the tree (a memo, a cached
	// ordering) is then in place when the next mutator and observer run
	probeEvery bool
}

func unkey(k string) []string {
	if k == "" {
		return []string{}
	}
	return strings.Split(k, sep)
}

func isPrefix(p, q []string) bool { // p proper-or-equal prefix of q
	if len(p) > len(q) {
		return false
	}
	for i := range p {
		if p[i] != q[i] {
			return false
		}
	}
	return true
}

// matches implements the query semantics of the statement: agreement on every
// common position with '*' wild; the pattern may end inside or at the leaf, or
// be exactly one trailing '*' longer (the implementation's Query and Delete
// agree on that corner and the statement does not fix it otherwise).
func matches(q, l []string) bool {
	n := len(q)
	if len(l) < n {
		n = len(l)
	}
	for i := 0; i < n; i++ {
		if q[i] != "*" && q[i] != l[i] {
			return false
		}
	}
	if len(q) <= len(l) {
		return true
	}
	return len(q) == len(l)+1 && q[len(q)-1] == "*"
}

func (s *sys) modelAdd(p []string, v string) bool {
	for k := range s.m {
		l := unkey(k)
		if len(l) < len(p) && isPrefix(l, p) {
			return false // crossing a leaf
		}
		if len(l) > len(p) && isPrefix(p, l) {
			return false // landing on a branch
		}
	}
	s.m[key(p)] = v
	return true
}

func (s *sys) modelDelete(q []string, cond func(string) bool) []string {
	var del []string
	for k, v := range s.m {
		if matches(q, unkey(k)) && cond(v) {
			del = append(del, k)
		}
	}
	for _, k := range del {
		delete(s.m, k)
	}
	sort.Strings(del)
	return del
}

func vio(class, format string, a ...interface{}) []seqmc.Violation {
	return []seqmc.Violation{{Class: class, Msg: fmt.Sprintf(format, a...)}}
}

func (s *sys) Apply(i int) []seqmc.Violation {
	o := s.a.ops[i]
	if o.kind == "seq" {
		for _, so := range o.sub {
			if v := s.applyOne(so); len(v) > 0 {
				return v
			}
		}
	} else if v := s.applyOne(o); len(v) > 0 {
		return v
	}
	if s.probeEvery {
		if v := s.CheckState(); len(v) > 0 {
			return v
		}
	}
	return nil
}

func (s *sys) applyOne(o opT) []seqmc.Violation {
	switch o.kind {
	case "add":
		before := s.t.String()
		err := s.t.Add(o.path, o.val)
		ok := s.modelAdd(o.path, o.val)
		if ok != (err == nil) {
			return vio("add-result", "%s: implementation error=%v, model accepts=%v", o, err, ok)
		}
		if err != nil && s.t.String() != before {
			return vio("failed-add-changed-tree", "%s failed but tree changed from %s to %s", o, before, s.t.String())
		}
	case "upd":
		// a handle is only taken where the model has a leaf (handles to
		// branches or to the empty root are outside the statement)
		if _, exists := s.m[key(o.path)]; exists {
			l := s.t.GetLeaf(o.path)
			if l == nil {
				return vio("getleaf", "%s: model has a leaf, GetLeaf returned nil", o)
			}
			l.Update(o.val)
			s.m[key(o.path)] = o.val
		}
	case "walkstop", "sortedstop", "querystop":
		failAt := 1
		if o.val == "2" {
			failAt = 2
		}
		stop := errors.New("stop")
		seen := map[string]bool{}
		n, bad := 0, ""
		f := func(p []string, _ *ctree.Leaf, v interface{}) error {
			n++
			k := key(p)
			if mv, ok := s.m[k]; !ok || mv != fmt.Sprint(v) || seen[k] {
				bad = fmt.Sprintf("visited %s=%v (stored: %v, already visited: %v)", k, v, ok, seen[k])
			}
			seen[k] = true
			if n == failAt {
				return stop
			}
			return nil
		}
		matching := 0
		for k := range s.m {
			if o.kind != "querystop" || matches(o.path, unkey(k)) {
				matching++
			}
		}
		var err error
		switch o.kind {
		case "walkstop":
			err = s.t.Walk(f)
		case "sortedstop":
			err = s.t.WalkSorted(f)
		default:
			err = s.t.Query(o.path, f)
		}
		want := matching
		if want > failAt {
			want = failAt
		}
		if bad != "" || n != want || (err != nil) != (matching >= failAt) {
			return vio("aborted-visit", "%s: %d callbacks (expected %d of %d matching leaves), error=%v %s", o, n, want, matching, err, bad)
		}
		// the tree must still accept writers everywhere: a conditional delete
		// that deletes nothing write-locks every node. It runs under the
		// controlled scheduler (package ctree is instrumented), where a lock
		// that can never be granted is reported instead of hanging.
		res := vrt.Run(zeroChooser{}, vrt.Options{}, func() {
			s.t.DeleteConditional([]string{}, func(interface{}) bool { return false })
			s.t.Add([]string{"zz-probe"}, "v")
		})
		if res.Aborted != "" {
			return vio("locks-left-behind", "after %s a writer can no longer lock the tree: %s %v", o, res.Aborted, res.Parked)
		}
		s.t.Delete([]string{"zz-probe"})
	case "del", "delc", "walkdel":
		cond := func(v string) bool { return true }
		if o.kind != "del" {
			cond = func(v string) bool { return v == o.val }
		}
		// what Query reports for the same path right now
		var q []string
		s.t.Query(o.path, func(p []string, _ *ctree.Leaf, v interface{}) error {
			if cond(v.(string)) {
				q = append(q, key(p))
			}
			return nil
		})
		sort.Strings(q)
		want := s.modelDelete(o.path, cond)
		var got []string
		switch o.kind {
		case "del":
			for _, p := range s.t.Delete(o.path) {
				got = append(got, key(p))
			}
		case "delc":
			for _, p := range s.t.DeleteConditional(o.path, func(v interface{}) bool { return v == interface{}(o.val) }) {
				got = append(got, key(p))
			}
		case "walkdel":
			n := 0
			bad := ""
			s.t.WalkDeleted(o.path, func(v interface{}) bool { return v == interface{}(o.val) }, func(v interface{}) {
				n++
				if v != interface{}(o.val) {
					bad = fmt.Sprintf("%#v", v)
				}
			})
			if bad != "" {
				return vio("walkdeleted-callback", "%s: callback invoked with %s", o, bad)
			}
			if n != len(want) {
				return vio("delete-vs-query", "%s: callback invoked %d times, query reports %v, model %v", o, n, q, want)
			}
			got = want
		}
		sort.Strings(got)
		if fmt.Sprintf("%q", q) != fmt.Sprintf("%q", want) {
			return vio("query-vs-model", "Query(%v) reports %v, model %v", o.path, q, want)
		}
		if fmt.Sprintf("%q", got) != fmt.Sprintf("%q", want) {
			return vio("delete-vs-query", "%s returned %q but a query for the same path reports %q", o, got, q)
		}
	}
	// cheap consistency after every step: the walk equals the model
	if d := s.walkDiff(); d != "" {
		return vio("walk-vs-model", "after %s: %s", o, d)
	}
	return nil
}

func (s *sys) modelString() string {
	ks := make([]string, 0, len(s.m))
	for k := range s.m {
		ks = append(ks, k)
	}
	sort.Strings(ks)
	var b strings.Builder
	for _, k := range ks {
		fmt.Fprintf(&b, "%s=%s;", k, s.m[k])
	}
	return b.String()
}

func (s *sys) walkDiff() string {
	got := map[string]string{}
	dup := ""
	s.t.Walk(func(p []string, l *ctree.Leaf, v interface{}) error {
		k := key(p)
		if _, ok := got[k]; ok {
			dup = k
		}
		got[k] = fmt.Sprint(v)
		return nil
	})
	if dup != "" {
		return "Walk visited " + dup + " twice"
	}
	if len(got) != len(s.m) {
		return fmt.Sprintf("Walk reports %v, model %v (tree %s)", got, s.m, s.t)
	}
	for k, v := range s.m {
		if got[k] != v {
			return fmt.Sprintf("Walk reports %v, model %v (tree %s)", got, s.m, s.t)
		}
	}
	return ""
}

func (s *sys) Key() string { return s.t.String() + "|" + s.modelString() }

// CheckState evaluates every observer with every argument of the alphabet.
func (s *sys) CheckState() []seqmc.Violation {
	// inner nodes of the model
	inner := map[string]bool{}
	for k := range s.m {
		l := unkey(k)
		for i := 0; i < len(l); i++ {
			inner[key(l[:i])] = true
		}
	}
	if len(s.m) == 0 {
		delete(inner, "")
	}
	for _, p := range s.a.paths {
		k := key(p)
		v, isLeaf := s.m[k]
		n := s.t.Get(p)
		switch {
		case isLeaf:
			if n == nil || n.IsBranch() || n.Value() != interface{}(v) {
				return vio("get", "Get(%v) = %v, model leaf %s", p, n, v)
			}
			if lv := s.t.GetLeafValue(p); lv != interface{}(v) {
				return vio("get", "GetLeafValue(%v) = %v, model %s", p, lv, v)
			}
			if l := s.t.GetLeaf(p); l == nil || l.Value() != interface{}(v) {
				return vio("get", "GetLeaf(%v).Value() wrong, model %s", p, v)
			}
			if n.Children() != nil {
				return vio("children", "Children of leaf %v not nil", p)
			}
		case inner[k]:
			if n == nil || !n.IsBranch() {
				return vio("get", "Get(%v) = %v, model says inner node", p, n)
			}
			if s.t.GetLeafValue(p) != nil {
				return vio("get", "GetLeafValue(%v) of a branch is not nil", p)
			}
			want := map[string]bool{}
			for kk := range s.m {
				l := unkey(kk)
				if len(l) > len(p) && isPrefix(p, l) {
					want[l[len(p)]] = true
				}
			}
			ch := n.Children()
			if len(ch) != len(want) {
				return vio("children", "Children(%v) = %v, model %v", p, ch, want)
			}
			for c := range want {
				if ch[c] == nil {
					return vio("children", "Children(%v) lacks %s", p, c)
				}
			}
		default:
			// absent: Get may return nil, or (root of an empty tree) an empty node
			if n != nil && !(len(p) == 0 && !n.IsBranch() && n.Value() == nil) {
				return vio("pruning", "Get(%v) = %s but the model has nothing there (an emptied branch was not pruned?)", p, n)
			}
			if s.t.GetLeafValue(p) != nil {
				return vio("get", "GetLeafValue(%v) of an absent path is not nil", p)
			}
		}
	}
	for _, q := range s.a.patterns {
		var want []string
		for k, v := range s.m {
			if matches(q, unkey(k)) {
				want = append(want, k+"="+v)
			}
		}
		sort.Strings(want)
		var got []string
		s.t.Query(q, func(p []string, l *ctree.Leaf, v interface{}) error {
			got = append(got, key(p)+"="+fmt.Sprint(v))
			return nil
		})
		sort.Strings(got)
		if fmt.Sprintf("%q", got) != fmt.Sprintf("%q", want) {
			return vio("query", "Query(%v) = %v, model %v (tree %s)", q, got, want, s.t)
		}
	}
	// WalkSorted: lexicographic by elements, each leaf once
	var ws [][]string
	s.t.WalkSorted(func(p []string, l *ctree.Leaf, v interface{}) error {
		ws = append(ws, append([]string{}, p...))
		if s.m[key(p)] != fmt.Sprint(v) {
			ws = append(ws, []string{"BADVALUE"})
		}
		return nil
	})
	if len(ws) != len(s.m) {
		return vio("walksorted", "WalkSorted visited %v, model %v", ws, s.m)
	}
	for i := 1; i < len(ws); i++ {
		if !lexLess(ws[i-1], ws[i]) {
			return vio("walksorted", "WalkSorted order %v not lexicographic", ws)
		}
	}
	return nil
}

func lexLess(a, b []string) bool {
	for i := 0; i < len(a) && i < len(b); i++ {
		if a[i] != b[i] {
			return a[i] < b[i]
		}
	}
	return len(a) < len(b)
}

func deepSpecOf() seqmc.Spec {
	deep := mkExplicit(
		[]string{"a/a/a/a", "a/a/a/b", "a/a/b", "b", "a/a/a/c/a/a", "a/a/a/c/a/b", "a/a/a/c/a/c", "a/a/a/c/b"},
		[]string{"", "a", "a/a", "a/a/a", "a/a/a/*", "a/*/*/*", "*", "a/a/a/c", "a/a/a/c/a", "a/a/a/c/*/*", "a/a/a/c/a/*", "b", "a/a/b", "a/a/a/a", "a/a/a/c/a/b", "*/*/*/*/*/*", "a/a/*/c", "a/a/a/c/*"})
	return seqmc.Spec{Name: "deep sibling leaves (depths 3,4,5,6) (closure)", Ops: deep.names, Depth: 20, New: func() seqmc.Sys {
		return &sys{a: deep, t: &ctree.Tree{}, m: map[string]string{}}
	}}
}

// literalGlobSpec: stored elements that are SPELLED like the wildcard. Add does
// not interpret its path, so "a/*/x" is a legal leaf path whose middle element
// is named "*"; in a query or delete pattern "*" stays a wildcard and matches
// that name like any other. A lookup that prefers the literal child over the
// expansion (or the reverse in Delete) makes Query and Delete disagree.
func literalGlobSpec() seqmc.Spec {
	lit := mkExplicit(
		[]string{"a/*/x", "a/b/x", "a/c/x", "a/c/y", "*"},
		[]string{"", "*", "a", "a/*", "a/*/x", "a/*/y", "*/*/x", "*/*", "a/b", "a/b/x", "a/c/*", "a/*/*", "*/*/*"})
	return seqmc.Spec{Name: "leaf paths with elements named '*' next to ordinary siblings (closure)", Ops: lit.names, Depth: 16, New: func() seqmc.Sys {
		return &sys{a: lit, t: &ctree.Tree{}, m: map[string]string{}}
	}}
}

// observersEverywhereSpec: a small tree in which all observers run after every
// single operation (see sys.probeEvery); sibling sets change while keeping
// their size (delete a/x, add a/z), are emptied and refilled.
func observersEverywhereSpec() seqmc.Spec {
	a := mkExplicit(
		[]string{"a/x", "a/y", "a/z", "b", "c"},
		[]string{"", "*", "a", "a/*", "a/x", "b", "*/x"})
	// pairs of a delete and an add with NO observer in between: the shape of the
	// tree changes while counts (children per node, leaves) may stay the same
	single := append([]opT{}, a.ops...)
	for _, d := range single {
		if d.kind != "del" {
			continue
		}
		for _, ad := range single {
			if ad.kind != "add" || ad.val != "v1" {
				continue
			}
			for _, pair := range [][]opT{{d, ad}, {ad, d}} {
				o := opT{kind: "seq", sub: pair}
				a.ops = append(a.ops, o)
				a.names = append(a.names, o.String())
			}
		}
	}
	return seqmc.Spec{Name: "every observer after every operation of the history (sibling sets that change but keep their size) (closure)", Ops: a.names, Depth: 16, New: func() seqmc.Sys {
		return &sys{a: a, t: &ctree.Tree{}, m: map[string]string{}, probeEvery: true}
	}}
}

// ---- values of non-comparable dynamic types (slices, maps, structs holding
// them): the tree stores interface{} values and must never compare them

type vsys struct {
	t *ctree.Tree
	m map[string]string // path -> printed value
}

var vPaths = [][]string{{"a"}, {"a", "b"}, {"c"}}

func vValues() []interface{} {
	type tv struct {
		Val []interface{}
	}
	return []interface{}{[]string{"x"}, []string{"y"}, []byte{1}, map[string]int{"k": 1}, tv{[]interface{}{1}}, "s"}
}

func vOps() []string {
	var names []string
	for _, p := range vPaths {
		for _, v := range vValues() {
			names = append(names, fmt.Sprintf("Add(%v, %T %v)", p, v, v))
		}
	}
	for _, p := range vPaths {
		for _, v := range vValues()[:3] {
			names = append(names, fmt.Sprintf("GetLeaf(%v).Update(%T %v)", p, v, v))
		}
	}
	return append(names, "Delete([a])", "Delete([*])")
}

func (s *vsys) Apply(i int) (out []seqmc.Violation) {
	defer func() {
		if r := recover(); r != nil {
			out = vio("panic-on-structured-value", "operation %s panicked: %v", vOps()[i], r)
		}
	}()
	vals := vValues()
	nAdd := len(vPaths) * len(vals)
	switch {
	case i < nAdd:
		p, v := vPaths[i/len(vals)], vals[i%len(vals)]
		ok := true
		for k := range s.m {
			l := unkey(k)
			if len(l) != len(p) && (isPrefix(l, p) || isPrefix(p, l)) {
				ok = false
			}
		}
		err := s.t.Add(p, v)
		if (err == nil) != ok {
			return vio("add-result", "Add(%v, %T): error=%v, model accepts=%v", p, v, err, ok)
		}
		if ok {
			s.m[key(p)] = fmt.Sprint(v)
		}
	case i < nAdd+len(vPaths)*3:
		j := i - nAdd
		p, v := vPaths[j/3], vals[j%3]
		if _, exists := s.m[key(p)]; exists {
			l := s.t.GetLeaf(p)
			if l == nil {
				return vio("getleaf", "GetLeaf(%v) returned nil for a stored leaf", p)
			}
			l.Update(v)
			s.m[key(p)] = fmt.Sprint(v)
		}
	default:
		q := []string{"a"}
		if i == nAdd+len(vPaths)*3+1 {
			q = []string{"*"}
		}
		for _, d := range s.t.Delete(q) {
			delete(s.m, key(d))
		}
	}
	got := map[string]string{}
	s.t.Walk(func(p []string, _ *ctree.Leaf, v interface{}) error { got[key(p)] = fmt.Sprint(v); return nil })
	if fmt.Sprint(got) != fmt.Sprint(s.m) {
		return vio("walk-vs-model", "after %s: Walk reports %v, model %v", vOps()[i], got, s.m)
	}
	for _, p := range vPaths {
		if v, ok := s.m[key(p)]; ok {
			if gv := s.t.GetLeafValue(p); fmt.Sprint(gv) != v {
				return vio("get", "GetLeafValue(%v) = %v, model %s", p, gv, v)
			}
		}
	}
	return nil
}

func (s *vsys) Key() string { return fmt.Sprint(s.m) }

func structuredSpec() seqmc.Spec {
	return seqmc.Spec{Name: "values of non-comparable types (slices, maps, structs holding slices) (closure)", Ops: vOps(), Depth: 12, New: func() seqmc.Sys {
		return &vsys{t: &ctree.Tree{}, m: map[string]string{}}
	}}
}

type harness struct{}

func (harness) Property() string { return "C09" }

func (harness) Specs(tier string) []seqmc.Spec {
	mk := func(name string, elems []string, pl, ql, depth int) seqmc.Spec {
		a := mkAlphabet(elems, pl, ql)
		return seqmc.Spec{Name: name, Ops: a.names, Depth: depth, New: func() seqmc.Sys {
			return &sys{a: a, t: &ctree.Tree{}, m: map[string]string{}}
		}}
	}
	ab := []string{"a", "b"}
	if tier == "thorough" {
		return []seqmc.Spec{
			deepSpecOf(),
			mk("{a,b} paths<=3 patterns<=4 (closure)", ab, 3, 4, 16),
			mk("{a,b,c} paths<=2 patterns<=3 (closure)", []string{"a", "b", "c"}, 2, 3, 16),
			mk("{a,a-,a.} paths<=2 patterns<=2 (closure)", []string{"a", "a-", "a."}, 2, 2, 16),
			literalGlobSpec(),
			observersEverywhereSpec(),
			structuredSpec(),
		}
	}
	deep := mkExplicit(
		[]string{"a/a/a/a", "a/a/a/b", "a/a/b", "b", "a/a/a/c/a/a", "a/a/a/c/a/b"},
		[]string{"", "a", "a/a", "a/a/a", "a/a/a/*", "a/*/*/*", "*", "a/a/a/c", "a/a/a/c/a", "a/a/a/c/*/*", "a/a/a/c/a/*", "b", "a/a/b", "a/a/a/a", "a/a/a/c/a/b", "*/*/*/*/*/*", "a/a/*/c"})
	deepSpec := seqmc.Spec{Name: "deep sibling leaves (depths 3,4,6) (closure)", Ops: deep.names, Depth: 16, New: func() seqmc.Sys {
		return &sys{a: deep, t: &ctree.Tree{}, m: map[string]string{}}
	}}
	// element names of which one is a proper prefix of the other, continued by a
	// character that sorts below the path separator ('-' < '/'): ordering by
	// elements differs from ordering by joined strings
	pre := mk("{a,a-} paths<=2 patterns<=2 (closure)", []string{"a", "a-"}, 2, 2, 16)
	return []seqmc.Spec{mk("{a,b} paths<=3 patterns<=3 (closure)", ab, 3, 3, 16), deepSpec, pre, literalGlobSpec(), observersEverywhereSpec(), structuredSpec()}
}

func main() { seqmc.Main(harness{}) }
