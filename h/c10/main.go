// C10 — ctree is safe and per-path atomic under concurrent use.
// Every schedule (bounded pre-emptions; every RLock/Lock is a scheduling
// point, RWMutex with Go's writer preference) of small thread programs on the
// real tree. Oracle: no deadlock / panic; the call/return history is
// linearizable against the C09 map model (with node identity for retained
// handles); queries and walks obey the interval rule of the statement; the
// final walk equals the model's final content. The same exploration runs in a
// -race build whose scheduler hand-offs are invisible to the detector.
package main

import (
	"fmt"
	"sort"
	"strings"

	"github.com/openconfig/gnmi/ctree"
	"github.com/openconfig/gnmi/zzverif/hutil"
	"github.com/openconfig/gnmi/zzverif/vrt"
	"github.com/openconfig/gnmi/zzverif/xplore"
)

// ---- program alphabet ----

type opSpec struct {
	kind string // add, del, get, query, walk, hupd, hval
	path []string
	val  string
}

func (o opSpec) String() string {
	p := strings.Join(o.path, "/")
	switch o.kind {
	case "add":
		return fmt.Sprintf("Add(%s,%s)", p, o.val)
	case "adds":
		return fmt.Sprintf("Add(%s,[]string{%s})", p, o.val)
	case "del":
		return fmt.Sprintf("Del(%s)", p)
	case "delcond":
		return fmt.Sprintf("DeleteConditional(%s, value==%s)", p, o.val)
	case "walkdel":
		return fmt.Sprintf("WalkDeleted(%s, value==%s)", p, o.val)
	case "get":
		return fmt.Sprintf("Get(%s)", p)
	case "query":
		return fmt.Sprintf("Query(%s)", p)
	case "walk":
		return "Walk"
	case "walksorted":
		return "WalkSorted"
	case "walkstop":
		return "Walk(stop at first leaf)"
	case "hupd":
		return fmt.Sprintf("h.Update(%s)", o.val)
	case "hval":
		return "h.Value"
	case "rootval":
		return "GetLeafValue(<root>)"
	}
	return "?"
}

var (
	ab  = []string{"a", "b"}
	ac  = []string{"a", "c"}
	abc = []string{"a", "b", "c"}
)

// addDeep is refused while a/b is a leaf (error path) and turns a/b into a branch otherwise.
var addDeep = opSpec{"add", abc, "v1"}

// walkSorted is WalkSorted from the root (what CacheClient.Leaves and the CLI display call).
var walkSorted = opSpec{"walksorted", nil, ""}

// extras join the alphabet as single-operation programs and in two-operation
// programs next to every writing operation (thorough: next to every operation).
// addTop adds below a first element that no initial tree has: the root itself
// is the node whose lock is exchanged (no ancestor stays read-locked meanwhile).
var addTop = opSpec{"add", []string{"d", "e"}, "v1"}

// walkStop is a Walk whose callback fails at the first leaf (the documented way
// to stop a walk early): whatever the walk holds must be released on that path too.
var walkStop = opSpec{"walkstop", nil, ""}

// addRoot stores a value at the empty path: the root of an empty tree is the
// one node that exists without holding a value, so a terminal Add there can
// meet an Add that passes through it.
var addRoot = opSpec{"add", []string{}, "v1"}

// rootVal looks up the value at the empty path: the root of an empty tree holds
// nothing and turns into a branch IN PLACE when the first leaf is added below
// it, so the lookup's view of "is it a branch" and "what does it hold" must be
// one atomic look (the answer is the value stored at the root, else nil - never
// anything else, such as the node's child map).
var rootVal = opSpec{"rootval", nil, ""}

var extras = []opSpec{addDeep, walkSorted, addTop, walkStop, addRoot, rootVal}

var alphaQuick = []opSpec{
	{"add", ab, "v1"}, {"add", ac, "v1"}, {"add", ab, "v2"},
	{"del", []string{"a"}, ""}, {"del", []string{"*"}, ""},
	{"query", []string{"a", "*"}, ""}, {"get", ab, ""}, {"hupd", nil, "v3"},
}

var alphaFull = append(append([]opSpec{}, alphaQuick...),
	opSpec{"del", ab, ""}, opSpec{"query", []string{"*"}, ""}, opSpec{"walk", nil, ""}, opSpec{"hval", nil, ""})

type cfgData struct {
	init  []string // initial leaves (joined paths), value v0
	progs [][]opSpec
}

func readOnly(p []opSpec) bool {
	for _, o := range p {
		switch o.kind {
		case "add", "adds", "del", "hupd", "delcond", "walkdel":
			return false
		}
	}
	return true
}

func usesHandle(ps [][]opSpec) bool {
	for _, p := range ps {
		for _, o := range p {
			if o.kind == "hupd" || o.kind == "hval" {
				return true
			}
		}
	}
	return false
}

func progName(p []opSpec) string {
	var s []string
	for _, o := range p {
		s = append(s, o.String())
	}
	return strings.Join(s, ";")
}

func programs(alpha []opSpec, maxLen int) [][]opSpec {
	var out [][]opSpec
	for _, a := range alpha {
		out = append(out, []opSpec{a})
	}
	if maxLen >= 2 {
		for _, a := range alpha {
			for _, b := range alpha {
				out = append(out, []opSpec{a, b})
			}
		}
	}
	return out
}

type harness struct{}

func (harness) Property() string { return "C10" }

func (harness) Configs(tier string) []xplore.Config {
	var out []xplore.Config
	add := func(init []string, progs [][]opSpec, bound int) {
		ro := true
		for _, p := range progs {
			if !readOnly(p) {
				ro = false
			}
		}
		if ro {
			return
		}
		if usesHandle(progs) && len(init) == 0 {
			return // handles are taken from the initial tree
		}
		var names []string
		for _, p := range progs {
			names = append(names, progName(p))
		}
		out = append(out, xplore.Config{Name: fmt.Sprintf("init={%s} %s", strings.Join(init, ","), strings.Join(names, " || ")), Bound: bound, Data: cfgData{init: init, progs: progs}})
	}
	inits := [][]string{{}, {"a/b"}, {"a/b", "c"}}
	alpha := alphaFull
	// 2 threads x (1..2 ops), 3 threads x 1 op: pre-emption bound 3
	ps := programs(alpha, 2)
	for _, x := range extras {
		ps = append(ps, []opSpec{x})
		for _, o := range alpha {
			if tier == "thorough" || !readOnly([]opSpec{o}) {
				ps = append(ps, []opSpec{x, o}, []opSpec{o, x})
			}
		}
		if tier == "thorough" {
			ps = append(ps, []opSpec{x, x})
		}
	}
	isExtra := func(p []opSpec) bool {
		for _, o := range p {
			for _, x := range extras {
				if o.kind == x.kind && strings.Join(o.path, "/") == strings.Join(x.path, "/") {
					return true
				}
			}
		}
		return false
	}
	for _, in := range inits {
		for i := 0; i < len(ps); i++ {
			for j := i; j < len(ps); j++ {
				// quick tier: a two-operation program containing one of the extra
				// operations meets one-operation programs only
				if tier != "thorough" && len(ps[i]) == 2 && len(ps[j]) == 2 && (isExtra(ps[i]) || isExtra(ps[j])) {
					continue
				}
				add(in, [][]opSpec{ps[i], ps[j]}, 3)
			}
		}
	}
	p1 := programs(alpha, 1)
	for _, x := range extras {
		p1 = append(p1, []opSpec{x})
	}
	for _, in := range inits {
		for i := 0; i < len(p1); i++ {
			for j := i; j < len(p1); j++ {
				for k := j; k < len(p1); k++ {
					add(in, [][]opSpec{p1[i], p1[j], p1[k]}, 3)
				}
			}
		}
	}
	if tier == "thorough" {
		// 3 threads: one 2-op program over the write-heavy alphabet plus two 1-op programs, bound 3
		pw := programs(alphaQuick, 2)
		pq := programs(alphaQuick, 1)
		for _, in := range inits[:2] {
			for i := len(pq); i < len(pw); i++ {
				for j := 0; j < len(pq); j++ {
					for k := j; k < len(pq); k++ {
						add(in, [][]opSpec{pw[i], pq[j], pq[k]}, 3)
					}
				}
			}
		}
		// 4 threads x 1 op, bound 2
		for _, in := range inits[:2] {
			for i := 0; i < len(pq); i++ {
				for j := i; j < len(pq); j++ {
					for k := j; k < len(pq); k++ {
						for l := k; l < len(pq); l++ {
							add(in, [][]opSpec{pq[i], pq[j], pq[k], pq[l]}, 2)
						}
					}
				}
			}
		}
	}
	// deep trees with sibling leaves at every depth from 2 to 8 (slices grown by
	// append reach their capacity at 1, 2, 4, 8 elements): walks, sorted walks and
	// queries that keep the paths they are handed, next to an add and a delete
	for depth := 2; depth <= 8; depth++ {
		var pre []string
		for i := 1; i < depth; i++ {
			pre = append(pre, fmt.Sprintf("e%d", i))
		}
		base := strings.Join(pre, "/")
		init := []string{base + "/x", base + "/y", base + "/z"}
		q := append(append([]string{}, pre...), "*")
		for _, rd := range []opSpec{{"walk", nil, ""}, walkSorted, {"query", q, ""}, {"query", []string{"*"}, ""}} {
			add(init, [][]opSpec{{rd}, {{"add", append(append([]string{}, pre...), "w"), "v1"}}}, 2)
			add(init, [][]opSpec{{rd}, {{"del", append(append([]string{}, pre...), "y"), ""}}}, 2)
		}
	}
	// values of a type that cannot be compared with == (a slice, as leaf-lists
	// and notifications with repeated fields are): stored, overwritten by the
	// same kind and by a string, read back, deleted
	{
		s1, s2 := opSpec{"adds", ab, "v1"}, opSpec{"adds", ab, "v2"}
		for _, in := range [][]string{{}, {"a/b"}} {
			add(in, [][]opSpec{{s1, s2}, {{"get", ab, ""}}}, 3)
			add(in, [][]opSpec{{s1, s1}, {{"del", []string{"a"}, ""}}}, 3)
			add(in, [][]opSpec{{s1, {"add", ab, "v1"}}, {s2, {"query", []string{"a", "*"}, ""}}}, 3)
			add(in, [][]opSpec{{s1}, {s1}, {s2}}, 3)
		}
	}
	// conditional deletes (what the cache's timestamped delete is built on):
	// DeleteConditional / WalkDeleted over two leaves of which one satisfies the
	// condition, against a goroutine that - in program order - makes the other
	// leaf satisfy it and then the first one stop satisfying it (both visiting
	// orders), and against queries, adds and plain deletes. Some leaf satisfies
	// the condition at every instant: an atomic delete removes (and returns) one.
	for _, k := range []string{"delcond", "walkdel"} {
		for _, dp := range [][]string{{"a"}, {"*"}, {"a", "*"}} {
			cd := opSpec{k, dp, "v1"}
			add([]string{"a/b", "a/c=v1"}, [][]opSpec{{cd}, {{"add", ab, "v1"}, {"add", ac, "v2"}}}, 3)
			add([]string{"a/b=v1", "a/c"}, [][]opSpec{{cd}, {{"add", ac, "v1"}, {"add", ab, "v2"}}}, 3)
			add([]string{"a/b", "a/c=v1"}, [][]opSpec{{cd}, {{"add", ab, "v1"}}, {{"add", ac, "v2"}}}, 3)
			add([]string{"a/b", "a/c=v1"}, [][]opSpec{{cd}, {{"query", []string{"a", "*"}, ""}}, {{"add", ab, "v1"}}}, 3)
			add([]string{"a/b", "a/c=v1"}, [][]opSpec{{cd, {"get", ac, ""}}, {{"add", ac, "v1"}, {"del", ab, ""}}}, 3)
			add([]string{"a/b=v1", "a/c=v1"}, [][]opSpec{{cd}, {cd}, {{"add", ab, "v1"}}}, 3)
		}
	}
	return out
}

func initKV(e string) (string, string) {
	if i := strings.Index(e, "="); i >= 0 {
		return e[:i], e[i+1:]
	}
	return e, "v0"
}

// ---- model ----

type qacc struct {
	inter map[string]bool            // present in every state since the query started
	union map[string]map[string]bool // path -> values seen since the query started
}

type mst struct {
	tree    map[string]int // joined path -> node id
	val     map[int]string
	next    int
	handles map[int]int   // handle slot -> node id (-1 = nil)
	q       map[int]*qacc // active queries
}

func (m *mst) Key() string {
	var b strings.Builder
	ks := make([]string, 0, len(m.tree))
	for k := range m.tree {
		ks = append(ks, k)
	}
	sort.Strings(ks)
	for _, k := range ks {
		fmt.Fprintf(&b, "%s=%d;", k, m.tree[k])
	}
	b.WriteByte('|')
	ids := make([]int, 0, len(m.val))
	for k := range m.val {
		ids = append(ids, k)
	}
	sort.Ints(ids)
	for _, k := range ids {
		fmt.Fprintf(&b, "%d=%s;", k, m.val[k])
	}
	b.WriteByte('|')
	hs := make([]int, 0, len(m.handles))
	for k := range m.handles {
		hs = append(hs, k)
	}
	sort.Ints(hs)
	for _, k := range hs {
		fmt.Fprintf(&b, "%d>%d;", k, m.handles[k])
	}
	b.WriteByte('|')
	qs := make([]int, 0, len(m.q))
	for k := range m.q {
		qs = append(qs, k)
	}
	sort.Ints(qs)
	for _, k := range qs {
		a := m.q[k]
		var in []string
		for p := range a.inter {
			in = append(in, p)
		}
		sort.Strings(in)
		var un []string
		for p, vs := range a.union {
			var v []string
			for x := range vs {
				v = append(v, x)
			}
			sort.Strings(v)
			un = append(un, p+":"+strings.Join(v, ","))
		}
		sort.Strings(un)
		fmt.Fprintf(&b, "q%d[%s][%s]", k, strings.Join(in, ","), strings.Join(un, ";"))
	}
	return b.String()
}

func (m *mst) clone() *mst {
	n := &mst{tree: map[string]int{}, val: map[int]string{}, next: m.next, handles: map[int]int{}, q: map[int]*qacc{}}
	for k, v := range m.tree {
		n.tree[k] = v
	}
	for k, v := range m.val {
		n.val[k] = v
	}
	for k, v := range m.handles {
		n.handles[k] = v
	}
	for k, a := range m.q {
		na := &qacc{inter: map[string]bool{}, union: map[string]map[string]bool{}}
		for p := range a.inter {
			na.inter[p] = true
		}
		for p, vs := range a.union {
			na.union[p] = map[string]bool{}
			for v := range vs {
				na.union[p][v] = true
			}
		}
		n.q[k] = na
	}
	return n
}

// observe folds the current tree into every active query accumulator.
func (m *mst) observe() {
	for _, a := range m.q {
		for p := range a.inter {
			if _, ok := m.tree[p]; !ok {
				delete(a.inter, p)
			}
		}
		for p, id := range m.tree {
			if a.union[p] == nil {
				a.union[p] = map[string]bool{}
			}
			a.union[p][m.val[id]] = true
		}
	}
}

func split(k string) []string {
	if k == "" {
		return nil
	}
	return strings.Split(k, "/")
}

func matches(q, l []string) bool {
	n := len(q)
	if len(l) < n {
		n = len(l)
	}
	for i := 0; i < n; i++ {
		if q[i] != "*" && q[i] != l[i] {
			return false
		}
	}
	if len(q) <= len(l) {
		return true
	}
	return len(q) == len(l)+1 && q[len(q)-1] == "*"
}

func isPrefix(p, q []string) bool {
	if len(p) > len(q) {
		return false
	}
	for i := range p {
		if p[i] != q[i] {
			return false
		}
	}
	return true
}

// ---- recorded operations ----

type rec struct {
	spec     opSpec
	inv, ret int64
	mid      int64 // get: between fetching the node and reading its value
	thread   int
	err      bool              // add failed
	deleted  []string          // del: returned paths
	found    bool              // get: node non-nil
	slot     int               // get: handle slot
	val      string            // hval / get value
	reported map[string]string // query / walk: path -> value
	dup      bool              // query reported a path twice
	unsorted bool              // WalkSorted visited paths out of lexicographic order
	kept     [][]string        // query / walk: the path slices handed to the visitor, retained
	keptAs   []string          // what each of them spelled when it was handed over
	qid      int
}

func lops(rs []rec) []hutil.LOp {
	var out []hutil.LOp
	for i := range rs {
		r := rs[i]
		if r.spec.kind == "adds" {
			r.spec = opSpec{"add", r.spec.path, fmt.Sprint([]string{r.spec.val})}
		}
		switch r.spec.kind {
		case "add":
			out = append(out, hutil.LOp{Inv: r.inv, Ret: r.ret, Thread: r.thread, Name: fmt.Sprintf("%s=err:%v", r.spec, r.err), Step: func(s hutil.State) []hutil.State {
				m := s.(*mst)
				k := strings.Join(r.spec.path, "/")
				ok := true
				for lk := range m.tree {
					l := split(lk)
					if len(l) < len(r.spec.path) && isPrefix(l, r.spec.path) || len(l) > len(r.spec.path) && isPrefix(r.spec.path, l) {
						ok = false
					}
				}
				if ok == r.err {
					return nil
				}
				if !ok {
					return []hutil.State{m}
				}
				n := m.clone()
				if id, ex := n.tree[k]; ex {
					n.val[id] = r.spec.val
				} else {
					n.next++
					n.tree[k] = n.next
					n.val[n.next] = r.spec.val
				}
				n.observe()
				return []hutil.State{n}
			}})
		case "del":
			out = append(out, hutil.LOp{Inv: r.inv, Ret: r.ret, Thread: r.thread, Name: fmt.Sprintf("%s=%v", r.spec, r.deleted), Step: func(s hutil.State) []hutil.State {
				m := s.(*mst)
				var want []string
				for lk := range m.tree {
					if matches(r.spec.path, split(lk)) {
						want = append(want, lk)
					}
				}
				sort.Strings(want)
				if fmt.Sprintf("%q", want) != fmt.Sprintf("%q", r.deleted) {
					return nil
				}
				n := m.clone()
				for _, k := range want {
					delete(n.tree, k)
				}
				n.observe()
				return []hutil.State{n}
			}})
		case "delcond", "walkdel":
			out = append(out, hutil.LOp{Inv: r.inv, Ret: r.ret, Thread: r.thread, Name: fmt.Sprintf("%s=%v", r.spec, r.deleted), Step: func(s hutil.State) []hutil.State {
				m := s.(*mst)
				var want, keys []string
				for lk, id := range m.tree {
					if matches(r.spec.path, split(lk)) && m.val[id] == r.spec.val {
						keys = append(keys, lk)
						if r.spec.kind == "walkdel" {
							want = append(want, m.val[id]) // WalkDeleted hands the removed VALUES to its callback
						} else {
							want = append(want, lk)
						}
					}
				}
				sort.Strings(want)
				if fmt.Sprintf("%q", want) != fmt.Sprintf("%q", r.deleted) {
					return nil
				}
				n := m.clone()
				for _, k := range keys {
					delete(n.tree, k)
				}
				n.observe()
				return []hutil.State{n}
			}})
		case "get":
			// two atomic steps in program order: fetch the node, read its value
			out = append(out, hutil.LOp{Inv: r.inv, Ret: r.mid, Thread: r.thread, Name: fmt.Sprintf("%s=found:%v", r.spec, r.found), Step: func(s hutil.State) []hutil.State {
				m := s.(*mst)
				id, ex := m.tree[strings.Join(r.spec.path, "/")]
				br := false // the path names a branch: some leaf lies strictly beneath it
				for lk := range m.tree {
					if l := split(lk); len(l) > len(r.spec.path) && isPrefix(r.spec.path, l) {
						br = true
					}
				}
				if (ex || br) != r.found {
					return nil
				}
				n := m.clone()
				switch {
				case ex:
					n.handles[r.slot] = id
				case br:
					n.handles[r.slot] = -2
				default:
					n.handles[r.slot] = -1
				}
				return []hutil.State{n}
			}})
			if r.found {
				out = append(out, hutil.LOp{Inv: r.mid + 1, Ret: r.ret, Thread: r.thread, Name: fmt.Sprintf("node.Value=%s", r.val), Step: func(s hutil.State) []hutil.State {
					m := s.(*mst)
					want := m.val[m.handles[r.slot]]
					if m.handles[r.slot] == -2 {
						want = "<nil>" // a branch has no value, and never turns into a leaf
					}
					if want != r.val {
						return nil
					}
					return []hutil.State{m}
				}})
			}
		case "rootval":
			out = append(out, hutil.LOp{Inv: r.inv, Ret: r.ret, Thread: r.thread, Name: fmt.Sprintf("GetLeafValue(<root>)=%s", r.val), Step: func(s hutil.State) []hutil.State {
				m := s.(*mst)
				want := "<nil>"
				if id, ok := m.tree[""]; ok {
					want = m.val[id]
				}
				if want != r.val {
					return nil
				}
				return []hutil.State{m}
			}})
		case "hupd":
			out = append(out, hutil.LOp{Inv: r.inv, Ret: r.ret, Thread: r.thread, Name: r.spec.String(), Step: func(s hutil.State) []hutil.State {
				n := s.(*mst).clone()
				n.val[n.handles[0]] = r.spec.val
				n.observe()
				return []hutil.State{n}
			}})
		case "hval":
			out = append(out, hutil.LOp{Inv: r.inv, Ret: r.ret, Thread: r.thread, Name: fmt.Sprintf("h.Value=%s", r.val), Step: func(s hutil.State) []hutil.State {
				m := s.(*mst)
				if m.val[m.handles[0]] != r.val {
					return nil
				}
				return []hutil.State{m}
			}})
		case "walkstop":
			// reports at most one leaf; whether it was stored is covered by the
			// interval rule of the full walks, here only termination matters
		case "query", "walk", "walksorted":
			out = append(out, hutil.LOp{Inv: r.inv, Ret: r.inv, Thread: r.thread, Name: fmt.Sprintf("%s:start", r.spec), Step: func(s hutil.State) []hutil.State {
				n := s.(*mst).clone()
				a := &qacc{inter: map[string]bool{}, union: map[string]map[string]bool{}}
				for p := range n.tree {
					a.inter[p] = true
				}
				n.q[r.qid] = a
				n.observe()
				return []hutil.State{n}
			}})
			out = append(out, hutil.LOp{Inv: r.ret, Ret: r.ret, Thread: r.thread, Name: fmt.Sprintf("%s:end=%v", r.spec, r.reported), Step: func(s hutil.State) []hutil.State {
				m := s.(*mst)
				a := m.q[r.qid]
				pat := r.spec.path
				for p := range a.inter {
					if matches(pat, split(p)) {
						if _, ok := r.reported[p]; !ok {
							return nil // present for the whole duration but not reported
						}
					}
				}
				for p, v := range r.reported {
					if !matches(pat, split(p)) {
						return nil
					}
					if a.union[p] == nil || !a.union[p][v] {
						return nil // absent (or never held that value) for the whole duration
					}
				}
				n := m.clone()
				delete(n.q, r.qid)
				return []hutil.State{n}
			}})
		}
	}
	return out
}

func (harness) Run(cfg xplore.Config, ch vrt.Chooser, trace bool) (xplore.Outcome, *vrt.Result) {
	d := cfg.Data.(cfgData)
	var out xplore.Outcome
	res := vrt.Run(ch, vrt.Options{Trace: trace, FreeSwitch: true}, func() {
		t := &ctree.Tree{}
		init := &mst{tree: map[string]int{}, val: map[int]string{}, handles: map[int]int{}, q: map[int]*qacc{}}
		for _, e := range d.init {
			p, v := initKV(e)
			if err := t.Add(split(p), v); err != nil {
				panic(err)
			}
			init.next++
			init.tree[p] = init.next
			init.val[init.next] = v
		}
		var h *ctree.Leaf
		if len(d.init) > 0 {
			p0, _ := initKV(d.init[0])
			h = t.GetLeaf(split(p0))
			init.handles[0] = init.tree[p0]
		}
		logs := make([][]rec, len(d.progs))
		for ti, prog := range d.progs {
			ti, prog := ti, prog
			vrt.GoNamed(fmt.Sprintf("t%d", ti), func() {
				for oi, o := range prog {
					r := rec{spec: o, thread: ti, slot: 1 + ti*4 + oi, qid: ti*4 + oi}
					r.inv = vrt.Stamp()
					switch o.kind {
					case "add":
						r.err = t.Add(o.path, o.val) != nil
					case "adds":
						r.err = t.Add(o.path, []string{o.val}) != nil
					case "del":
						for _, p := range t.Delete(o.path) {
							r.deleted = append(r.deleted, strings.Join(p, "/"))
						}
						sort.Strings(r.deleted)
					case "delcond":
						want := o.val
						for _, p := range t.DeleteConditional(o.path, func(v interface{}) bool { return fmt.Sprint(v) == want }) {
							r.deleted = append(r.deleted, strings.Join(p, "/"))
						}
						sort.Strings(r.deleted)
					case "walkdel":
						want := o.val
						t.WalkDeleted(o.path, func(v interface{}) bool { return fmt.Sprint(v) == want }, func(v interface{}) { r.deleted = append(r.deleted, fmt.Sprint(v)) })
						sort.Strings(r.deleted)
					case "get":
						n := t.Get(o.path)
						r.mid = vrt.Stamp()
						vrt.Stamp()
						r.found = n != nil
						if n != nil {
							r.val = fmt.Sprint(n.Value())
						}
					case "hupd":
						h.Update(o.val)
					case "rootval":
						r.val = fmt.Sprint(t.GetLeafValue([]string{}))
					case "hval":
						r.val = fmt.Sprint(h.Value())
					case "walkstop":
						stop := fmt.Errorf("stop")
						t.Walk(func([]string, *ctree.Leaf, interface{}) error { return stop })
					case "query", "walk", "walksorted":
						r.reported = map[string]string{}
						f := func(p []string, _ *ctree.Leaf, v interface{}) error {
							k := strings.Join(p, "/")
							if _, ok := r.reported[k]; ok {
								r.dup = true
							}
							r.reported[k] = fmt.Sprint(v)
							// a Walk / WalkSorted visitor keeps the path it was handed
							// (CacheClient.Leaves does; the walks copy the path per child
							// for that reason). Query hands out slices that share their
							// backing array between siblings - no caller in the repository
							// keeps those and the property does not speak of it: not judged.
							if o.kind != "query" {
								r.kept = append(r.kept, p)
								r.keptAs = append(r.keptAs, k)
							}
							return nil
						}
						switch o.kind {
						case "walk":
							t.Walk(f)
						case "walksorted":
							last := ""
							t.WalkSorted(func(p []string, l *ctree.Leaf, v interface{}) error {
								if k := strings.Join(p, "/"); k < last {
									r.unsorted = true
								} else {
									last = k
								}
								return f(p, l, v)
							})
						default:
							t.Query(o.path, f)
						}
					}
					r.ret = vrt.Stamp()
					logs[ti] = append(logs[ti], r)
				}
			})
		}
		vrt.Idle()
		vrt.Join()
		if !vrt.AllDone() {
			out.Violations = append(out.Violations, xplore.Violation{Class: "deadlock", Msg: fmt.Sprintf("threads never finished: %v", vrt.ParkedInfo())})
			return
		}
		var all []rec
		for _, l := range logs {
			all = append(all, l...)
		}
		// final content, observed by main after everything finished
		fin := rec{spec: opSpec{kind: "walk"}, thread: len(d.progs), qid: 99, reported: map[string]string{}}
		fin.inv = vrt.Stamp()
		t.Walk(func(p []string, _ *ctree.Leaf, v interface{}) error {
			fin.reported[strings.Join(p, "/")] = fmt.Sprint(v)
			return nil
		})
		fin.ret = vrt.Stamp()
		all = append(all, fin)
		for _, r := range all {
			if r.dup {
				out.Violations = append(out.Violations, xplore.Violation{Class: "query-duplicate", Msg: fmt.Sprintf("%s reported a leaf twice", r.spec)})
			}
			if r.unsorted {
				out.Violations = append(out.Violations, xplore.Violation{Class: "walksorted-order", Msg: "WalkSorted visited leaves out of lexicographic order"})
			}
			for i, p := range r.kept {
				if now := strings.Join(p, "/"); now != r.keptAs[i] {
					out.Violations = append(out.Violations, xplore.Violation{Class: "visitor-path-overwritten", Msg: fmt.Sprintf("%s handed its visitor the path %q; kept until the operation returned, the same slice spells %q (paths handed to a visitor belong to it)", r.spec, r.keptAs[i], now)})
					break
				}
			}
		}
		ops := lops(all)
		if !hutil.Linearize(ops, init) {
			out.Violations = append(out.Violations, xplore.Violation{Class: "not-linearizable", Msg: "no linearization of the history is a behaviour of the prefix-free map model (interval rule for queries)\nhistory: " + hutil.RenderOps(ops)})
		}
		var ob []string
		for _, r := range all {
			ob = append(ob, fmt.Sprintf("%v%v%v%s%v", r.err, r.deleted, r.found, r.val, r.reported))
		}
		out.Obs = strings.Join(ob, "|")
		out.Nontrivial = true
	})
	if res.Aborted != "" {
		out.Violations = append(out.Violations, xplore.Violation{Class: hutil.AbortClass(res.Aborted, res.Panic), Msg: res.Aborted + " " + strings.Join(res.Parked, "; ")})
	}
	return out, res
}

func main() { xplore.Main(harness{}) }
