// C11 — coalescing queue: first-insertion order, exact duplicate counts, no
// loss at close, no lost wake-up. Concurrent part: every schedule (bounded
// pre-emptions) of P producers, one consumer, optional closer / canceller on
// the real coalesce.Queue; the recorded call/return history must be
// linearizable against the sequential queue model (inserts that overlap Close
// may be dropped, which is all the statement allows), and a parked consumer
// with something to do is a lost wake-up.
package main

import (
	"fmt"
	"sort"
	"strings"

	"github.com/openconfig/gnmi/coalesce"
	"github.com/openconfig/gnmi/zzverif/vcontext"
	"github.com/openconfig/gnmi/zzverif/vrt"
	"github.com/openconfig/gnmi/zzverif/xplore"
)

type cfgData struct {
	prods     [][]string
	closer    bool
	closers2  bool // a second goroutine calls Close at the same time
	canceller bool
	// unlock: a scheduling point after every Unlock in this configuration
	// (the window between "checked under the lock" and "started waiting")
	unlock bool
}

type op struct {
	kind     string // ins, next, close
	item     string
	inv, ret int64
	ok       bool   // ins: returned true
	err      string // "", closed, ctx
	dups     uint32
	thread   int
}

type harness struct{}

func (harness) Property() string { return "C11" }

func scripts(maxLen int) [][]string {
	var out [][]string
	var rec func(cur []string)
	rec = func(cur []string) {
		if len(cur) > 0 {
			out = append(out, append([]string{}, cur...))
		}
		if len(cur) == maxLen {
			return
		}
		for _, it := range []string{"x", "y"} {
			rec(append(cur, it))
		}
	}
	rec(nil)
	return out
}

func (harness) Configs(tier string) []xplore.Config {
	var out []xplore.Config
	sc := scripts(2)
	maxP, bound := 2, 2
	if tier == "thorough" {
		maxP, bound = 3, 3
	}
	var multis func(p, from int, cur [][]string)
	multis = func(p, from int, cur [][]string) {
		if len(cur) == p {
			for _, cl := range []bool{false, true} {
				for _, ca := range []bool{false, true} {
					d := cfgData{prods: append([][]string{}, cur...), closer: cl, canceller: ca, unlock: p == 1}
					var names []string
					for _, s := range d.prods {
						names = append(names, strings.Join(s, ""))
					}
					b := bound
					if p == 3 && bound > 2 {
						b = 2
					}
					out = append(out, xplore.Config{Name: fmt.Sprintf("P=%s close=%v cancel=%v", strings.Join(names, "|"), cl, ca), Bound: b, Data: d})
				}
			}
			return
		}
		for i := from; i < len(sc); i++ {
			multis(p, i, append(cur, sc[i]))
		}
	}
	for p := 1; p <= maxP; p++ {
		multis(p, 0, nil)
	}
	// two goroutines closing at once (the server does: the ONCE goroutine and
	// the deferred Close of the RPC) while producers insert
	for _, prods := range [][][]string{{{"x"}}, {{"x", "y"}}, {{"x"}, {"y"}}, {{"x", "x"}, {"y"}}} {
		var names []string
		for _, s := range prods {
			names = append(names, strings.Join(s, ""))
		}
		out = append(out, xplore.Config{Name: fmt.Sprintf("P=%s close=true x2 (two closers) cancel=false", strings.Join(names, "|")), Bound: bound, Data: cfgData{prods: prods, closer: true, closers2: true, unlock: true}})
	}
	// more distinct pending items than fit one hash-map bucket (8), then an
	// item re-inserted after it was delivered while others are still pending
	var many []string
	for i := 0; i < 10; i++ {
		many = append(many, fmt.Sprintf("i%d", i))
	}
	for _, again := range []string{"i0", "i1"} {
		for _, cl := range []bool{false, true} {
			sc := append(append([]string{}, many...), again)
			out = append(out, xplore.Config{Name: fmt.Sprintf("P=i0..i9,%s close=%v cancel=false (10 distinct pending items)", again, cl), Bound: bound, Data: cfgData{prods: [][]string{sc}, closer: cl}})
		}
	}
	return out
}

func errName(err error) string {
	switch {
	case err == nil:
		return ""
	case coalesce.IsClosedQueue(err):
		return "closed"
	default:
		return "ctx"
	}
}

func (harness) Run(cfg xplore.Config, ch vrt.Chooser, trace bool) (xplore.Outcome, *vrt.Result) {
	d := cfg.Data.(cfgData)
	var out xplore.Outcome
	res := vrt.Run(ch, vrt.Options{Trace: trace, FreeSwitch: true, UnlockPoints: vrt.DefaultUnlockPoints || d.unlock}, func() {
		q := coalesce.NewQueue()
		ctx, cancel := vcontext.WithCancel(vcontext.Background())
		nth := len(d.prods) + 1
		logs := make([][]op, nth+4)
		var cancelInv int64 = -1
		for i, s := range d.prods {
			i, s := i, s
			vrt.GoNamed(fmt.Sprintf("prod%d", i), func() {
				for _, it := range s {
					o := op{kind: "ins", item: it, thread: i, inv: vrt.Stamp()}
					ok, err := q.Insert(it)
					o.ok, o.err, o.ret = ok, errName(err), vrt.Stamp()
					logs[i] = append(logs[i], o)
				}
			})
		}
		ci := len(d.prods)
		consumerDone := false
		vrt.GoNamed("consumer", func() {
			for {
				o := op{kind: "next", thread: ci, inv: vrt.Stamp()}
				it, dups, err := q.Next(ctx)
				o.err, o.dups, o.ret = errName(err), dups, vrt.Stamp()
				if it != nil {
					o.item = it.(string)
				}
				logs[ci] = append(logs[ci], o)
				if err != nil {
					consumerDone = true
					return
				}
			}
		})
		if d.closer {
			vrt.GoNamed("closer", func() {
				o := op{kind: "close", thread: ci + 1, inv: vrt.Stamp()}
				q.Close()
				o.ret = vrt.Stamp()
				logs[ci+1] = append(logs[ci+1], o)
			})
		}
		if d.closers2 {
			vrt.GoNamed("closer2", func() {
				o := op{kind: "close", thread: ci + 3, inv: vrt.Stamp()}
				q.Close()
				o.ret = vrt.Stamp()
				logs[ci+3] = append(logs[ci+3], o)
			})
		}
		if d.canceller {
			vrt.GoNamed("canceller", func() {
				cancelInv = vrt.Stamp()
				cancel()
			})
		}
		vrt.Idle()
		vrt.Join()
		viol := func(class, msg string) {
			out.Violations = append(out.Violations, xplore.Violation{Class: class, Msg: msg})
		}
		if !consumerDone {
			// consumer parked: it must have nothing to do
			if q.Len() != 0 || q.IsClosed() || cancelInv >= 0 {
				viol("lost-wakeup", fmt.Sprintf("consumer parked in Next with len=%d closed=%v cancelled=%v; parked: %v", q.Len(), q.IsClosed(), cancelInv >= 0, vrt.ParkedInfo()))
				return
			}
			cancelInv = vrt.Stamp()
			cancel()
			vrt.Idle()
			vrt.Join()
		}
		if !vrt.AllDone() {
			viol("deadlock", fmt.Sprintf("threads never finished: %v", vrt.ParkedInfo()))
			return
		}
		// drain what is left (sequentially, by main)
		for q.Len() > 0 {
			o := op{kind: "next", thread: ci + 2, inv: vrt.Stamp()}
			it, dups, err := q.Next(vcontext.Background())
			o.err, o.dups, o.ret = errName(err), dups, vrt.Stamp()
			if it != nil {
				o.item = it.(string)
			}
			logs[ci+2] = append(logs[ci+2], o)
		}
		var all []op
		for _, l := range logs {
			all = append(all, l...)
		}
		// a consumer told "ctx" before anybody cancelled is wrong
		for _, o := range all {
			if o.kind == "next" && o.err == "ctx" && (cancelInv < 0 || o.ret < cancelInv) {
				viol("spurious-ctx-error", fmt.Sprintf("Next returned a context error before cancel was invoked: %+v", o))
			}
		}
		if msg := linearizable(all); msg != "" {
			viol("not-linearizable", msg+"\nhistory: "+render(all))
		}
		out.Obs = obsOf(all)
		out.Nontrivial = nontrivial(all)
	})
	if res.Aborted != "" {
		cl := "abort"
		if res.Panic != "" {
			cl = "panic"
		} else if strings.HasPrefix(res.Aborted, "deadlock") {
			cl = "deadlock"
		} else if strings.HasPrefix(res.Aborted, "steplimit") {
			cl = "steplimit"
		}
		out.Violations = append(out.Violations, xplore.Violation{Class: cl, Msg: res.Aborted + " " + strings.Join(res.Parked, "; ")})
	}
	return out, res
}

func render(all []op) string {
	sort.Slice(all, func(i, j int) bool { return all[i].inv < all[j].inv })
	var b strings.Builder
	for _, o := range all {
		switch o.kind {
		case "ins":
			fmt.Fprintf(&b, "[%d,%d]T%d Insert(%s)=(%v,%s) ", o.inv, o.ret, o.thread, o.item, o.ok, o.err)
		case "next":
			fmt.Fprintf(&b, "[%d,%d]T%d Next=(%s,%d,%s) ", o.inv, o.ret, o.thread, o.item, o.dups, o.err)
		case "close":
			fmt.Fprintf(&b, "[%d,%d]T%d Close ", o.inv, o.ret, o.thread)
		}
	}
	return b.String()
}

func obsOf(all []op) string {
	var b strings.Builder
	byT := map[int][]op{}
	var ts []int
	for _, o := range all {
		if _, ok := byT[o.thread]; !ok {
			ts = append(ts, o.thread)
		}
		byT[o.thread] = append(byT[o.thread], o)
	}
	sort.Ints(ts)
	for _, t := range ts {
		fmt.Fprintf(&b, "T%d:", t)
		for _, o := range byT[t] {
			switch o.kind {
			case "ins":
				fmt.Fprintf(&b, "I%s%v%s,", o.item, o.ok, o.err)
			case "next":
				fmt.Fprintf(&b, "N%s%d%s,", o.item, o.dups, o.err)
			}
		}
	}
	return b.String()
}

// nontrivial: some delivery coalesced, or an insert was refused, or close
// overlapped an insert.
func nontrivial(all []op) bool {
	for _, o := range all {
		if o.kind == "next" && o.dups > 0 {
			return true
		}
		if o.kind == "ins" && (o.err != "" || !o.ok) {
			return true
		}
	}
	return false
}

// ---- sequential model + brute-force linearizability ----

type mstate struct {
	queue  []string
	dups   map[string]uint32
	closed bool
}

func (m mstate) clone() mstate {
	n := mstate{queue: append([]string{}, m.queue...), dups: map[string]uint32{}, closed: m.closed}
	for k, v := range m.dups {
		n.dups[k] = v
	}
	return n
}

func (m mstate) key() string {
	var b strings.Builder
	for _, it := range m.queue {
		fmt.Fprintf(&b, "%s%d,", it, m.dups[it])
	}
	fmt.Fprintf(&b, "|%v", m.closed)
	return b.String()
}

// step applies o to m if the recorded result is one the model allows there.
// overlapClose: o is an insert that was not finished before Close was invoked
// (it may then be dropped silently).
func step(m mstate, o op, overlapClose bool) []mstate {
	var outs []mstate
	switch o.kind {
	case "close":
		n := m.clone()
		n.closed = true
		outs = append(outs, n)
	case "ins":
		if m.closed {
			if o.err == "closed" {
				outs = append(outs, m)
			} else if o.err == "" && overlapClose {
				// passed the closed check before Close, inserted after: the
				// statement protects only insertions completed before close.
				n := m.clone()
				if _, p := n.dups[o.item]; p {
					if !o.ok {
						n.dups[o.item]++
						outs = append(outs, n)
					}
				} else if o.ok {
					n.queue = append(n.queue, o.item)
					n.dups[o.item] = 0
					outs = append(outs, n)
				}
			}
			return outs
		}
		if o.err != "" {
			return nil
		}
		n := m.clone()
		if _, pending := n.dups[o.item]; pending {
			if o.ok {
				return nil
			}
			n.dups[o.item]++
		} else {
			if !o.ok {
				return nil
			}
			n.queue = append(n.queue, o.item)
			n.dups[o.item] = 0
		}
		outs = append(outs, n)
	case "next":
		switch o.err {
		case "ctx":
			outs = append(outs, m)
		case "closed":
			if m.closed && len(m.queue) == 0 {
				outs = append(outs, m)
			}
		default:
			if len(m.queue) > 0 && m.queue[0] == o.item && m.dups[o.item] == o.dups {
				n := m.clone()
				n.queue = n.queue[1:]
				delete(n.dups, o.item)
				outs = append(outs, n)
			}
		}
	}
	return outs
}

func linearizable(all []op) string {
	n := len(all)
	if n > 30 {
		return "history too long for the checker"
	}
	var closeInv int64 = -1
	var closeRet int64 = -1
	// several goroutines may call Close: the queue is closed once ANY of them
	// has returned, so the window in which an insertion may still slip in runs
	// from the earliest invocation to the earliest return
	for _, o := range all {
		if o.kind == "close" {
			if closeInv < 0 || o.inv < closeInv {
				closeInv = o.inv
			}
			if closeRet < 0 || o.ret < closeRet {
				closeRet = o.ret
			}
		}
	}
	seen := map[string]bool{}
	var rec func(done uint32, m mstate) bool
	rec = func(done uint32, m mstate) bool {
		if done == (1<<uint(n))-1 {
			return true
		}
		k := fmt.Sprintf("%d|%s", done, m.key())
		if seen[k] {
			return false
		}
		seen[k] = true
		for i := 0; i < n; i++ {
			if done&(1<<uint(i)) != 0 {
				continue
			}
			// i may go next only if no other pending op returned before i was invoked
			okOrder := true
			for j := 0; j < n; j++ {
				if j != i && done&(1<<uint(j)) == 0 && all[j].ret < all[i].inv {
					okOrder = false
					break
				}
			}
			if !okOrder {
				continue
			}
			// an insertion OVERLAPS the Close only if it was invoked before Close
			// returned and returned after Close was invoked; one invoked after
			// Close returned comes after close and must be refused
			overlap := all[i].kind == "ins" && closeInv >= 0 && all[i].ret > closeInv && all[i].inv < closeRet
			for _, nm := range step(m, all[i], overlap) {
				if rec(done|1<<uint(i), nm) {
					return true
				}
			}
		}
		return false
	}
	if rec(0, mstate{dups: map[string]uint32{}}) {
		return ""
	}
	return "no linearization of the recorded history is a behaviour of the sequential queue (FIFO of first pending insertion, exact duplicate counts, drain before closed)"
}

func main() { xplore.Main(harness{}) }
