// C11, sequential part — long single-goroutine histories of the shape
// "burst, slide, drain" over many distinct items: b items are inserted, then s
// rounds of (Next, Insert of a fresh item, now and then a re-insert of a
// pending item), then everything is drained and the queue closed. Every
// (b, s, re-insert period) of the grid is run against a FIFO + duplicate-count
// model: order of first pending insertion, exact duplicate counts, Len, and
// drain-before-closed. Buffers that grow, wrap or shrink with the backlog are
// exercised at every size up to the grid's.
package main

import (
	"math"
	"context"
	"fmt"

	"github.com/openconfig/gnmi/coalesce"
	"github.com/openconfig/gnmi/zzverif/seqmc"
)

type gcase struct{ burst, slide, dupEvery int }

func vio(class, format string, a ...interface{}) []seqmc.Violation {
	return []seqmc.Violation{{Class: class, Msg: fmt.Sprintf(format, a...)}}
}

func run(c gcase) []seqmc.Violation {
	q := coalesce.NewQueue()
	var fifo []int
	dups := map[int]uint32{}
	next := 0
	ins := func(it int) []seqmc.Violation {
		_, pending := dups[it]
		ok, err := q.Insert(it)
		if err != nil || ok == pending {
			return vio("insert-result", "%+v: Insert(%d) = (%v, %v) with pending=%v", c, it, ok, err, pending)
		}
		if pending {
			dups[it]++
		} else {
			dups[it] = 0
			fifo = append(fifo, it)
		}
		if q.Len() != len(fifo) {
			return vio("len", "%+v: Len() = %d after Insert(%d), %d items pending", c, q.Len(), it, len(fifo))
		}
		return nil
	}
	take := func() []seqmc.Violation {
		it, d, err := q.Next(context.Background())
		if err != nil || it == nil {
			return vio("next-result", "%+v: Next() = (%v, %d, %v) with %d items pending", c, it, d, err, len(fifo))
		}
		want := fifo[0]
		if it.(int) != want || d != dups[want] {
			return vio("order-or-duplicates", "%+v: Next() = %v (dup %d), expected %d (dup %d): delivery is not in order of first pending insertion with exact duplicate counts; pending %v", c, it, d, want, dups[want], fifo)
		}
		fifo = fifo[1:]
		delete(dups, want)
		if q.Len() != len(fifo) {
			return vio("len", "%+v: Len() = %d after Next, %d items pending", c, q.Len(), len(fifo))
		}
		return nil
	}
	for i := 0; i < c.burst; i++ {
		if v := ins(next); v != nil {
			return v
		}
		next++
	}
	for r := 0; r < c.slide; r++ {
		if len(fifo) > 0 {
			if v := take(); v != nil {
				return v
			}
		}
		if v := ins(next); v != nil {
			return v
		}
		next++
		if c.dupEvery > 0 && r%c.dupEvery == c.dupEvery-1 && len(fifo) > 1 {
			// re-insert the item in the middle of the backlog
			if v := ins(fifo[len(fifo)/2]); v != nil {
				return v
			}
		}
	}
	// drain to a few pending, insert again (a consumer that almost caught up), then drain fully
	for len(fifo) > 3 {
		if v := take(); v != nil {
			return v
		}
	}
	for i := 0; i < 2; i++ {
		if v := ins(next); v != nil {
			return v
		}
		next++
	}
	for len(fifo) > 0 {
		if v := take(); v != nil {
			return v
		}
	}
	if v := ins(next); v != nil {
		return v
	}
	q.Close()
	if ok, err := q.Insert(next + 1); err == nil || ok {
		return vio("insert-after-close", "%+v: Insert after Close = (%v, %v)", c, ok, err)
	}
	if v := take(); v != nil { // drain before closed
		return v
	}
	if it, _, err := q.Next(context.Background()); it != nil || !coalesce.IsClosedQueue(err) {
		return vio("closed-not-reported", "%+v: Next on the closed, drained queue = (%v, %v)", c, it, err)
	}
	return nil
}

// runKinds: items of unusual kinds - the nil interface value, a typed nil
// pointer, zero values, an empty struct - are items like any other: inserted,
// coalesced and delivered in order with their duplicate counts, and a consumer
// sees every one of them before it is told the queue is closed.
func runKinds(order []int, dupOf int) []seqmc.Violation {
	var np *int
	kinds := []interface{}{nil, np, 0, "", struct{}{}, "x"}
	q := coalesce.NewQueue()
	desc := fmt.Sprintf("items %v (indexes into {nil, (*int)(nil), 0, \"\", struct{}{}, \"x\"}), item %d inserted twice more", order, dupOf)
	for _, k := range order {
		if ok, err := q.Insert(kinds[k]); !ok || err != nil {
			return vio("insert-result", "%s: first Insert(%#v) = (%v, %v)", desc, kinds[k], ok, err)
		}
	}
	for r := 0; r < 2; r++ {
		if ok, err := q.Insert(kinds[dupOf]); ok || err != nil {
			return vio("insert-result", "%s: repeated Insert(%#v) = (%v, %v), want coalesced", desc, kinds[dupOf], ok, err)
		}
	}
	if q.Len() != len(order) {
		return vio("len", "%s: Len() = %d, %d items pending", desc, q.Len(), len(order))
	}
	q.Close()
	for i, k := range order {
		it, d, err := q.Next(context.Background())
		wantD := uint32(0)
		if k == dupOf {
			wantD = 2
		}
		if err != nil || it != kinds[k] || d != wantD {
			return vio("order-or-duplicates", "%s: delivery %d = (%#v, dup %d, %v), expected (%#v, dup %d)", desc, i, it, d, err, kinds[k], wantD)
		}
	}
	if it, _, err := q.Next(context.Background()); it != nil || !coalesce.IsClosedQueue(err) {
		return vio("closed-not-reported", "%s: Next on the closed, drained queue = (%v, %v)", desc, it, err)
	}
	return nil
}

// runNaN: every sequence of <=5 insertions over {"x", "y", an item that is not
// equal to itself (a struct holding NaN)}, then Close and a full drain, against
// the model: an item equal to a pending one is coalesced (count + 1, position
// kept); an item equal to nothing - not even itself - is always a new item.
func runNaN(seq []int) []seqmc.Violation {
	type nan struct{ f float64 }
	mk := func(k int) interface{} {
		switch k {
		case 0:
			return "x"
		case 1:
			return "y"
		}
		return nan{math.NaN()}
	}
	type ent struct {
		k    int
		dups uint32
	}
	var model []ent
	q := coalesce.NewQueue()
	desc := fmt.Sprintf("insertions %v (0 = \"x\", 1 = \"y\", 2 = struct{NaN})", seq)
	for _, k := range seq {
		wantNew := true
		if k != 2 {
			for i := range model {
				if model[i].k == k {
					model[i].dups++
					wantNew = false
				}
			}
		}
		if wantNew {
			model = append(model, ent{k, 0})
		}
		if ok, err := q.Insert(mk(k)); ok != wantNew || err != nil {
			return vio("insert-result", "%s: Insert(item %d) = (%v, %v), the model says new=%v", desc, k, ok, err, wantNew)
		}
		if q.Len() != len(model) {
			return vio("len", "%s: Len() = %d, %d items pending", desc, q.Len(), len(model))
		}
	}
	q.Close()
	for i, e := range model {
		it, d, err := q.Next(context.Background())
		same := false
		switch v := it.(type) {
		case string:
			same = e.k < 2 && v == mk(e.k)
		case nan:
			same = e.k == 2 && math.IsNaN(v.f)
		}
		if err != nil || !same || d != e.dups {
			return vio("order-or-duplicates", "%s: delivery %d = (%#v, dup %d, %v), expected (item %d, dup %d)", desc, i, it, d, err, e.k, e.dups)
		}
	}
	if it, _, err := q.Next(context.Background()); it != nil || !coalesce.IsClosedQueue(err) {
		return vio("closed-not-reported", "%s: Next on the closed, drained queue = (%v, %v)", desc, it, err)
	}
	return nil
}

type harness struct{}

func (harness) Property() string { return "C11" }
func (harness) Specs(tier string) []seqmc.Spec {
	max := 40
	if tier == "thorough" {
		max = 130
	}
	var cases []gcase
	for b := 0; b <= max; b++ {
		for s := 0; s <= max; s++ {
			for _, d := range []int{0, 3} {
				cases = append(cases, gcase{b, s, d})
			}
		}
	}
	// all ordered selections of 1-3 distinct item kinds out of 6, each member in turn the re-inserted one
	type kc struct {
		order []int
		dup   int
	}
	var kcs []kc
	var rec func(cur []int)
	rec = func(cur []int) {
		if len(cur) > 0 {
			for _, d := range cur {
				kcs = append(kcs, kc{append([]int{}, cur...), d})
			}
		}
		if len(cur) == 3 {
			return
		}
		for k := 0; k < 6; k++ {
			used := false
			for _, c := range cur {
				used = used || c == k
			}
			if !used {
				rec(append(cur, k))
			}
		}
	}
	rec(nil)
	var nseqs [][]int
	var nrec func(cur []int)
	nrec = func(cur []int) {
		if len(cur) > 0 {
			nseqs = append(nseqs, append([]int{}, cur...))
		}
		if len(cur) == 5 {
			return
		}
		for k := 0; k < 3; k++ {
			nrec(append(cur, k))
		}
	}
	nrec(nil)
	return []seqmc.Spec{{Name: fmt.Sprintf("burst 0..%d x slide 0..%d x re-insert period {none, 3}, drained, closed", max, max), N: len(cases), Run: func(i int) (string, bool, []seqmc.Violation) {
		c := cases[i]
		return fmt.Sprintf("%+v", c), c.burst > 8, run(c)
	}}, {Name: "items of unusual kinds (nil interface, typed nil pointer, zero values, empty struct): 1-3 pending, one re-inserted, drained after close", N: len(kcs), Run: func(i int) (string, bool, []seqmc.Violation) {
		return fmt.Sprintf("%+v", kcs[i]), true, runKinds(kcs[i].order, kcs[i].dup)
	}}, {Name: fmt.Sprintf("every sequence of <=5 insertions over two ordinary items and one that is not equal to itself (NaN), closed, drained (%d sequences)", len(nseqs)), N: len(nseqs), Run: func(i int) (string, bool, []seqmc.Violation) {
		return fmt.Sprint(nseqs[i]), true, runNaN(nseqs[i])
	}}}
}

func main() { seqmc.Main(harness{}) }
