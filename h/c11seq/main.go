// C11, sequential part — long single-goroutine histories of the shape
// "burst, slide, drain" over many distinct items: b items are inserted, then s
// rounds of (Next, Insert of a fresh item, now and then a re-insert of a
// pending item), then everything is drained and the queue closed. Every
// (b, s, re-insert period) of the grid is run against a FIFO + duplicate-count
// model: order of first pending insertion, exact duplicate counts, Len, and
// drain-before-closed. Buffers that grow, wrap or shrink with the backlog are
// exercised at every size up to the grid's.
package main

import (
	"context"
	"fmt"

	"github.com/openconfig/gnmi/coalesce"
	"github.com/openconfig/gnmi/zzverif/seqmc"
)

type gcase struct{ burst, slide, dupEvery int }

func vio(class, format string, a ...interface{}) []seqmc.Violation {
	return []seqmc.Violation{{Class: class, Msg: fmt.Sprintf(format, a...)}}
}

func run(c gcase) []seqmc.Violation {
	q := coalesce.NewQueue()
	var fifo []int
	dups := map[int]uint32{}
	next := 0
	ins := func(it int) []seqmc.Violation {
		_, pending := dups[it]
		ok, err := q.Insert(it)
		if err != nil || ok == pending {
			return vio("insert-result", "%+v: Insert(%d) = (%v, %v) with pending=%v", c, it, ok, err, pending)
		}
		if pending {
			dups[it]++
		} else {
			dups[it] = 0
			fifo = append(fifo, it)
		}
		if q.Len() != len(fifo) {
			return vio("len", "%+v: Len() = %d after Insert(%d), %d items pending", c, q.Len(), it, len(fifo))
		}
		return nil
	}
	take := func() []seqmc.Violation {
		it, d, err := q.Next(context.Background())
		if err != nil || it == nil {
			return vio("next-result", "%+v: Next() = (%v, %d, %v) with %d items pending", c, it, d, err, len(fifo))
		}
		want := fifo[0]
		if it.(int) != want || d != dups[want] {
			return vio("order-or-duplicates", "%+v: Next() = %v (dup %d), expected %d (dup %d): delivery is not in order of first pending insertion with exact duplicate counts; pending %v", c, it, d, want, dups[want], fifo)
		}
		fifo = fifo[1:]
		delete(dups, want)
		if q.Len() != len(fifo) {
			return vio("len", "%+v: Len() = %d after Next, %d items pending", c, q.Len(), len(fifo))
		}
		return nil
	}
	for i := 0; i < c.burst; i++ {
		if v := ins(next); v != nil {
			return v
		}
		next++
	}
	for r := 0; r < c.slide; r++ {
		if len(fifo) > 0 {
			if v := take(); v != nil {
				return v
			}
		}
		if v := ins(next); v != nil {
			return v
		}
		next++
		if c.dupEvery > 0 && r%c.dupEvery == c.dupEvery-1 && len(fifo) > 1 {
			// re-insert the item in the middle of the backlog
			if v := ins(fifo[len(fifo)/2]); v != nil {
				return v
			}
		}
	}
	// drain to a few pending, insert again (a consumer that almost caught up), then drain fully
	for len(fifo) > 3 {
		if v := take(); v != nil {
			return v
		}
	}
	for i := 0; i < 2; i++ {
		if v := ins(next); v != nil {
			return v
		}
		next++
	}
	for len(fifo) > 0 {
		if v := take(); v != nil {
			return v
		}
	}
	if v := ins(next); v != nil {
		return v
	}
	q.Close()
	if ok, err := q.Insert(next + 1); err == nil || ok {
		return vio("insert-after-close", "%+v: Insert after Close = (%v, %v)", c, ok, err)
	}
	if v := take(); v != nil { // drain before closed
		return v
	}
	if it, _, err := q.Next(context.Background()); it != nil || !coalesce.IsClosedQueue(err) {
		return vio("closed-not-reported", "%+v: Next on the closed, drained queue = (%v, %v)", c, it, err)
	}
	return nil
}

type harness struct{}

func (harness) Property() string { return "C11" }
func (harness) Specs(tier string) []seqmc.Spec {
	max := 40
	if tier == "thorough" {
		max = 130
	}
	var cases []gcase
	for b := 0; b <= max; b++ {
		for s := 0; s <= max; s++ {
			for _, d := range []int{0, 3} {
				cases = append(cases, gcase{b, s, d})
			}
		}
	}
	return []seqmc.Spec{{Name: fmt.Sprintf("burst 0..%d x slide 0..%d x re-insert period {none, 3}, drained, closed", max, max), N: len(cases), Run: func(i int) (string, bool, []seqmc.Violation) {
		c := cases[i]
		return fmt.Sprintf("%+v", c), c.burst > 8, run(c)
	}}}
}

func main() { seqmc.Main(harness{}) }
