package client

import (
	"google.golang.org/grpc"

	gpb "github.com/openconfig/gnmi/proto/gnmi"
)

// Added by /verif through the build overlay only: a Client whose gNMI stub is
// supplied by the harness (conn is only used by Close).
func VerifNewClientWithStub(conn *grpc.ClientConn, stub gpb.GNMIClient) *Client {
	return &Client{conn: conn, client: stub}
}
