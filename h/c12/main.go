// C12 — no message from a remote peer can crash a process. Bounded-exhaustive
// structural enumeration of wire-valid messages (each passed through
// Marshal/Unmarshal first): notifications into the cache ingest path in every
// state of a family of cache states followed by the collector's periodic
// operations; response streams through the real gnmi client receive path into
// CacheClient and cli.QueryDisplay for every display type.
package main

import (
	"context"
	"errors"
	"fmt"
	"io"
	"runtime"
	"sort"
	"strings"
	"time"

	"google.golang.org/grpc"
	"google.golang.org/grpc/credentials/insecure"
	"google.golang.org/grpc/metadata"
	"google.golang.org/protobuf/proto"

	"github.com/openconfig/gnmi/cache"
	"github.com/openconfig/gnmi/cli"
	"github.com/openconfig/gnmi/client"
	gclient "github.com/openconfig/gnmi/client/gnmi"
	"github.com/openconfig/gnmi/ctree"
	"github.com/openconfig/gnmi/latency"
	gmeta "github.com/openconfig/gnmi/metadata"
	pb "github.com/openconfig/gnmi/proto/gnmi"
	"github.com/openconfig/gnmi/zzverif/seqmc"
)

func elems(names ...string) []*pb.PathElem {
	var out []*pb.PathElem
	for _, n := range names {
		out = append(out, &pb.PathElem{Name: n})
	}
	return out
}

func mkp(s string) *pb.Path {
	switch s {
	case "<nil>":
		return nil
	case "<empty>":
		return &pb.Path{}
	case "<depr a>":
		return &pb.Path{Element: []string{"a"}}
	case "<deep 2 keys>":
		// 18 plain elements, then a list entry with TWO keys, then one more: 22
		// index strings - more than any fixed-size scratch buffer sized for
		// "ordinary" paths, with the multi-key element right at such a boundary
		p := &pb.Path{}
		for i := 0; i < 18; i++ {
			p.Elem = append(p.Elem, &pb.PathElem{Name: fmt.Sprintf("e%d", i)})
		}
		p.Elem = append(p.Elem, &pb.PathElem{Name: "route", Key: map[string]string{"prefix": "10.0.0.0/8", "path-id": "7"}}, &pb.PathElem{Name: "valid"})
		return p
	case "<deep 3 keys>":
		p := &pb.Path{}
		for i := 0; i < 17; i++ {
			p.Elem = append(p.Elem, &pb.PathElem{Name: fmt.Sprintf("e%d", i)})
		}
		p.Elem = append(p.Elem, &pb.PathElem{Name: "r", Key: map[string]string{"a": "1", "b": "2", "c": "3"}})
		return p
	}
	return &pb.Path{Elem: elems(strings.Split(s, "/")...)}
}

var allPaths = []string{"<nil>", "<empty>", "a", "a/b", "*", "meta", "meta/sync", "meta/connected", "meta/targetLeaves", "meta/x", "meta/connectError", "meta/latestTimestamp", "<depr a>", "<deep 2 keys>", "<deep 3 keys>"}
var fewPaths = []string{"a", "meta/sync", "<empty>", "<nil>"}

func mkv(s string) *pb.TypedValue {
	if k := strings.Index(s, "#"); k > 0 {
		var n int
		fmt.Sscanf(s[k+1:], "%d", &n)
		switch s[:k] {
		case "leaflist", "strlist":
			var es []*pb.TypedValue
			for x := 0; x < n; x++ {
				if s[:k] == "strlist" {
					es = append(es, &pb.TypedValue{Value: &pb.TypedValue_StringVal{StringVal: fmt.Sprintf("member-%d", x)}})
				} else {
					es = append(es, &pb.TypedValue{Value: &pb.TypedValue_IntVal{IntVal: int64(x)}})
				}
			}
			return &pb.TypedValue{Value: &pb.TypedValue_LeaflistVal{LeaflistVal: &pb.ScalarArray{Element: es}}}
		case "jsonarray":
			var es []string
			for x := 0; x < n; x++ {
				es = append(es, fmt.Sprint(x))
			}
			return &pb.TypedValue{Value: &pb.TypedValue_JsonVal{JsonVal: []byte("[" + strings.Join(es, ",") + "]")}}
		}
	}
	switch s {
	case "<nil>":
		return nil
	case "<empty>":
		return &pb.TypedValue{}
	case "int1":
		return &pb.TypedValue{Value: &pb.TypedValue_IntVal{IntVal: 1}}
	case "int2":
		return &pb.TypedValue{Value: &pb.TypedValue_IntVal{IntVal: 2}}
	case "str":
		return &pb.TypedValue{Value: &pb.TypedValue_StringVal{StringVal: "s"}}
	case "bool":
		return &pb.TypedValue{Value: &pb.TypedValue_BoolVal{BoolVal: true}}
	case "double":
		return &pb.TypedValue{Value: &pb.TypedValue_DoubleVal{DoubleVal: 1.5}}
	case "leaflist":
		return &pb.TypedValue{Value: &pb.TypedValue_LeaflistVal{LeaflistVal: &pb.ScalarArray{Element: []*pb.TypedValue{{Value: &pb.TypedValue_IntVal{IntVal: 1}}}}}}
	case "json":
		return &pb.TypedValue{Value: &pb.TypedValue_JsonVal{JsonVal: []byte("1")}}
	case "bytes":
		return &pb.TypedValue{Value: &pb.TypedValue_BytesVal{BytesVal: []byte{1}}}
	case "decimal":
		return &pb.TypedValue{Value: &pb.TypedValue_DecimalVal{DecimalVal: &pb.Decimal64{Digits: 5678, Precision: 2}}}
	case "decimal-p18":
		return &pb.TypedValue{Value: &pb.TypedValue_DecimalVal{DecimalVal: &pb.Decimal64{Digits: 5678, Precision: 18}}}
	case "decimal-p19":
		return &pb.TypedValue{Value: &pb.TypedValue_DecimalVal{DecimalVal: &pb.Decimal64{Digits: 5678, Precision: 19}}}
	case "decimal-pmax":
		return &pb.TypedValue{Value: &pb.TypedValue_DecimalVal{DecimalVal: &pb.Decimal64{Digits: -1, Precision: 4294967295}}}
	case "float":
		return &pb.TypedValue{Value: &pb.TypedValue_FloatVal{FloatVal: 1.5}}
	case "uint":
		return &pb.TypedValue{Value: &pb.TypedValue_UintVal{UintVal: 7}}
	case "ascii":
		return &pb.TypedValue{Value: &pb.TypedValue_AsciiVal{AsciiVal: "x"}}
	case "any":
		return &pb.TypedValue{Value: &pb.TypedValue_AnyVal{}}
	case "badjson":
		return &pb.TypedValue{Value: &pb.TypedValue_JsonIetfVal{JsonIetfVal: []byte("{")}}
	case "nested-leaflist":
		return &pb.TypedValue{Value: &pb.TypedValue_LeaflistVal{LeaflistVal: &pb.ScalarArray{Element: []*pb.TypedValue{{}, {Value: &pb.TypedValue_LeaflistVal{LeaflistVal: &pb.ScalarArray{}}}, {Value: &pb.TypedValue_DecimalVal{DecimalVal: &pb.Decimal64{Digits: 1, Precision: 40}}}}}}}
	}
	panic(s)
}

var allVals = []string{"<nil>", "<empty>", "int1", "int2", "str", "bool", "double", "leaflist", "json", "bytes", "decimal", "decimal-p19"}
var displayVals = []string{"<nil>", "<empty>", "int1", "str", "leaflist", "json", "bytes", "decimal", "decimal-p18", "decimal-p19", "decimal-pmax", "float", "uint", "ascii", "any", "badjson", "nested-leaflist", "bool", "double"}
var fewVals = []string{"<nil>", "int1", "bool"}

func mkprefix(s string) *pb.Path {
	switch s {
	case "<nil>":
		return nil
	case "t":
		return &pb.Path{Target: "t"}
	case "t+origin":
		return &pb.Path{Target: "t", Origin: "o"}
	case "t+a":
		return &pb.Path{Target: "t", Elem: elems("a")}
	case "t+depr":
		return &pb.Path{Target: "t", Element: []string{"d"}}
	case "t+a/b":
		return &pb.Path{Target: "t", Elem: elems("a", "b")}
	case "t+meta":
		return &pb.Path{Target: "t", Elem: elems("meta")}
	case "notarget":
		return &pb.Path{}
	case "unknown":
		return &pb.Path{Target: "nosuch"}
	}
	panic(s)
}

var prefixes = []string{"t", "t+origin", "t+a", "t+depr", "t+a/b", "t+meta", "<nil>", "notarget", "unknown"}

type updS struct{ path, val string }

type msg struct {
	prefix string
	atomic bool
	ts     int64
	ups    []updS
	dels   []string
}

func (m msg) String() string {
	return fmt.Sprintf("Notification{prefix=%s atomic=%v ts=%d updates=%v deletes=%v}", m.prefix, m.atomic, m.ts, m.ups, m.dels)
}

func (m msg) build() *pb.Notification {
	n := &pb.Notification{Timestamp: m.ts, Prefix: mkprefix(m.prefix), Atomic: m.atomic}
	for _, u := range m.ups {
		n.Update = append(n.Update, &pb.Update{Path: mkp(u.path), Val: mkv(u.val)})
	}
	for _, d := range m.dels {
		n.Delete = append(n.Delete, mkp(d))
	}
	// exactly what a peer can put on the wire
	b, err := proto.Marshal(n)
	if err != nil {
		panic(err)
	}
	out := &pb.Notification{}
	if err := proto.Unmarshal(b, out); err != nil {
		panic(err)
	}
	return out
}

func grammar(full bool) []msg {
	var ups [][]updS
	ups = append(ups, nil)
	for _, p := range allPaths {
		for _, v := range allVals {
			ups = append(ups, []updS{{p, v}})
		}
	}
	var dels [][]string
	dels = append(dels, nil)
	for _, p := range allPaths {
		dels = append(dels, []string{p})
	}
	if full {
		var few []updS
		for _, p := range fewPaths {
			for _, v := range fewVals {
				few = append(few, updS{p, v})
			}
		}
		for _, a := range few {
			for _, b := range few {
				ups = append(ups, []updS{a, b})
			}
		}
		for _, a := range []string{"a", "*", "meta", "meta/sync"} {
			for _, b := range []string{"a", "*", "meta", "meta/sync"} {
				dels = append(dels, []string{a, b})
			}
		}
	}
	var out []msg
	for _, pf := range prefixes {
		for _, at := range []bool{false, true} {
			for _, ts := range []int64{0, 1, 2} {
				for _, u := range ups {
					for _, d := range dels {
						if !full && len(u)+len(d) > 1 {
							continue
						}
						if full && len(u)+len(d) > 1 && ts == 1 {
							continue
						}
						out = append(out, msg{pf, at, ts, u, d})
					}
				}
			}
		}
	}
	return out
}

// histories that build cache states (applied before the message under test)
var stateOps = []msg{
	{"t", false, 1, []updS{{"a", "int1"}}, nil},
	{"t", false, 1, []updS{{"a", "double"}}, nil},
	{"t", false, 1, []updS{{"a/b", "str"}}, nil},
	{"t", true, 1, []updS{{"m", "int1"}, {"n", "int2"}}, nil},
	{"t+a", true, 1, []updS{{"m", "int1"}}, nil},
	{"t", false, 1, []updS{{"meta/sync", "bool"}}, nil},
	{"t", false, 1, []updS{{"meta/targetLeaves", "str"}}, nil},
	{"t", false, 1, []updS{{"meta/connectError", "str"}}, nil},
	{"t", false, 3, nil, []string{"*"}},
	{"t+depr", false, 1, []updS{{"<depr a>", "int1"}}, nil},
	{"t", false, 1, []updS{{"<depr a>", "int1"}}, nil}, // deprecated path below a target-only prefix
	{"t+origin", false, 1, []updS{{"a", "decimal"}}, nil},
	// an atomic notification WITHOUT updates under a prefix that has an element
	// (on the unchanged tree: counted as empty, nothing stored)
	{"t+a", true, 2, nil, nil},
}

func states(maxLen int) [][]int {
	out := [][]int{{}}
	prev := [][]int{{}}
	for l := 1; l <= maxLen; l++ {
		var cur [][]int
		for _, p := range prev {
			for i := range stateOps {
				cur = append(cur, append(append([]int{}, p...), i))
			}
		}
		out = append(out, cur...)
		prev = cur
	}
	return out
}

func panicClass(entry string) (string, string) {
	// the first frame inside the repository (outside /verif's virtual packages)
	pcs := make([]uintptr, 64)
	n := runtime.Callers(3, pcs)
	frames := runtime.CallersFrames(pcs[:n])
	site := "?"
	for {
		f, more := frames.Next()
		if strings.HasPrefix(f.Function, "github.com/openconfig/gnmi/") && !strings.Contains(f.Function, "/zzverif/") {
			site = strings.TrimPrefix(f.Function, "github.com/openconfig/gnmi/")
			if k := strings.Index(site, ".func"); k > 0 {
				site = site[:k]
			}
			break
		}
		if !more {
			break
		}
	}
	return "panic:" + entry + "@" + site, site
}

func guard(entry string, vs *[]seqmc.Violation, what func() string, f func()) {
	defer func() {
		if r := recover(); r != nil {
			cl, _ := panicClass(entry)
			buf := make([]byte, 4096)
			buf = buf[:runtime.Stack(buf, false)]
			*vs = append(*vs, seqmc.Violation{Class: cl, Msg: fmt.Sprintf("%s panics on %s: %v\n%s", entry, what(), r, buf)})
		}
	}()
	f()
}

func snapshot(c *cache.Cache, withMeta bool) string {
	var out []string
	c.Query("t", []string{"*"}, func(p []string, _ *ctree.Leaf, v interface{}) error {
		if !withMeta && len(p) > 0 && p[0] == "meta" {
			return nil
		}
		n, ok := v.(*pb.Notification)
		if !ok {
			out = append(out, fmt.Sprintf("%v=%T", p, v))
			return nil
		}
		b, _ := proto.MarshalOptions{Deterministic: true}.Marshal(n)
		out = append(out, fmt.Sprintf("%v=%x", p, b))
		return nil
	})
	sort.Strings(out)
	return strings.Join(out, ";")
}

var clock int64

func init() {
	cache.Now = func() time.Time { clock++; return time.Unix(0, 1000+clock) }
}

func newCache(hist []int) *cache.Cache {
	clock = 0
	c := cache.New([]string{"t"})
	c.SetClient(func(l *ctree.Leaf) { _ = l.Value() })
	for _, i := range hist {
		c.GnmiUpdate(stateOps[i].build())
	}
	return c
}

func specIngest(name string, hist [][]int, g []msg) seqmc.Spec {
	return seqmc.Spec{Name: fmt.Sprintf("%s: %d cache states x %d notifications", name, len(hist), len(g)), N: len(hist) * len(g), Run: func(i int) (string, bool, []seqmc.Violation) {
		h, m := hist[i/len(g)], g[i%len(g)]
		var hs []string
		for _, x := range h {
			hs = append(hs, stateOps[x].String())
		}
		desc := fmt.Sprintf("state=[%s] message=%s", strings.Join(hs, "; "), m)
		what := func() string { return desc }
		var vs []seqmc.Violation
		var c *cache.Cache
		guard("state-setup", &vs, what, func() { c = newCache(h) })
		if len(vs) > 0 || c == nil {
			return desc, false, nil // a crash while building the state is reported where that message is the one under test
		}
		before := snapshot(c, true)
		n := m.build()
		var err error
		guard("Cache.GnmiUpdate", &vs, what, func() { err = c.GnmiUpdate(n) })
		if len(vs) > 0 {
			return desc, true, vs
		}
		parts := len(n.Update) + len(n.Delete)
		if err != nil && (parts <= 1 || n.Atomic) {
			if after := snapshot(c, true); after != before {
				vs = append(vs, seqmc.Violation{Class: "rejected-message-changed-data", Msg: fmt.Sprintf("%s was rejected (%v) but the stored data changed:\n  before %s\n  after  %s", desc, err, before, after)})
			}
		}
		if err != nil && parts > 1 && !n.Atomic {
			// differential: the non-erroring parts applied one at a time
			var tw *cache.Cache
			guard("state-setup", &vs, what, func() { tw = newCache(h) })
			if tw != nil {
				for _, u := range n.Update {
					guard("Cache.GnmiUpdate", &vs, what, func() {
						tw.GnmiUpdate(&pb.Notification{Timestamp: n.Timestamp, Prefix: proto.Clone(n.Prefix).(*pb.Path), Update: []*pb.Update{proto.Clone(u).(*pb.Update)}})
					})
				}
				for _, d := range n.Delete {
					guard("Cache.GnmiUpdate", &vs, what, func() {
						tw.GnmiUpdate(&pb.Notification{Timestamp: n.Timestamp, Prefix: proto.Clone(n.Prefix).(*pb.Path), Delete: []*pb.Path{proto.Clone(d).(*pb.Path)}})
					})
				}
				if len(vs) == 0 {
					if a, b := snapshot(c, false), snapshot(tw, false); a != b {
						vs = append(vs, seqmc.Violation{Class: "partially-rejected-multi", Msg: fmt.Sprintf("%s returned %v; the cache holds\n  %s\nits parts applied one at a time give\n  %s", desc, err, a, b)})
					}
				}
			}
		}
		// what the collector does periodically / on reconnect
		guard("Cache.UpdateMetadata", &vs, what, func() { c.UpdateMetadata() })
		guard("Cache.UpdateSize", &vs, what, func() { c.UpdateSize() })
		guard("Cache.Query", &vs, what, func() { snapshot(c, true) })
		guard("Cache.Sync", &vs, what, func() { c.Sync("t") })
		guard("Cache.Connect", &vs, what, func() { c.Connect("t") })
		guard("Cache.Reset", &vs, what, func() { c.Reset("t") })
		guard("Cache.UpdateMetadata", &vs, what, func() { c.UpdateMetadata() })
		return desc, err != nil, vs
	}}
}

// specMetaRegistry: a remote peer writes a value of every kind to EVERY metadata
// path the collector maintains - taken from the registry of package metadata
// after a cache with latency windows was built, so statistics that are
// registered under one name and stored under another path are included - and
// then the collector lives on: the target syncs, sends data (a latency is
// measured), time passes beyond the window, metadata is refreshed twice, the
// target is reset and refreshed again.
func specMetaRegistry() seqmc.Spec {
	type mcase struct {
		path []string
		val  string
	}
	opt, err := cache.WithLatencyWindows([]string{"2s"}, time.Second)
	if err != nil {
		panic(err)
	}
	cache.New([]string{"t"}, opt) // registers the latency statistics
	var names []string
	for n := range gmeta.TargetIntValues {
		names = append(names, n)
	}
	for n := range gmeta.TargetBoolValues {
		names = append(names, n)
	}
	for n := range gmeta.TargetStrValues {
		names = append(names, n)
	}
	sort.Strings(names)
	var cases []mcase
	for _, n := range names {
		for _, v := range []string{"<nil>", "<empty>", "int1", "str", "bool", "double", "leaflist", "uint"} {
			cases = append(cases, mcase{gmeta.Path(n), v})
		}
	}
	return seqmc.Spec{Name: fmt.Sprintf("remote writes to every registered metadata path (%d names, latency windows on) x value kinds, then sync / data / refresh / reset", len(names)), N: len(cases), Run: func(i int) (string, bool, []seqmc.Violation) {
		mc := cases[i]
		desc := fmt.Sprintf("remote update %s = %s on a collector with latency windows", strings.Join(mc.path, "/"), mc.val)
		what := func() string { return desc }
		var vs []seqmc.Violation
		lnow := time.Unix(100, 0)
		oldNow := latency.Now
		latency.Now = func() time.Time { return lnow }
		defer func() { latency.Now = oldNow }()
		clock = 0
		c := cache.New([]string{"t"}, opt)
		c.SetClient(func(l *ctree.Leaf) { _ = l.Value() })
		n := &pb.Notification{Timestamp: 1, Prefix: &pb.Path{Target: "t"}, Update: []*pb.Update{{Path: &pb.Path{Elem: elemsOf(mc.path)}, Val: mkv(mc.val)}}}
		var uerr error
		guard("Cache.GnmiUpdate", &vs, what, func() { uerr = c.GnmiUpdate(n) })
		data := func(ts time.Time, v int64) {
			guard("Cache.GnmiUpdate(data)", &vs, what, func() {
				c.GnmiUpdate(&pb.Notification{Timestamp: ts.UnixNano(), Prefix: &pb.Path{Target: "t"}, Update: []*pb.Update{{Path: &pb.Path{Elem: elems("a")}, Val: &pb.TypedValue{Value: &pb.TypedValue_IntVal{IntVal: v}}}}})
			})
		}
		guard("Cache.Sync", &vs, what, func() { c.Sync("t") })
		data(lnow.Add(-5*time.Millisecond), 1)
		for k := 0; k < 3; k++ {
			lnow = lnow.Add(1500 * time.Millisecond)
			data(lnow.Add(-7*time.Millisecond), int64(2+k))
			guard("Cache.UpdateMetadata", &vs, what, func() { c.UpdateMetadata() })
			guard("Cache.UpdateSize", &vs, what, func() { c.UpdateSize() })
		}
		guard("Cache.Query", &vs, what, func() { snapshot(c, true) })
		guard("Cache.Reset", &vs, what, func() { c.Reset("t") })
		lnow = lnow.Add(3 * time.Second)
		guard("Cache.UpdateMetadata", &vs, what, func() { c.UpdateMetadata() })
		return desc, uerr != nil, vs
	}}
}

func elemsOf(p []string) []*pb.PathElem {
	var out []*pb.PathElem
	for _, e := range p {
		out = append(out, &pb.PathElem{Name: e})
	}
	return out
}

// ---------------------------------------------------------------- client receive + CLI display

type respSpec struct {
	kind string
	path string
	val  string
}

func (r respSpec) build() *pb.SubscribeResponse {
	var out *pb.SubscribeResponse
	switch r.kind {
	case "nooneof":
		out = &pb.SubscribeResponse{}
	case "sync":
		out = &pb.SubscribeResponse{Response: &pb.SubscribeResponse_SyncResponse{SyncResponse: true}}
	case "error":
		out = &pb.SubscribeResponse{Response: &pb.SubscribeResponse_Error{Error: &pb.Error{Message: "x"}}}
	case "emptyupdate":
		out = &pb.SubscribeResponse{Response: &pb.SubscribeResponse_Update{Update: &pb.Notification{}}}
	case "update":
		out = &pb.SubscribeResponse{Response: &pb.SubscribeResponse_Update{Update: &pb.Notification{Timestamp: 1, Prefix: &pb.Path{Target: "t"}, Update: []*pb.Update{{Path: mkp(r.path), Val: mkv(r.val)}}}}}
	case "update-noprefix":
		out = &pb.SubscribeResponse{Response: &pb.SubscribeResponse_Update{Update: &pb.Notification{Timestamp: 1, Update: []*pb.Update{{Path: mkp(r.path), Val: mkv(r.val)}}}}}
	case "depr-json":
		out = &pb.SubscribeResponse{Response: &pb.SubscribeResponse_Update{Update: &pb.Notification{Timestamp: 1, Prefix: &pb.Path{Target: "t"}, Update: []*pb.Update{{Path: mkp(r.path), Value: &pb.Value{Type: pb.Encoding_JSON, Value: []byte(`{"k":[1,"x"]}`)}}}}}}
	case "depr-badjson":
		out = &pb.SubscribeResponse{Response: &pb.SubscribeResponse_Update{Update: &pb.Notification{Timestamp: 1, Prefix: &pb.Path{Target: "t"}, Update: []*pb.Update{{Path: mkp(r.path), Value: &pb.Value{Type: pb.Encoding_JSON, Value: []byte(`{`)}}}}}}
	case "depr-bytes":
		out = &pb.SubscribeResponse{Response: &pb.SubscribeResponse_Update{Update: &pb.Notification{Timestamp: 1, Prefix: &pb.Path{Target: "t"}, Update: []*pb.Update{{Path: mkp(r.path), Value: &pb.Value{Type: pb.Encoding_BYTES, Value: []byte{1}}}}}}}
	case "depr-other":
		out = &pb.SubscribeResponse{Response: &pb.SubscribeResponse_Update{Update: &pb.Notification{Timestamp: 1, Prefix: &pb.Path{Target: "t"}, Update: []*pb.Update{{Path: mkp(r.path), Value: &pb.Value{Type: pb.Encoding_ASCII, Value: []byte("x")}}}}}}
	case "delete":
		out = &pb.SubscribeResponse{Response: &pb.SubscribeResponse_Update{Update: &pb.Notification{Timestamp: 1, Prefix: &pb.Path{Target: "t"}, Delete: []*pb.Path{mkp(r.path)}}}}
	case "delete-noprefix":
		out = &pb.SubscribeResponse{Response: &pb.SubscribeResponse_Update{Update: &pb.Notification{Timestamp: 1, Delete: []*pb.Path{mkp(r.path)}}}}
	}
	b, err := proto.Marshal(out)
	if err != nil {
		panic(err)
	}
	w := &pb.SubscribeResponse{}
	if err := proto.Unmarshal(b, w); err != nil {
		panic(err)
	}
	return w
}

func respAlphabet() []respSpec {
	out := []respSpec{{kind: "nooneof"}, {kind: "sync"}, {kind: "error"}, {kind: "emptyupdate"}}
	for _, p := range []string{"<nil>", "<empty>", "a", "a/b", "<depr a>", "<deep 2 keys>"} {
		for _, v := range displayVals {
			out = append(out, respSpec{"update", p, v}, respSpec{"update-noprefix", p, v})
		}
		for _, k := range []string{"depr-json", "depr-badjson", "depr-bytes", "depr-other", "delete", "delete-noprefix"} {
			out = append(out, respSpec{k, p, ""})
		}
	}
	return out
}

type stubStream struct {
	grpc.ClientStream
	resps []*pb.SubscribeResponse
	pos   int
}

func (s *stubStream) Send(*pb.SubscribeRequest) error { return nil }
func (s *stubStream) Recv() (*pb.SubscribeResponse, error) {
	if s.pos >= len(s.resps) {
		return nil, io.EOF
	}
	s.pos++
	return s.resps[s.pos-1], nil
}
func (s *stubStream) Header() (metadata.MD, error) { return nil, nil }
func (s *stubStream) Trailer() metadata.MD         { return nil }
func (s *stubStream) CloseSend() error             { return nil }
func (s *stubStream) Context() context.Context     { return context.Background() }

type stub struct {
	pb.GNMIClient
	resps []*pb.SubscribeResponse
}

func (s *stub) Subscribe(ctx context.Context, opts ...grpc.CallOption) (pb.GNMI_SubscribeClient, error) {
	return &stubStream{resps: s.resps}, nil
}

var lazyConn *grpc.ClientConn

// specDisplaySizes: list values of 0..8 elements (leaf-lists and JSON arrays)
// through every display type: formatting code with a fast path for "small"
// lists has its boundaries inside this range.
func specDisplaySizes() seqmc.Spec {
	alpha := []respSpec{{kind: "sync"}}
	var seqs [][]int
	for n := 0; n <= 8; n++ {
		for _, k := range []string{"leaflist", "jsonarray", "strlist"} {
			alpha = append(alpha, respSpec{"update", "a", fmt.Sprintf("%s#%d", k, n)})
			seqs = append(seqs, []int{len(alpha) - 1, 0}, []int{len(alpha) - 1, len(alpha) - 1, 0})
		}
	}
	return specDisplayOver(fmt.Sprintf("client receive + CLI display of list values with 0..8 elements (leaf-lists of ints / strings, JSON arrays): %d response sequences x 4 display types x once/poll/stream x timestamp on/off", len(seqs)), alpha, seqs)
}

func specDisplay(maxLen int) seqmc.Spec {
	alpha := respAlphabet()
	var seqs [][]int
	for i := range alpha {
		seqs = append(seqs, []int{i})
	}
	if maxLen >= 2 {
		// every response preceded / followed by a plain update and a sync
		plain := -1
		syncI := 1
		for i, a := range alpha {
			if a.kind == "update" && a.path == "a" && a.val == "int1" {
				plain = i
			}
		}
		for i := range alpha {
			seqs = append(seqs, []int{plain, i}, []int{i, syncI}, []int{plain, i, syncI}, []int{syncI, i})
			// the same response twice (a second poll of an unchanged leaf, a target
			// repeating itself): same path, same timestamp, same kind of value
			seqs = append(seqs, []int{i, i}, []int{i, i, syncI})
		}
	}
	return specDisplayOver(fmt.Sprintf("client receive + CLI display: %d response sequences x 4 display types x once/poll/stream x timestamp on/off", len(seqs)), alpha, seqs)
}

func specDisplayOver(name string, alpha []respSpec, seqs [][]int) seqmc.Spec {
	displays := []string{"group", "single", "proto", "shortproto"}
	types := []client.Type{client.Once, client.Poll, client.Stream}
	tsModes := []string{"", "on"}
	n := len(seqs) * len(displays) * len(types) * len(tsModes)
	return seqmc.Spec{Name: name, N: n, Run: func(i int) (string, bool, []seqmc.Violation) {
		tm := tsModes[i%len(tsModes)]
		i /= len(tsModes)
		qt := types[i%len(types)]
		i /= len(types)
		dt := displays[i%len(displays)]
		i /= len(displays)
		sq := seqs[i]
		var rs []*pb.SubscribeResponse
		var names []string
		for _, k := range sq {
			rs = append(rs, alpha[k].build())
			names = append(names, fmt.Sprintf("%s(%s,%s)", alpha[k].kind, alpha[k].path, alpha[k].val))
		}
		desc := fmt.Sprintf("responses=[%s] display=%s type=%v timestamp=%q", strings.Join(names, " "), dt, qt, tm)
		var vs []seqmc.Violation
		if lazyConn == nil {
			c, err := grpc.NewClient("passthrough:///none", grpc.WithTransportCredentials(insecure.NewCredentials()))
			if err != nil {
				panic(err)
			}
			lazyConn = c
		}
		client.ResetRegisteredImpls()
		client.RegisterTest("stub", func(ctx context.Context, d client.Destination) (client.Impl, error) {
			conn, err := grpc.NewClient("passthrough:///none", grpc.WithTransportCredentials(insecure.NewCredentials()))
			if err != nil {
				return nil, err
			}
			return gclient.VerifNewClientWithStub(conn, &stub{resps: rs}), nil
		})
		shown := 0
		cfg := &cli.Config{Display: func(b []byte) { shown++ }, DisplayType: dt, Count: 1, Timestamp: tm, Delimiter: "/", DisplayIndent: " ", ClientTypes: []string{"stub"}}
		q := client.Query{Addrs: []string{"x"}, Target: "t", Type: qt, Queries: []client.Path{{"*"}}}
		ctx, cancel := context.WithTimeout(context.Background(), 300*time.Second)
		defer cancel()
		var err error
		guard("cli.QueryDisplay", &vs, func() string { return desc }, func() { err = cli.QueryDisplay(ctx, q, cfg) })
		if errors.Is(err, context.DeadlineExceeded) {
			vs = append(vs, seqmc.Violation{Class: "display-hang", Msg: desc + " did not finish"})
		}
		return desc, err != nil || shown > 0, vs
	}}
}

// specDisplayHistories: a client view that is displayed, changed by the peer,
// displayed again, changed again and displayed a third time (a POLL client
// showing every round, a STREAM client showing at every sync): what the first
// display left behind in the client's tree (sorted orders, cached paths) meets
// deletes with wildcards at every position, updates below a leaf and above
// leaves. base = four leaves on two levels.
func specDisplayHistories() seqmc.Spec {
	base := []respSpec{{"update", "a/x", "int1"}, {"update", "b/x", "int1"}, {"update", "b/y", "str"}, {"update", "c", "leaflist"}}
	muts := []respSpec{
		{"delete", "*/x", ""}, {"delete", "a/*", ""}, {"delete", "*", ""}, {"delete", "b/x", ""}, {"delete", "*/*", ""}, {"delete", "a", ""}, {"delete", "<empty>", ""}, {"delete", "*/y", ""},
		{"update", "a/x/deep", "int1"}, {"update", "b", "int2"}, {"update", "d/x", "str"}, {"update", "a/x", "int2"},
	}
	displays := []string{"group", "single"}
	types := []client.Type{client.Poll, client.Stream}
	n := len(muts) * len(muts) * len(displays) * len(types)
	return seqmc.Spec{Name: fmt.Sprintf("display histories: 4 leaves shown, then every pair of %d deletes/updates (wildcards at every position) each followed by another display, group/single x poll/stream", len(muts)), N: n, Run: func(i int) (string, bool, []seqmc.Violation) {
		qt := types[i%len(types)]
		i /= len(types)
		dt := displays[i%len(displays)]
		i /= len(displays)
		m1, m2 := muts[i/len(muts)], muts[i%len(muts)]
		syncR := respSpec{kind: "sync"}
		var rs []*pb.SubscribeResponse
		for _, b := range base {
			rs = append(rs, b.build())
		}
		rs = append(rs, syncR.build(), m1.build(), syncR.build(), m2.build(), syncR.build())
		desc := fmt.Sprintf("display history: a/x b/x b/y c; sync; %s(%s); sync; %s(%s); sync display=%s type=%v", m1.kind, m1.path, m2.kind, m2.path, dt, qt)
		var vs []seqmc.Violation
		client.ResetRegisteredImpls()
		client.RegisterTest("stub", func(ctx context.Context, d client.Destination) (client.Impl, error) {
			conn, err := grpc.NewClient("passthrough:///none", grpc.WithTransportCredentials(insecure.NewCredentials()))
			if err != nil {
				return nil, err
			}
			return gclient.VerifNewClientWithStub(conn, &stub{resps: rs}), nil
		})
		shown := 0
		cfg := &cli.Config{Display: func(b []byte) { shown++ }, DisplayType: dt, Count: 3, PollingInterval: time.Nanosecond, Delimiter: "/", DisplayIndent: " ", ClientTypes: []string{"stub"}}
		q := client.Query{Addrs: []string{"x"}, Target: "t", Type: qt, Queries: []client.Path{{"*"}}}
		ctx, cancel := context.WithTimeout(context.Background(), 300*time.Second)
		defer cancel()
		var err error
		guard("cli.QueryDisplay", &vs, func() string { return desc }, func() { err = cli.QueryDisplay(ctx, q, cfg) })
		if errors.Is(err, context.DeadlineExceeded) {
			vs = append(vs, seqmc.Violation{Class: "display-hang", Msg: desc + " did not finish"})
		}
		return desc, shown > 1, vs
	}}
}

// specResubscribe: one client object used for several sessions (what
// client.Reconnect does after every broken stream, and what an application
// does when it re-subscribes): each session's responses are a sequence of <=2
// over {update, sync, delete}; two and three sessions; once/poll/stream.
// Oracle: no panic, and the LAST session behaves on the reused client exactly
// as on a fresh client given the same responses (returned error, number of
// notifications handed to the application).
func specResubscribe() seqmc.Spec {
	alpha := []respSpec{{"update", "a", "int1"}, {kind: "sync"}, {"delete", "a", ""}}
	var segs [][]int
	segs = append(segs, []int{})
	for i := range alpha {
		segs = append(segs, []int{i})
		for j := range alpha {
			segs = append(segs, []int{i, j})
		}
	}
	types := []client.Type{client.Once, client.Poll, client.Stream}
	var hist [][]int // indices into segs
	for a := range segs {
		for b := range segs {
			hist = append(hist, []int{a, b})
			for c := range segs {
				if len(segs[a])+len(segs[b])+len(segs[c]) <= 4 {
					hist = append(hist, []int{a, b, c})
				}
			}
		}
	}
	n := len(hist) * len(types)
	return seqmc.Spec{Name: fmt.Sprintf("re-subscribing one client object: %d histories of 2-3 sessions (each <=2 responses over update/sync/delete) x once/poll/stream, last session compared with a fresh client", len(hist)), N: n, Run: func(i int) (string, bool, []seqmc.Violation) {
		qt := types[i%len(types)]
		h := hist[i/len(types)]
		var names []string
		for _, si := range h {
			var ns []string
			for _, k := range segs[si] {
				ns = append(ns, alpha[k].kind)
			}
			names = append(names, "["+strings.Join(ns, " ")+"]")
		}
		desc := fmt.Sprintf("sessions=%s type=%v on one client object", strings.Join(names, " then "), qt)
		var vs []seqmc.Violation
		var cur []*pb.SubscribeResponse
		client.ResetRegisteredImpls()
		client.RegisterTest("stub", func(ctx context.Context, d client.Destination) (client.Impl, error) {
			conn, err := grpc.NewClient("passthrough:///none", grpc.WithTransportCredentials(insecure.NewCredentials()))
			if err != nil {
				return nil, err
			}
			return gclient.VerifNewClientWithStub(conn, &stub{resps: cur}), nil
		})
		session := func(c *client.CacheClient, si int) (string, int) {
			cur = nil
			for _, k := range segs[si] {
				cur = append(cur, alpha[k].build())
			}
			seen := 0
			q := client.Query{Addrs: []string{"x"}, Target: "t", Type: qt, Queries: []client.Path{{"*"}}, NotificationHandler: func(client.Notification) error { seen++; return nil }}
			var err error
			guard("client.Subscribe", &vs, func() string { return desc }, func() { err = c.Subscribe(context.Background(), q, "stub") })
			if qt == client.Poll && err == nil && len(vs) == 0 {
				guard("client.Poll", &vs, func() string { return desc }, func() { err = c.Poll() })
			}
			return fmt.Sprint(err), seen
		}
		reused := client.New()
		var gotErr string
		var gotSeen int
		for _, si := range h {
			gotErr, gotSeen = session(reused, si)
			if len(vs) > 0 {
				return desc, true, vs
			}
		}
		wantErr, wantSeen := session(client.New(), h[len(h)-1])
		if len(vs) == 0 && (gotErr != wantErr || gotSeen != wantSeen) {
			vs = append(vs, seqmc.Violation{Class: "resubscribed-client-differs", Msg: fmt.Sprintf("%s: the last session on the reused client ended with %q after %d notifications; the same responses on a fresh client: %q after %d", desc, gotErr, gotSeen, wantErr, wantSeen)})
		}
		return desc, gotSeen > 0, vs
	}}
}

type harness struct{}

func (harness) Property() string { return "C12" }
func (harness) Specs(tier string) []seqmc.Spec {
	if tier == "thorough" {
		return []seqmc.Spec{
			specIngest("ingest, full grammar", states(1), grammar(true)),
			specIngest("ingest, single-part grammar", states(2), grammar(false)),
			specMetaRegistry(),
			specDisplay(2),
			specDisplayHistories(),
		specResubscribe(),
		specDisplaySizes(),
		}
	}
	return []seqmc.Spec{
		specIngest("ingest, full grammar", [][]int{{}, {0}, {1}, {3}, {6}, {10}, {12}, {4, 12}}, grammar(true)),
		specIngest("ingest, single-part grammar", states(2), grammar(false)),
		specMetaRegistry(),
		specDisplay(2),
		specDisplayHistories(),
		specResubscribe(),
		specDisplaySizes(),
	}
}

func main() { seqmc.Main(harness{}) }
