package manager

import (
	"context"

	"google.golang.org/grpc"

	gpb "github.com/openconfig/gnmi/proto/gnmi"
)

// Added by /verif through the build overlay only: lets the harness supply the
// stream factory (the package already exposes this variable to its own tests).
func VerifSetSubscribeClient(f func(ctx context.Context, conn *grpc.ClientConn) (gpb.GNMI_SubscribeClient, error)) {
	subscribeClient = f
}
