// C13 — target manager: strict per-target session discipline, retry for as
// long as the target is managed, silence after Remove. The real
// manager.Manager runs under the controlled scheduler against scripted
// sessions (dial refusal, k messages then error / EOF / silence); the backoff
// and receive-timeout timers are virtual (fired at quiescence, or early as a
// deviation); a controller issues Reconnect / Remove / Add at chosen rounds.
// A monitor automaton checks every callback.
package main

import (
	"context"
	"errors"
	"flag"
	"fmt"
	"io"
	"strings"
	"time"

	"google.golang.org/grpc"
	"google.golang.org/grpc/connectivity"
	"google.golang.org/grpc/credentials/insecure"
	"google.golang.org/grpc/metadata"

	"github.com/openconfig/gnmi/connection"
	"github.com/openconfig/gnmi/manager"
	gpb "github.com/openconfig/gnmi/proto/gnmi"
	tpb "github.com/openconfig/gnmi/proto/target"
	"github.com/openconfig/gnmi/zzverif/hutil"
	"github.com/openconfig/gnmi/zzverif/vrt"
	"github.com/openconfig/gnmi/zzverif/xplore"
)

type session struct {
	// pending: the dial never answers by itself (an address that swallows the
	// SYN, a blocking dial): it ends only when its context does
	pending bool
	refuse  bool
	msgs    string // u update, s sync, n nil-response
	end     string // err, eof, silence
}

func (s session) String() string {
	if s.pending {
		return "dial-pending"
	}
	if s.refuse {
		return "refuse"
	}
	return fmt.Sprintf("[%s]%s", s.msgs, s.end)
}

type ctl struct {
	op    string // reconnect, remove, add, adddup, removeunknown
	round int
}

type cfgData struct {
	scripts     map[string][]session // per target
	targets     []string
	ctls        []ctl
	recvTimeout bool
	rounds      int
	long        bool // one continuous outage; virtual durations are respected and the retry delays are judged
	// realConn: the manager dials through the repository's own connection.Manager
	// (package connection instrumented too) over a scripted dial function,
	// instead of the harness's stand-in for it
	realConn bool
	// sharedAddr: every target is reached through the one address "shared"
	// (two devices behind one proxy): with realConn they share ONE pooled
	// connection; the dial always succeeds
	sharedAddr bool
	// metaTimeout: the receive time-out is configured per target, in the
	// target's own Meta map ("receive_timeout"), and every Add of the target -
	// the first and the re-Add after a Remove - passes the SAME *tpb.Target
	// object, as a caller holding on to its configuration does
	metaTimeout bool
}

type harness struct{}

// -prop C16 selects the configurations in which two managed targets share one
// next hop through the repository's own connection.Manager: the manager is a
// HOLDER of pooled connections, and a holder never closes what others hold.
var prop = flag.String("prop", "C13", "property")

func (harness) Property() string { return *prop }

var sessAlpha = []session{
	{refuse: true}, {msgs: "", end: "err"}, {msgs: "u", end: "err"}, {msgs: "us", end: "eof"}, {msgs: "u", end: "silence"}, {msgs: "nu", end: "err"}, {msgs: "", end: "silence"},
}

func scriptName(s []session) string {
	var p []string
	for _, x := range s {
		p = append(p, x.String())
	}
	return strings.Join(p, ",")
}

func (harness) Configs(tier string) []xplore.Config {
	if *prop == "C16" {
		return xplore.WithReverse(configsShared(tier))
	}
	return xplore.WithReverse(configsBase(tier))
}

// configsShared: two targets behind one next hop, dialled through the
// repository's own connection.Manager; one of them goes silent (its receive
// time-out ends its session), errors out, or is removed, while the other's
// stream stays open on the shared connection.
func configsShared(tier string) []xplore.Config {
	bound := 2
	if tier == "thorough" {
		bound = 3
	}
	var out []xplore.Config
	quiet := []session{{msgs: "u", end: "silence"}}
	for _, s1 := range [][]session{{{msgs: "u", end: "silence"}}, {{msgs: "u", end: "err"}}, {{msgs: "us", end: "eof"}, {msgs: "", end: "silence"}}} {
		for _, c := range [][]ctl{nil, {{"remove", 1}}, {{"reconnect", 1}}} {
			for _, rt := range []bool{true, false} {
				out = append(out, xplore.Config{Name: fmt.Sprintf("t1=%s t2=%s share one next hop ctl=%v recvTimeout=%v realConnectionManager=true", scriptName(s1), scriptName(quiet), c, rt), Bound: bound,
					Data: cfgData{scripts: map[string][]session{"t1": s1, "t2": quiet}, targets: []string{"t1", "t2"}, ctls: c, recvTimeout: rt, rounds: 4, realConn: true, sharedAddr: true}})
			}
		}
	}
	return out
}

func configsBase(tier string) []xplore.Config {
	var out []xplore.Config
	var scripts [][]session
	for _, a := range sessAlpha {
		scripts = append(scripts, []session{a})
		for _, b := range sessAlpha {
			scripts = append(scripts, []session{a, b})
		}
	}
	var ctls [][]ctl
	ctls = append(ctls, nil, []ctl{{"adddup", 0}, {"removeunknown", 0}})
	for r := 0; r <= 2; r++ {
		ctls = append(ctls, []ctl{{"reconnect", r}}, []ctl{{"remove", r}}, []ctl{{"remove", r}, {"add", r + 1}},
			// a re-Add racing the Remove of the same name: refused as a duplicate, or accepted only once Remove completed
			[]ctl{{"remove", r}, {"addrace", r}})
	}
	bound := 2
	if tier == "thorough" {
		bound = 3
	}
	for _, sc := range scripts {
		for _, c := range ctls {
			out = append(out, xplore.Config{Name: fmt.Sprintf("t1=%s ctl=%v recvTimeout=on", scriptName(sc), c), Bound: bound,
				Data: cfgData{scripts: map[string][]session{"t1": sc}, targets: []string{"t1"}, ctls: c, recvTimeout: true, rounds: 5}})
		}
	}
	// an UNUSABLE response (empty: neither update nor sync) as the last thing the
	// target says before it goes silent - also as the very first message: the
	// silence after it is silence all the same
	for _, sc := range [][]session{{{msgs: "un", end: "silence"}}, {{msgs: "n", end: "silence"}}, {{msgs: "usn", end: "silence"}}, {{msgs: "nn", end: "silence"}, {msgs: "u", end: "silence"}}} {
		for _, c := range [][]ctl{nil, {{"reconnect", 1}}} {
			out = append(out, xplore.Config{Name: fmt.Sprintf("t1=%s ctl=%v recvTimeout=on (unusable response, then silence)", scriptName(sc), c), Bound: bound,
				Data: cfgData{scripts: map[string][]session{"t1": sc}, targets: []string{"t1"}, ctls: c, recvTimeout: true, rounds: 5}})
		}
	}
	// no receive timeout
	for _, sc := range scripts[:16] {
		out = append(out, xplore.Config{Name: fmt.Sprintf("t1=%s ctl=[] recvTimeout=off", scriptName(sc)), Bound: bound,
			Data: cfgData{scripts: map[string][]session{"t1": sc}, targets: []string{"t1"}, recvTimeout: false, rounds: 4}})
	}
	// two targets
	for _, s1 := range [][]session{{{msgs: "u", end: "err"}}, {{refuse: true}, {msgs: "us", end: "silence"}}} {
		for _, s2 := range [][]session{{{msgs: "us", end: "eof"}}, {{msgs: "", end: "silence"}}} {
			for _, c := range [][]ctl{nil, {{"remove", 1}}} {
				out = append(out, xplore.Config{Name: fmt.Sprintf("t1=%s t2=%s ctl=%v", scriptName(s1), scriptName(s2), c), Bound: bound,
					Data: cfgData{scripts: map[string][]session{"t1": s1, "t2": s2}, targets: []string{"t1", "t2"}, ctls: c, recvTimeout: true, rounds: 4}})
			}
		}
	}
	// the receive time-out configured in the target's own Meta map, the same
	// target object added again after a Remove: every incarnation's silent
	// session is ended by the time-out
	for _, sc := range [][]session{{{msgs: "u", end: "silence"}, {msgs: "u", end: "silence"}, {msgs: "u", end: "silence"}}, {{msgs: "u", end: "err"}, {msgs: "", end: "silence"}, {msgs: "u", end: "silence"}}} {
		for _, c := range [][]ctl{{{"remove", 1}, {"add", 2}}, {{"remove", 0}, {"add", 1}}, nil} {
			out = append(out, xplore.Config{Name: fmt.Sprintf("t1=%s ctl=%v receive time-out in the target's Meta, same target object re-added", scriptName(sc), c), Bound: bound,
				Data: cfgData{scripts: map[string][]session{"t1": sc}, targets: []string{"t1"}, ctls: c, recvTimeout: true, metaTimeout: true, rounds: 6}})
		}
	}
	// a dial that never answers (it ends only with its context), through the
	// harness's stand-in and through the repository's own connection.Manager:
	// Remove and Reconnect must still get through, a second target is unaffected
	pend := session{pending: true}
	for _, real := range []bool{false, true} {
		for _, sc := range [][]session{{pend}, {pend, {msgs: "u", end: "err"}}, {{msgs: "u", end: "err"}, pend}, {{refuse: true}, pend}} {
			for _, c := range [][]ctl{nil, {{"remove", 0}}, {{"remove", 1}}, {{"reconnect", 0}}, {{"reconnect", 1}}, {{"remove", 1}, {"add", 2}}} {
				out = append(out, xplore.Config{Name: fmt.Sprintf("t1=%s ctl=%v recvTimeout=on realConnectionManager=%v", scriptName(sc), c, real), Bound: bound,
					Data: cfgData{scripts: map[string][]session{"t1": sc}, targets: []string{"t1"}, ctls: c, recvTimeout: true, rounds: 5, realConn: real}})
			}
		}
		for _, c := range [][]ctl{nil, {{"remove", 1}}} {
			out = append(out, xplore.Config{Name: fmt.Sprintf("t1=dial-pending t2=[]silence ctl=%v realConnectionManager=%v", c, real), Bound: bound,
				Data: cfgData{scripts: map[string][]session{"t1": {pend}, "t2": {{msgs: "", end: "silence"}}}, targets: []string{"t1", "t2"}, ctls: c, recvTimeout: true, rounds: 4, realConn: real}})
		}
	}
	// one long continuous outage (every attempt fails at once, in either way):
	// the delays between attempts are judged. Sequential, long: default schedule
	// plus one deviation.
	n := 16
	if tier == "thorough" {
		n = 40
	}
	for _, kind := range []session{{refuse: true}, {msgs: "", end: "err"}, {msgs: "u", end: "err"}} {
		var sc []session
		for i := 0; i < n; i++ {
			sc = append(sc, kind)
		}
		out = append(out, xplore.Config{Name: fmt.Sprintf("t1=%d x %s: one long outage, retry delays judged", n, kind), Bound: 1,
			Data: cfgData{scripts: map[string][]session{"t1": sc}, targets: []string{"t1"}, recvTimeout: true, rounds: n + 2, long: true}})
	}
	return out
}

// ---- scripted environment

type event struct {
	target string
	kind   string // open, recvcall, msg, recverr, connect, update, sync, reset, connecterror, monitorerror, removed, added
	stream int
	arg    string
}

type env struct {
	d       cfgData
	log     []event
	nstream map[string]int
	vio     []xplore.Violation
	dialAt  []time.Duration // virtual time of every connection attempt (long-outage configurations)
	dialing map[string]int  // dials in flight per target
	made    []*grpc.ClientConn
	connOf  map[string]*grpc.ClientConn // the connection the target's open stream was given
}

func (e *env) add(t, kind string, stream int, arg string) {
	e.log = append(e.log, event{t, kind, stream, arg})
}

type connMgr struct{ e *env }

func (c connMgr) Connection(ctx context.Context, addr, dialer string) (*grpc.ClientConn, func(), error) {
	// the address is the target name: one next hop per target
	t := addr
	c.e.dialAt = append(c.e.dialAt, time.Duration(vrt.NowNanos()))
	// the dial is in flight: a Reconnect or Remove may land here; a dial
	// honours its context (gnmi_collector dials blocking, with a time-out)
	c.e.dialing[t]++
	defer func() { c.e.dialing[t]-- }()
	vrt.Yield()
	if err := ctx.Err(); err != nil {
		c.e.add(t, "dialaborted", -1, "")
		return nil, func() {}, err
	}
	idx := c.e.nstream[t]
	sess := c.e.sessionAt(t, idx)
	if sess.pending {
		vrt.Recv(ctx.Done())
		c.e.nstream[t]++
		c.e.add(t, "dialaborted", idx, "")
		return nil, func() {}, ctx.Err()
	}
	if sess.refuse {
		c.e.nstream[t]++
		c.e.add(t, "refused", idx, "")
		return nil, func() {}, errors.New("dial refused")
	}
	return nil, func() {}, nil
}

// dial is the scripted dial function handed to the repository's own
// connection.Manager (realConn configurations): same script, same scheduling
// points as the stand-in above; a successful dial returns a lazily created,
// never connected *grpc.ClientConn (a closeable token).
func (e *env) dial(ctx context.Context, t string, _ ...grpc.DialOption) (*grpc.ClientConn, error) {
	e.dialAt = append(e.dialAt, time.Duration(vrt.NowNanos()))
	e.dialing[t]++
	defer func() { e.dialing[t]-- }()
	vrt.Yield()
	if err := ctx.Err(); err != nil {
		e.add(t, "dialaborted", -1, "")
		return nil, err
	}
	idx := e.nstream[t]
	sess := e.sessionAt(t, idx)
	if t == "shared" {
		sess = session{} // the shared next hop always answers; scripts are per target stream
	}
	if sess.pending {
		vrt.Recv(ctx.Done())
		e.nstream[t]++
		e.add(t, "dialaborted", idx, "")
		return nil, ctx.Err()
	}
	if sess.refuse {
		e.nstream[t]++
		e.add(t, "refused", idx, "")
		return nil, errors.New("dial refused")
	}
	cc, err := grpc.NewClient("passthrough:///"+t, grpc.WithTransportCredentials(insecure.NewCredentials()))
	if err != nil {
		panic(err)
	}
	e.made = append(e.made, cc)
	return cc, nil
}

func (e *env) sessionAt(t string, i int) session {
	sc := e.d.scripts[t]
	if i < len(sc) {
		return sc[i]
	}
	return session{msgs: "", end: "silence"} // after the script: a quiet healthy stream
}

type fakeStream struct {
	grpc.ClientStream
	e    *env
	t    string
	id   int
	sess session
	pos  int
	ctx  context.Context
}

func (s *fakeStream) Send(*gpb.SubscribeRequest) error { return nil }
func (s *fakeStream) Recv() (*gpb.SubscribeResponse, error) {
	s.e.add(s.t, "recvcall", s.id, "")
	if s.pos < len(s.sess.msgs) {
		m := s.sess.msgs[s.pos]
		s.pos++
		s.e.add(s.t, "msg", s.id, string(m))
		switch m {
		case 'u':
			return &gpb.SubscribeResponse{Response: &gpb.SubscribeResponse_Update{Update: &gpb.Notification{Timestamp: int64(s.id*10 + s.pos)}}}, nil
		case 's':
			return &gpb.SubscribeResponse{Response: &gpb.SubscribeResponse_SyncResponse{SyncResponse: true}}, nil
		default:
			return &gpb.SubscribeResponse{}, nil
		}
	}
	switch s.sess.end {
	case "err":
		s.e.add(s.t, "recverr", s.id, "error")
		return nil, errors.New("stream broke")
	case "eof":
		s.e.add(s.t, "recverr", s.id, "eof")
		return nil, io.EOF
	}
	// silence: as gRPC, Recv returns when the stream's context is cancelled
	vrt.Recv(s.ctx.Done())
	s.e.add(s.t, "recverr", s.id, "cancelled")
	return nil, s.ctx.Err()
}
func (s *fakeStream) Header() (metadata.MD, error) { return nil, nil }
func (s *fakeStream) Trailer() metadata.MD         { return nil }
func (s *fakeStream) CloseSend() error             { return nil }
func (s *fakeStream) Context() context.Context     { return s.ctx }

func (harness) Run(cfg xplore.Config, ch vrt.Chooser, trace bool) (xplore.Outcome, *vrt.Result) {
	d := cfg.Data.(cfgData)
	var out xplore.Outcome
	viol := func(class, format string, a ...interface{}) {
		out.Violations = append(out.Violations, xplore.Violation{Class: class, Msg: fmt.Sprintf(format, a...)})
	}
	// in a long-outage configuration durations matter: no early expiry, no jitter
	rnd := manager.RetryRandomization
	if d.long {
		manager.RetryRandomization = 0
	}
	defer func() { manager.RetryRandomization = rnd }()
	res := vrt.Run(ch, vrt.Options{Reverse: cfg.Reverse, Trace: trace, EarlyTimers: !d.long}, func() {
		e := &env{d: d, nstream: map[string]int{}, dialing: map[string]int{}, connOf: map[string]*grpc.ClientConn{}}
		defer func() {
			for _, cc := range e.made {
				cc.Close()
			}
		}()
		manager.VerifSetSubscribeClient(func(ctx context.Context, conn *grpc.ClientConn) (gpb.GNMI_SubscribeClient, error) {
			// which target? the outgoing metadata carries nothing useful; the
			// harness tracks the target through the context value set below
			md, _ := metadata.FromOutgoingContext(ctx)
			t := md.Get(manager.Target)[0]
			id := e.nstream[t]
			e.nstream[t]++
			e.add(t, "open", id, "")
			e.connOf[t] = conn
			return &fakeStream{e: e, t: t, id: id, sess: e.sessionAt(t, id), ctx: ctx}, nil
		})
		c := manager.Config{
			Connect:           func(t string) { e.add(t, "connect", -1, "") },
			Reset:             func(t string) { e.add(t, "reset", -1, "") },
			Sync:              func(t string) { e.add(t, "sync", -1, "") },
			Update:            func(t string, n *gpb.Notification) { e.add(t, "update", -1, fmt.Sprint(n.Timestamp)) },
			ConnectError:      func(t string, err error) { e.add(t, "connecterror", -1, "") },
			MonitorError:      func(t string, err error) { e.add(t, "monitorerror", -1, "") },
			ConnectionManager: ctxConnMgr{connMgr{e}},
		}
		if d.realConn {
			cm, err := connection.NewManagerCustom(map[string]connection.Dial{connection.DEFAULT: e.dial})
			if err != nil {
				panic(err)
			}
			c.ConnectionManager = cm
		}
		if d.recvTimeout && !d.metaTimeout {
			c.ReceiveTimeout = time.Hour
		}
		m, err := manager.NewManager(c)
		if err != nil {
			panic(err)
		}
		sr := &gpb.SubscribeRequest{Request: &gpb.SubscribeRequest_Subscribe{Subscribe: &gpb.SubscriptionList{}}}
		managed := map[string]bool{}
		raceAdded := false
		tgtOf := map[string]*tpb.Target{}
		targetOf := func(t string) *tpb.Target {
			if !d.metaTimeout {
				return &tpb.Target{Addresses: []string{t}}
			}
			if tgtOf[t] == nil {
				tgtOf[t] = &tpb.Target{Addresses: []string{t}, Meta: map[string]string{"receive_timeout": "1h"}}
			}
			return tgtOf[t]
		}
		for _, t := range d.targets {
			e.add(t, "added", -1, "") // logged first: the monitor goroutine may start before Add returns
			addr := t
			if d.sharedAddr {
				addr = "shared"
			}
			tg := &tpb.Target{Addresses: []string{addr}}
			if d.metaTimeout {
				tg = targetOf(t)
			}
			if err := m.Add(t, tg, sr); err != nil {
				viol("add-refused", "Add(%s): %v", t, err)
			}
			managed[t] = true
		}
		for round := 0; round < d.rounds; round++ {
			vrt.Idle()
			// retry never silently stops: a managed target is in a session (its
			// manager thread parked in Recv) or a timer is armed for it
			// a target owns at most one timer at any quiescent moment: the backoff
			// of its retry loop, or the receive time-out of its one live stream
			// (a timer left armed by a stream that already ended would later end
			// a healthy successor for no reason)
			if n := vrt.ArmedTimers(); n > len(d.targets) && !hasRace(d.ctls) {
				viol("timers-left-armed", "round %d: %d timers are armed for %d managed target(s): a timer of a stream that already ended is still running; trace: %s", round, n, len(d.targets), e.render(d.targets[0]))
			}
			// a pooled connection is never closed while a holder has not released
			// it: a target whose stream is open (manager parked in Recv) holds the
			// connection that stream was opened on
			if d.realConn {
				for _, t := range d.targets {
					if cc := e.connOf[t]; managed[t] && e.inSession(t) && cc != nil && cc.GetState() == connectivity.Shutdown {
						viol("closed-while-held", "round %d: target %s has an open stream on a pooled connection that is already closed (somebody closed a connection other holders had not released); trace: %s", round, t, e.render(t))
					}
				}
			}
			if vrt.ArmedTimers() == 0 {
				for _, t := range d.targets {
					// silence beyond the receive time-out ends the session: a target
					// whose stream is quiet (its manager parked in Recv) with a receive
					// time-out configured owns a running time-out - on EVERY session,
					// not only the first
					if managed[t] && d.recvTimeout && e.inSession(t) && !hasRace(d.ctls) {
						viol("silent-session-never-ends", "round %d: target %s has a receive time-out configured and its stream is silent (manager parked in Recv), but no timer is armed: this silence will never end the session; parked: %v; trace: %s", round, t, vrt.ParkedInfo(), e.render(t))
					}
					if managed[t] && !e.inSession(t) && e.dialing[t] == 0 && !hasRace(d.ctls) {
						viol("retry-stopped", "round %d: target %s is managed, not in a session, and no timer is armed: retry has silently stopped; parked: %v; trace: %s", round, t, vrt.ParkedInfo(), e.render(t))
					}
				}
			}
			for _, co := range d.ctls {
				if co.round != round {
					continue
				}
				co := co
				switch co.op {
				case "remove":
					if !hasRace(d.ctls) {
						managed["t1"] = false
					}
				case "add":
					managed["t1"] = true
				}
				vrt.GoNamed("ctl-"+co.op, func() {
					switch co.op {
					case "reconnect":
						m.Reconnect("t1")
					case "remove":
						e.add("t1", "reminv", -1, "")
						if err := m.Remove("t1"); err != nil {
							viol("remove-refused", "Remove(t1): %v", err)
						}
						e.add("t1", "removed", -1, "")
					case "add":
						// wait for the removal issued in the previous round
						e.add("t1", "addinv", -1, "")
						if err := m.Add("t1", targetOf("t1"), sr); err != nil {
							viol("add-refused", "re-Add(t1) after Remove: %v", err)
							e.add("t1", "addfailed", -1, "")
						} else {
							e.add("t1", "added", -1, "")
						}
					case "addrace":
						e.add("t1", "addinv", -1, "")
						if err := m.Add("t1", &tpb.Target{Addresses: []string{"t1"}}, sr); err == nil {
							e.add("t1", "added", -1, "")
							raceAdded = true
						} else {
							e.add("t1", "addfailed", -1, "")
						}
					case "adddup":
						before := len(e.log)
						if err := m.Add("t1", &tpb.Target{Addresses: []string{"t1"}}, sr); err == nil {
							viol("duplicate-add-accepted", "adding target t1 twice was accepted")
						}
						_ = before
					case "removeunknown":
						if err := m.Remove("nosuch"); err == nil {
							viol("unknown-remove-accepted", "removing an unknown target was accepted")
						}
					}
				})
			}
			vrt.FireAny() // time passes: one armed timer expires (explorer's choice)
		}
		vrt.Idle()
		// wind down: remove what is still managed
		if hasRace(d.ctls) {
			// Remove and a racing Add both ran: the target is managed iff the Add
			// was accepted (which is only legitimate after the Remove completed)
			managed["t1"] = raceAdded
		}
		for _, t := range d.targets {
			if managed[t] {
				e.add(t, "reminv", -1, "")
				if err := m.Remove(t); err != nil {
					viol("remove-refused", "final Remove(%s): %v", t, err)
				}
				e.add(t, "removed", -1, "")
			}
		}
		vrt.Idle()
		if !vrt.AllDone() {
			viol("deadlock", "after removing every target some threads never finished: %v", vrt.ParkedInfo())
		}
		for _, t := range d.targets {
			e.check(t, viol)
		}
		if d.long {
			e.checkDelays(viol)
		}
		var ob []string
		for _, t := range d.targets {
			ob = append(ob, e.render(t))
		}
		out.Obs = strings.Join(ob, " || ")
		out.Nontrivial = true
		out.Violations = append(out.Violations, e.vio...)
	})
	if res.Aborted != "" {
		viol(hutil.AbortClass(res.Aborted, res.Panic), "%s %s", res.Aborted, strings.Join(res.Parked, "; "))
	}
	return out, res
}

func hasRace(cs []ctl) bool {
	for _, c := range cs {
		if c.op == "addrace" {
			return true
		}
	}
	return false
}

type targetKey struct{}

// ctxConnMgr tags the dial context with the target so that the stream factory
// (which only sees ctx and conn) knows which script to play.
type ctxConnMgr struct{ c connMgr }

func (c ctxConnMgr) Connection(ctx context.Context, addr, dialer string) (*grpc.ClientConn, func(), error) {
	return c.c.Connection(ctx, addr, dialer)
}

func (e *env) inSession(t string) bool {
	// last stream event of t is a recvcall without a following msg/recverr
	for i := len(e.log) - 1; i >= 0; i-- {
		ev := e.log[i]
		if ev.target != t {
			continue
		}
		switch ev.kind {
		case "recvcall":
			return true
		case "msg", "recverr", "open", "refused", "reset", "connect", "update", "sync", "connecterror", "monitorerror", "removed", "added":
			return false
		case "reminv", "addinv", "addfailed":
			continue
		}
	}
	return false
}

func (e *env) render(t string) string {
	var b strings.Builder
	for _, ev := range e.log {
		if ev.target != t || ev.kind == "recvcall" || ev.kind == "addfailed" {
			continue
		}
		switch ev.kind {
		case "reminv":
			b.WriteString("remove( ")
		case "addinv":
			b.WriteString("add( ")
		case "open":
			fmt.Fprintf(&b, "open#%d ", ev.stream)
		case "msg":
			fmt.Fprintf(&b, "msg(%s) ", ev.arg)
		case "recverr":
			fmt.Fprintf(&b, "recv=%s ", ev.arg)
		case "refused":
			fmt.Fprintf(&b, "refused#%d ", ev.stream)
		default:
			fmt.Fprintf(&b, "%s ", strings.ToUpper(ev.kind))
		}
	}
	return b.String()
}

// check runs the monitor automaton over the callback trace of target t.
//
// The harness logs "added"/"removed" after the call returned, in its own
// thread, so other threads may log in between (the first event of a new
// incarnation before "added"; a racing Add completing before the remover logs
// "removed"). Incarnations of the target are therefore tracked explicitly
// from the invocation events (addinv / reminv) as well.
// check judges the trace of one target. One point of a trace can be
// ambiguous: while a Remove and a racing Add of the same name are both in
// flight and the old incarnation has no stream open, a dial or stream opening
// may belong to the old incarnation (not cancelled yet) or be the first event
// of the new one (whose Add has not been logged as returned yet). The trace is
// accepted if it is valid under either attribution.
func (e *env) check(t string, viol func(class, format string, a ...interface{})) {
	type v struct {
		class, msg string
	}
	var first []v
	for _, guessNew := range []bool{false, true} {
		var got []v
		e.checkWith(t, guessNew, func(class, format string, a ...interface{}) {
			got = append(got, v{class, fmt.Sprintf(format, a...)})
		})
		if len(got) == 0 {
			return
		}
		if first == nil {
			first = got
		}
	}
	for _, x := range first {
		viol(x.class, "%s", x.msg)
	}
}

func (e *env) checkWith(t string, guessNew bool, viol func(class, format string, a ...interface{})) {
	type st struct {
		open, ended, connected, reset bool
		msgs                          []string // returned by Recv
		delivered                     int
	}
	var cur st
	removed := false
	addInFlight, removeInFlight := false, false
	newSinceRemInv := false // a new incarnation began after the Remove in flight was invoked
	implicitAdded := false  // a new incarnation was recognised by its first event, before "added" was logged
	bad := func(class, why string, i int) {
		viol(class, "target %s, event %d: %s\n  trace: %s", t, i, why, e.render(t))
	}
	pending := func() []string { // messages returned whose callbacks are still due
		return cur.msgs[cur.delivered:]
	}
	sessionDone := func() bool {
		return !cur.open || len(cur.msgs)+boolInt(cur.ended) == 0 || (cur.ended && cur.reset)
	}
	startIncarnation := func(i int) bool {
		if !sessionDone() {
			bad("overlapping-sessions", "a new incarnation of the target started although the previous session was not ended and Reset (Remove must complete first)", i)
			return false
		}
		cur = st{}
		removed = false
		if removeInFlight {
			newSinceRemInv = true
		}
		return true
	}
	for i, ev := range e.log {
		if ev.target != t {
			continue
		}
		switch ev.kind {
		case "addinv":
			addInFlight = true
			continue
		case "addfailed":
			addInFlight = false
			continue
		case "reminv":
			removeInFlight, newSinceRemInv = true, false
			continue
		case "added":
			addInFlight = false
			if implicitAdded {
				implicitAdded = false
				continue
			}
			if !startIncarnation(i) {
				return
			}
			continue
		case "removed":
			removeInFlight = false
			if !newSinceRemInv {
				removed = true
			}
			continue
		case "recvcall":
			continue
		}
		// first event of the incarnation created by an Add that is still in flight
		if (ev.kind == "open" || ev.kind == "refused") && addInFlight && !implicitAdded && (removed || (removeInFlight && sessionDone() && (cur.open || guessNew))) {
			if !startIncarnation(i) {
				return
			}
			implicitAdded = true
		}
		if ev.kind == "refused" {
			continue
		}
		isCallback := map[string]bool{"connect": true, "update": true, "sync": true, "reset": true, "connecterror": true, "monitorerror": true}[ev.kind]
		if removed && isCallback {
			bad("callback-after-remove", fmt.Sprintf("callback %s after Remove returned", strings.ToUpper(ev.kind)), i)
			return
		}
		switch ev.kind {
		case "open":
			if !sessionDone() {
				bad("stream-not-reset", "a new stream was opened although the previous one (on which Recv was called) was not followed by exactly one Reset", i)
				return
			}
			cur = st{open: true}
		case "msg":
			for len(pending()) > 0 && pending()[0] == "n" {
				cur.delivered++
			}
			if len(pending()) > 0 {
				bad("message-skipped", fmt.Sprintf("Recv was called again although message %q was never delivered", pending()[0]), i)
				return
			}
			cur.msgs = append(cur.msgs, ev.arg)
		case "recverr":
			cur.ended = true
		case "connect":
			if !cur.open || cur.connected || len(cur.msgs) == 0 || cur.delivered != 0 {
				bad("connect-discipline", "Connect must be the first callback of a stream and follow its first message", i)
				return
			}
			cur.connected = true
		case "update", "sync":
			for len(pending()) > 0 && pending()[0] == "n" {
				cur.delivered++
			}
			want := map[string]string{"update": "u", "sync": "s"}[ev.kind]
			if !cur.connected || cur.reset || len(pending()) == 0 || pending()[0] != want {
				bad("delivery-discipline", fmt.Sprintf("%s delivered outside a session or out of stream order", strings.ToUpper(ev.kind)), i)
				return
			}
			cur.delivered++
		case "reset":
			if !cur.open || !cur.ended || cur.reset {
				bad("reset-discipline", "Reset must follow the end of a stream, exactly once", i)
				return
			}
			cur.reset = true
		}
	}
	if cur.open && cur.ended && !cur.reset {
		viol("stream-not-reset", "target %s: the last stream ended without a Reset\n  trace: %s", t, e.render(t))
	}
}

// checkDelays judges the retry delays of one continuous outage: every attempt
// failed at once, so the time between two attempts is the delay the retry loop
// chose. "Retried with backoff": never sooner than the base delay, never later
// than the cap (no jitter in this configuration), and never sooner than after
// the previous failure of the same outage.
func (e *env) checkDelays(viol func(class, format string, a ...interface{})) {
	var ds []time.Duration
	for i := 1; i < len(e.dialAt); i++ {
		ds = append(ds, e.dialAt[i]-e.dialAt[i-1])
	}
	if len(ds) < e.d.rounds-3 {
		viol("retry-stopped", "only %d attempts in %d rounds of a continuous outage", len(e.dialAt), e.d.rounds)
		return
	}
	for i, d := range ds {
		switch {
		case d < manager.RetryBaseDelay:
			viol("backoff-too-short", "attempt %d came %v after the previous failure, the base delay is %v; delays: %v", i+2, d, manager.RetryBaseDelay, ds)
			return
		case d > manager.RetryMaxDelay:
			viol("backoff-above-cap", "attempt %d came %v after the previous failure, the cap is %v; delays: %v", i+2, d, manager.RetryMaxDelay, ds)
			return
		case i > 0 && d < ds[i-1]:
			viol("backoff-collapsed", "attempt %d came %v after a failure, the attempt before it had waited %v: the delay shrank in the middle of one outage; delays: %v", i+2, d, ds[i-1], ds)
			return
		}
	}
}

func boolInt(b bool) int {
	if b {
		return 1
	}
	return 0
}

func main() { xplore.Main(harness{}) }
