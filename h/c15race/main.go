// C15 (schedules) — the periodic metadata and size refresh run concurrently
// with a target's update stream exactly as the collector starts them: one
// stream goroutine (updates, Sync, Connect, ConnectError, Reset) and two
// refresh goroutines (UpdateMetadata, UpdateSize). Every schedule within the
// deviation bound is explored twice: plain (counter invariants at quiescence,
// no deadlock) and in a -race build whose scheduler hand-offs are hidden from
// the detector (no unsynchronised access to shared state).
package main

import (
	"errors"
	"fmt"
	"strings"
	"time"

	"github.com/openconfig/gnmi/cache"
	"github.com/openconfig/gnmi/ctree"
	"github.com/openconfig/gnmi/metadata"
	pb "github.com/openconfig/gnmi/proto/gnmi"
	"github.com/openconfig/gnmi/zzverif/hutil"
	"github.com/openconfig/gnmi/zzverif/vrt"
	"github.com/openconfig/gnmi/zzverif/xplore"
)

type cfgData struct {
	stream  []string
	refresh int // rounds of each refresh thread
	latency bool
}

type harness struct{}

func init() {
	// cache.New registers latency metadata in package-level maps of package
	// metadata and never unregisters it: register it up front so that every
	// execution of every configuration starts from the same global state.
	metadata.RegisterLatencyMetadata([]time.Duration{2 * time.Second})
}

func (harness) Property() string { return "C15" }

func (harness) Configs(tier string) []xplore.Config {
	return xplore.WithReverse(configsBase(tier))
}

func configsBase(tier string) []xplore.Config {
	scripts := [][]string{
		{"upd x", "sync", "upd x", "upd y"},
		{"sync", "upd x", "reset", "upd x"},
		{"connecterr", "connect", "upd x", "del x"},
		{"upd x", "connect", "sync", "reset"},
	}
	bound := 2
	if tier == "thorough" {
		bound = 3
		scripts = append(scripts, []string{"upd x", "sync", "upd y", "del *", "upd x", "reset", "sync", "upd x"})
	}
	var out []xplore.Config
	for _, sc := range scripts {
		for _, lat := range []bool{false, true} {
			out = append(out, xplore.Config{Name: fmt.Sprintf("stream=%v refresh=UpdateMetadata x2 || UpdateSize x2 latencyWindows=%v", sc, lat), Bound: bound, Data: cfgData{sc, 2, lat}})
		}
	}
	return out
}

func upd(t string, p string, ts, v int64) *pb.Notification {
	path := &pb.Path{}
	for _, e := range strings.Split(p, "/") {
		path.Elem = append(path.Elem, &pb.PathElem{Name: e})
	}
	return &pb.Notification{Timestamp: ts, Prefix: &pb.Path{Target: t}, Update: []*pb.Update{{Path: path, Val: &pb.TypedValue{Value: &pb.TypedValue_IntVal{IntVal: v}}}}}
}

func (harness) Run(cfg xplore.Config, ch vrt.Chooser, trace bool) (xplore.Outcome, *vrt.Result) {
	d := cfg.Data.(cfgData)
	var out xplore.Outcome
	viol := func(class, format string, a ...interface{}) {
		out.Violations = append(out.Violations, xplore.Violation{Class: class, Msg: fmt.Sprintf(format, a...)})
	}
	res := vrt.Run(ch, vrt.Options{Reverse: cfg.Reverse, Trace: trace, StartNanos: 0}, func() {
		vrt.SetNow(1_000_000)
		var opts []cache.Option
		if d.latency {
			o, err := cache.WithLatencyWindows([]string{"2s"}, time.Second)
			if err != nil {
				panic(err)
			}
			opts = append(opts, o)
		}
		c := cache.New([]string{"t"}, opts...)
		c.SetClient(func(*ctree.Leaf) {})
		vrt.GoNamed("stream", func() {
			ts := int64(100)
			for _, op := range d.stream {
				ts += 10
				vrt.Advance(time.Millisecond)
				switch {
				case strings.HasPrefix(op, "upd "):
					c.GnmiUpdate(upd("t", op[4:], ts, ts))
				case strings.HasPrefix(op, "del "):
					p := &pb.Path{Elem: []*pb.PathElem{{Name: op[4:]}}}
					c.GnmiUpdate(&pb.Notification{Timestamp: ts, Prefix: &pb.Path{Target: "t"}, Delete: []*pb.Path{p}})
				case op == "sync":
					c.Sync("t")
				case op == "connect":
					c.Connect("t")
				case op == "connecterr":
					c.ConnectError("t", errors.New("x"))
				case op == "reset":
					c.Reset("t")
				}
			}
		})
		vrt.GoNamed("meta-refresh", func() {
			for i := 0; i < d.refresh; i++ {
				c.UpdateMetadata()
			}
		})
		vrt.GoNamed("size-refresh", func() {
			for i := 0; i < d.refresh; i++ {
				c.UpdateSize()
			}
		})
		vrt.Idle()
		vrt.Join()
		if !vrt.AllDone() {
			viol("deadlock", "threads never finished: %v", vrt.ParkedInfo())
			return
		}
		// counter invariants once everything stopped
		n := int64(0)
		c.Query("t", []string{"*"}, func(p []string, _ *ctree.Leaf, _ interface{}) error {
			if len(p) > 0 && p[0] != metadata.Root {
				n++
			}
			return nil
		})
		md := c.Metadata()["t"]
		lc, _ := md.GetInt(metadata.LeafCount)
		ad, _ := md.GetInt(metadata.AddCount)
		dl, _ := md.GetInt(metadata.DelCount)
		if lc != n {
			viol("leafcount-vs-leaves", "targetLeaves=%d but %d non-metadata leaves are stored", lc, n)
		}
		if ad-dl != lc {
			viol("leafcount-vs-add-del", "targetLeaves=%d, added-deleted=%d", lc, ad-dl)
		}
		// what subscribers see: after one more refresh (everything has stopped) the
		// EXPORTED meta/ leaves carry exactly the counters the cache holds - whatever
		// landed while an earlier refresh was exporting
		c.UpdateMetadata()
		for _, name := range []string{metadata.LeafCount, metadata.AddCount, metadata.DelCount, metadata.UpdateCount, metadata.StaleCount, metadata.EmptyCount, metadata.SuppressedCount, metadata.FutureCount} {
			want, err := md.GetInt(name)
			if err != nil {
				continue
			}
			got, found := int64(0), false
			c.Query("t", metadata.Path(name), func(_ []string, _ *ctree.Leaf, v interface{}) error {
				if nn, ok := v.(*pb.Notification); ok && len(nn.Update) == 1 {
					if iv, ok := nn.Update[0].GetVal().GetValue().(*pb.TypedValue_IntVal); ok {
						got, found = iv.IntVal, true
					}
				}
				return nil
			})
			if !found || got != want {
				viol("exported-counter-stale", "after a final refresh the exported leaf %s = %d (present=%v) but the cache's counter is %d", strings.Join(metadata.Path(name), "/"), got, found, want)
			}
		}
		out.Obs = fmt.Sprintf("leaves=%d", n)
		out.Nontrivial = true
	})
	if res.Aborted != "" {
		viol(hutil.AbortClass(res.Aborted, res.Panic), "%s %s", res.Aborted, strings.Join(res.Parked, "; "))
	}
	return out, res
}

func main() { xplore.Main(harness{}) }
