// C16 — shared gRPC connections are reference-counted correctly.
// The real connection.Manager under the controlled scheduler; dial functions
// are harness fakes whose outcome (success / error / slow-success /
// slow-error, all honouring cancellation) is an enumerated environment choice
// (each non-default answer is a deviation); requesters, a canceller and the
// in-flight dial goroutines are interleaved exhaustively within the bound.
package main

import (
	"context"
	"errors"
	"fmt"
	"strings"
	"time"

	"google.golang.org/grpc"
	"google.golang.org/grpc/connectivity"
	"google.golang.org/grpc/credentials/insecure"
	"google.golang.org/grpc/resolver/manual"

	"github.com/openconfig/gnmi/connection"
	"github.com/openconfig/gnmi/zzverif/hutil"
	"github.com/openconfig/gnmi/zzverif/vcontext"
	"github.com/openconfig/gnmi/zzverif/vrt"
	"github.com/openconfig/gnmi/zzverif/xplore"
)

type cfgData struct {
	addrs     []string // one requester per entry
	canceller bool
	rounds    int
	// concRelease: the two releases of one handle are issued from two
	// goroutines at once instead of one after the other
	concRelease bool
	// breaks: the connection handed to the first requester stops working
	// (reports TRANSIENT_FAILURE) while it is held; later requesters arrive
	breaks bool
	// forcedSlow: the first n dials are slow (they complete only once everybody
	// is parked) without that costing a deviation: a burst of dials to distinct
	// addresses in flight while further requesters arrive
	forcedSlow int
}

type harness struct{}

func (harness) Property() string { return "C16" }

func (harness) Configs(tier string) []xplore.Config {
	return xplore.WithReverse(configsBase(tier))
}

func configsBase(tier string) []xplore.Config {
	var out []xplore.Config
	bound := 3
	if tier == "thorough" {
		bound = 4
	}
	sets := [][]string{{"A", "A"}, {"A", "B"}, {"A", "A", "A"}, {"A", "A", "B"}}
	for _, s := range sets {
		for _, c := range []bool{false, true} {
			out = append(out, xplore.Config{Name: fmt.Sprintf("requesters=%v canceller=%v rounds=1", s, c), Bound: bound, Data: cfgData{addrs: s, canceller: c, rounds: 1}})
		}
	}
	for _, s := range sets[:3] {
		out = append(out, xplore.Config{Name: fmt.Sprintf("requesters=%v concurrent double release", s), Bound: bound, Data: cfgData{addrs: s, rounds: 1, concRelease: true}})
	}
	// a requester naming a dialer the manager does not have ("A!"): its request
	// fails without a dial, requesters that joined it share that failure, the
	// entry is forgotten and the next request dials
	for _, s := range [][]string{{"A!", "A"}, {"A", "A!", "A"}, {"A!", "B"}} {
		out = append(out, xplore.Config{Name: fmt.Sprintf("requesters=%v (! = unknown dialer) rounds=2", s), Bound: bound, Data: cfgData{addrs: s, rounds: 2}})
	}
	// a requester going through a second REGISTERED dialer ("A@" = address A
	// through dialer "tun"): whatever the manager keys its entries by, request
	// and release have to agree on it - the statement's clauses (never closed
	// while held, closed and forgotten on the last release) hold for every holder
	for _, s := range [][]string{{"A@"}, {"A@", "A"}, {"A", "A@"}, {"A@", "A@"}, {"A@", "B"}, {"A", "A@", "A"}} {
		for _, r := range []int{1, 2} {
			out = append(out, xplore.Config{Name: fmt.Sprintf("requesters=%v (@ = through a second registered dialer) rounds=%d", s, r), Bound: bound - 1, Data: cfgData{addrs: s, rounds: r}})
		}
	}
	// the health of a connection that is held is the holder's business: a
	// connection that stops working while held stays the holders' connection
	for _, s := range [][]string{{"A", "A"}, {"A", "A", "A"}, {"A", "A", "B"}} {
		out = append(out, xplore.Config{Name: fmt.Sprintf("requesters=%v, the held connection breaks before the others arrive", s), Bound: bound - 1, Data: cfgData{addrs: s, rounds: 1, breaks: true}})
	}
	// a burst: three / four / five dials to distinct addresses in flight (slow)
	// while two requesters ask for one further address
	for _, n := range []int{3, 4, 5} {
		addrs := []string{"B", "C", "D", "E", "F"}[:n]
		addrs = append(append([]string{}, addrs...), "A", "A")
		out = append(out, xplore.Config{Name: fmt.Sprintf("requesters=%v, the dials of the first %d are slow and still in flight when the two requesters of A arrive", addrs, n), Bound: 1, Data: cfgData{addrs: addrs, rounds: 1, forcedSlow: n}})
	}
	rb := bound - 1
	out = append(out, xplore.Config{Name: "requesters=[A A] canceller=false rounds=2", Bound: bound, Data: cfgData{addrs: []string{"A", "A"}, rounds: 2}})
	out = append(out, xplore.Config{Name: "requesters=[A A B] canceller=true rounds=2", Bound: rb, Data: cfgData{addrs: []string{"A", "A", "B"}, canceller: true, rounds: 2}})
	return out
}

type dialRec struct {
	addr    string
	conn    *grpc.ClientConn
	err     error
	outcome int
	res     *manual.Resolver
}

// breakConn makes a connection created by the harness dialer report
// TRANSIENT_FAILURE, stably: its resolver reports an error and there is no
// address to fall back on. gRPC's own goroutines carry the state change; they
// touch nothing of the manager, the harness waits for the state (an
// environment answer, not a scheduling decision).
func breakConn(rec *dialRec) {
	rec.conn.Connect()
	rec.res.ReportError(errors.New("name resolution failed"))
	ctx, cancel := context.WithTimeout(context.Background(), 20*time.Second)
	defer cancel()
	for {
		st := rec.conn.GetState()
		if st == connectivity.TransientFailure {
			return
		}
		if !rec.conn.WaitForStateChange(ctx, st) {
			panic("harness: the connection never reported TRANSIENT_FAILURE (state " + st.String() + ")")
		}
	}
}

func (harness) Run(cfg xplore.Config, ch vrt.Chooser, trace bool) (xplore.Outcome, *vrt.Result) {
	d := cfg.Data.(cfgData)
	var out xplore.Outcome
	viol := func(class, format string, a ...interface{}) {
		out.Violations = append(out.Violations, xplore.Violation{Class: class, Msg: fmt.Sprintf(format, a...)})
	}
	var made []*grpc.ClientConn
	res := vrt.Run(ch, vrt.Options{Reverse: cfg.Reverse, Trace: trace}, func() {
		inflight := map[string]int{}
		var dials []*dialRec
		slowGate := make(chan struct{})
		dialErr := errors.New("dial refused")
		dial := func(ctx context.Context, target string, opts ...grpc.DialOption) (*grpc.ClientConn, error) {
			inflight[target]++
			if inflight[target] > 1 {
				viol("two-dials-in-flight", "%d dials in flight for address %s", inflight[target], target)
			}
			rec := &dialRec{addr: target}
			dials = append(dials, rec)
			defer func() { inflight[target]-- }()
			if len(dials) <= d.forcedSlow {
				rec.outcome = 2
			} else {
				rec.outcome = vrt.Choose(5, true) // 0 ok, 1 error, 2 slow ok, 3 slow error, 4 slow ok that does not look at its context
			}
			if rec.outcome == 4 {
				// a dialer need not observe cancellation: the connection it returns
				// after its initiator gave up still has to be closed by somebody
				vrt.Recv(slowGate)
				rec.outcome = 0
			}
			if rec.outcome >= 2 {
				switch vrt.Select(false, vrt.R(slowGate), vrt.R(ctx.Done())) {
				case 0:
					vrt.RecvNow(slowGate)
				default:
					vrt.RecvNow(ctx.Done())
					rec.err = ctx.Err()
					return nil, rec.err
				}
			}
			if rec.outcome%2 == 1 {
				rec.err = dialErr
				return nil, dialErr
			}
			dopts := []grpc.DialOption{grpc.WithTransportCredentials(insecure.NewCredentials())}
			url := "passthrough:///" + target
			if d.breaks {
				rec.res = manual.NewBuilderWithScheme("broken")
				dopts = append(dopts, grpc.WithResolvers(rec.res))
				url = "broken:///" + target
			}
			cc, err := grpc.NewClient(url, dopts...)
			if err != nil {
				panic(err)
			}
			made = append(made, cc)
			rec.conn = cc
			return cc, nil
		}
		m, err := connection.NewManagerCustom(map[string]connection.Dial{connection.DEFAULT: dial, "tun": dial})
		if err != nil {
			panic(err)
		}
		type hold struct {
			conn *grpc.ClientConn
			err  error
		}
		results := make([][]hold, len(d.addrs))
		ctxs := make([]context.Context, len(d.addrs))
		cancels := make([]func(), len(d.addrs))
		for i := range d.addrs {
			ctxs[i], cancels[i] = vcontext.WithCancel(vcontext.Background())
		}
		badDialer := map[string]bool{}
		usesBad := make([]bool, len(d.addrs))
		clean := make([]string, len(d.addrs)) // the configuration's slice is shared between executions
		usesTun := make([]bool, len(d.addrs))
		for i, a := range d.addrs {
			clean[i] = strings.TrimSuffix(strings.TrimSuffix(a, "!"), "@")
			if usesBad[i] = strings.HasSuffix(a, "!"); usesBad[i] {
				badDialer[clean[i]] = true
			}
			usesTun[i] = strings.HasSuffix(a, "@")
		}
		d.addrs = clean
		held := make(chan struct{})     // closed once requester 0 holds its connection and it has broken
		othersIn := make(chan struct{}) // closed once the other requesters have their answers
		nOthers := 0
		for i, addr := range d.addrs {
			i, addr := i, addr
			dialer := connection.DEFAULT
			if usesBad[i] {
				dialer = "no-such-dialer"
			}
			if usesTun[i] {
				dialer = "tun"
			}
			if d.breaks {
				vrt.GoNamed(fmt.Sprintf("req%d-%s", i, addr), func() {
					if i > 0 {
						vrt.Recv(held)
					}
					conn, done, err := m.Connection(ctxs[i], addr, dialer)
					results[i] = append(results[i], hold{conn, err})
					if err != nil {
						if i == 0 {
							vrt.Close(held)
						} else if nOthers++; nOthers == len(d.addrs)-1 {
							vrt.Close(othersIn)
						}
						return
					}
					if i == 0 {
						for _, dr := range dials {
							if dr.conn == conn {
								breakConn(dr)
							}
						}
						vrt.Close(held)
						vrt.Recv(othersIn)
					} else if nOthers++; nOthers == len(d.addrs)-1 {
						vrt.Close(othersIn)
					}
					vrt.Yield()
					if conn.GetState() == connectivity.Shutdown {
						viol("closed-while-held", "the connection to %s was closed while requester %d still held it", addr, i)
					}
					done()
					vrt.Yield()
					done()
				})
				continue
			}
			vrt.GoNamed(fmt.Sprintf("req%d-%s", i, addr), func() {
				for r := 0; r < d.rounds; r++ {
					conn, done, err := m.Connection(ctxs[i], addr, dialer)
					results[i] = append(results[i], hold{conn, err})
					if err != nil {
						if conn != nil {
							viol("conn-with-error", "requester %d got both a connection and error %v", i, err)
						}
						done() // no effect
						continue
					}
					if conn == nil {
						viol("nil-conn", "requester %d got neither connection nor error", i)
						continue
					}
					if conn.GetState() == connectivity.Shutdown {
						viol("closed-while-held", "requester %d was handed a connection to %s that is already closed", i, addr)
					}
					vrt.Yield() // "use"
					if conn.GetState() == connectivity.Shutdown {
						viol("closed-while-held", "the connection to %s was closed while requester %d still held it", addr, i)
					}
					if d.concRelease {
						vrt.GoNamed(fmt.Sprintf("req%d-second-release", i), done)
						done()
						continue
					}
					done()
					done() // releasing twice has no effect
				}
			})
		}
		if d.canceller {
			vrt.GoNamed("canceller", func() { cancels[0]() })
		}
		vrt.Idle()
		vrt.Close(slowGate) // in-flight slow dials complete now
		vrt.Idle()
		if !vrt.AllDone() {
			viol("deadlock", "threads never finished: %v", vrt.ParkedInfo())
			return
		}
		// joiners of one dial share its outcome: every result of a requester is
		// the conn/error of SOME dial for its address
		for i, rs := range results {
			for _, h := range rs {
				ok := false
				for _, dr := range dials {
					if dr.addr != d.addrs[i] {
						continue
					}
					if h.err == nil && dr.conn == h.conn && h.conn != nil {
						ok = true
					}
					if h.err != nil && dr.err != nil && (h.err == dr.err || errors.Is(h.err, context.Canceled)) {
						ok = true
					}
				}
				if h.err != nil && errors.Is(h.err, context.Canceled) {
					ok = true // refused up front because the caller's context was already cancelled
				}
				if h.err != nil && badDialer[d.addrs[i]] && strings.Contains(h.err.Error(), "no such dialer") {
					ok = true // created, or joined, by a requester naming an unknown dialer
				}
				if !ok {
					viol("result-not-from-a-dial", "requester %d (%s) got (%p, %v) which no dial produced", i, d.addrs[i], h.conn, h.err)
				}
			}
		}
		// everybody released: every connection ever dialled is closed
		for _, dr := range dials {
			if dr.conn != nil && dr.conn.GetState() != connectivity.Shutdown {
				viol("not-closed-after-last-release", "a connection to %s is still open although every holder released it", dr.addr)
			}
		}
		// ... and forgotten: the next request dials afresh
		before := len(dials)
		conn, done, err := m.Connection(vcontext.Background(), "A", connection.DEFAULT)
		if len(dials) != before+1 {
			viol("not-forgotten", "after the last release a new request for A did not dial afresh (%d dials before, %d after)", before, len(dials))
		}
		if err == nil {
			if conn.GetState() == connectivity.Shutdown {
				viol("closed-while-held", "a fresh request was handed a closed connection")
			}
			done()
			if conn.GetState() != connectivity.Shutdown {
				viol("not-closed-after-last-release", "the fresh connection is still open after its only holder released it")
			}
		}
		var ob []string
		for _, rs := range results {
			for _, h := range rs {
				ob = append(ob, fmt.Sprint(h.err))
			}
		}
		out.Obs = fmt.Sprintf("dials=%d %s", len(dials), strings.Join(ob, ","))
		out.Nontrivial = len(dials) < len(d.addrs)*d.rounds+1
	})
	for _, cc := range made {
		cc.Close()
	}
	if res.Aborted != "" {
		viol(hutil.AbortClass(res.Aborted, res.Panic), "%s %s", res.Aborted, strings.Join(res.Parked, "; "))
	}
	return out, res
}

func main() { xplore.Main(harness{}) }
