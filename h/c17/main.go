// C17 — target config loads are monotonic and announced as exact diffs.
// BFS over accepted configurations as states x every load of the universe
// (valid and invalid shapes, lower/equal/higher revisions) until the state
// graph closes: the verdict holds for load sequences of any length over the
// universe. Oracle: rejected => error, Current() unchanged, no handler call;
// accepted => replaying the recorded Add/Update/Delete calls on the replica of
// the previous state yields exactly the new configuration's targets with
// their resolved requests, one call per changed target, none for unchanged.
package main

import (
	"fmt"
	"math"
	"sort"
	"strings"

	"google.golang.org/protobuf/proto"

	gpb "github.com/openconfig/gnmi/proto/gnmi"
	gext "github.com/openconfig/gnmi/proto/gnmi_ext"
	tpb "github.com/openconfig/gnmi/proto/target"
	"github.com/openconfig/gnmi/target"
	"github.com/openconfig/gnmi/zzverif/seqmc"
)

type loadOp struct {
	name string
	cfg  func() *tpb.Configuration // nil result = nil config
	rev  int                       // -1 lower, 0 equal, +1 higher than current
	// abs: the load carries this absolute revision instead of one relative to the current
	abs    bool
	absRev int64
}

// request: content "A+" is request "A" with a field set OUTSIDE the subscription
// list (a Depth extension on the request itself) - the same subscription, a
// different request.
func request(content string) *gpb.SubscribeRequest {
	if strings.HasSuffix(content, "+") {
		r := request(strings.TrimSuffix(content, "+"))
		r.Extension = []*gext.Extension{{Ext: &gext.Extension_Depth{Depth: &gext.Depth{Level: 2}}}}
		return r
	}
	return &gpb.SubscribeRequest{Request: &gpb.SubscribeRequest_Subscribe{Subscribe: &gpb.SubscriptionList{
		Prefix: &gpb.Path{Origin: "openconfig"},
		// a list element with three keys: maps with several entries must compare
		// equal whatever order they are iterated or serialised in
		Subscription: []*gpb.Subscription{{Path: &gpb.Path{Elem: []*gpb.PathElem{{Name: content}, {Name: "protocol", Key: map[string]string{"identifier": "BGP", "name": "bgp", "vrf": "default"}}}}}},
	}}}
}

// withExt: the universe built next also offers request r1 with content "A+"
var withExt bool

// universe: tnames are the names of the (up to three) targets; naming a target
// like a request ("r1") puts the two name spaces of a configuration in contact.
func universe(three bool, tnames ...string) []loadOp {
	if len(tnames) == 0 {
		tnames = []string{"t1", "t2", "t3"}
	}
	var ops []loadOp
	reqOpts := []string{"", "A", "B"}
	tgtOpts := []string{"", "x|r1", "x|r2", "y|r1", "y|r2"}
	t3Opts := []string{""}
	if three {
		t3Opts = tgtOpts
	}
	var shapes []loadOp
	r1Opts := reqOpts
	if withExt {
		r1Opts = append(append([]string{}, reqOpts...), "A+")
	}
	for _, r1 := range r1Opts {
		for _, r2 := range reqOpts {
			for _, t1 := range tgtOpts {
				for _, t2 := range tgtOpts {
					for _, t3 := range t3Opts {
						r1, r2, t1, t2, t3 := r1, r2, t1, t2, t3
						shapes = append(shapes, loadOp{name: fmt.Sprintf("r1=%s r2=%s t1=%s t2=%s t3=%s", r1, r2, t1, t2, t3), cfg: func() *tpb.Configuration {
							c := &tpb.Configuration{Request: map[string]*gpb.SubscribeRequest{}, Target: map[string]*tpb.Target{}}
							if r1 != "" {
								c.Request["r1"] = request(r1)
							}
							if r2 != "" {
								c.Request["r2"] = request(r2)
							}
							for n, t := range map[string]string{tnames[0]: t1, tnames[1]: t2, tnames[2]: t3} {
								if t != "" {
									p := strings.Split(t, "|")
									c.Target[n] = &tpb.Target{Addresses: []string{p[0]}, Request: p[1], Meta: map[string]string{"site": "s1", "role": "edge", "rack": "r7"}}
								}
							}
							return c
						}})
					}
				}
			}
		}
	}
	base := func() *tpb.Configuration {
		return &tpb.Configuration{Request: map[string]*gpb.SubscribeRequest{"r1": request("A")}, Target: map[string]*tpb.Target{tnames[0]: {Addresses: []string{"x"}, Request: "r1", Meta: map[string]string{"site": "s1", "role": "edge", "rack": "r7"}}}}
	}
	shapes = append(shapes,
		loadOp{name: "nil configuration", cfg: func() *tpb.Configuration { return nil }},
		loadOp{name: "invalid: empty target name", cfg: func() *tpb.Configuration {
			c := base()
			c.Target[""] = &tpb.Target{Addresses: []string{"x"}, Request: "r1"}
			return c
		}},
		loadOp{name: "invalid: nil target", cfg: func() *tpb.Configuration { c := base(); c.Target[tnames[1]] = nil; return c }},
		loadOp{name: "invalid: no address", cfg: func() *tpb.Configuration { c := base(); c.Target[tnames[1]] = &tpb.Target{Request: "r1"}; return c }},
		loadOp{name: "invalid: empty request", cfg: func() *tpb.Configuration {
			c := base()
			c.Target[tnames[1]] = &tpb.Target{Addresses: []string{"x"}}
			return c
		}},
	)
	for _, s := range shapes {
		for _, rev := range []int{-1, 0, 1} {
			o := s
			o.rev = rev
			o.name = fmt.Sprintf("%s rev%+d", s.name, rev)
			ops = append(ops, o)
		}
	}
	return ops
}

type call struct {
	kind string
	u    target.Update
	name string
}

type repEntry struct {
	tgt *tpb.Target
	req *gpb.SubscribeRequest
}

type sys struct {
	ops     []loadOp
	c       *target.Config
	calls   []call
	replica map[string]repEntry
	rev     int64
	loaded  bool
	// rejected loads since the last accepted one, by (validity, revision
	// relation): part of the canonical state, because an implementation may
	// remember a rejected load (hidden state that Current() does not show)
	rejected map[string]bool
	// share: a new configuration is built by patching the previous one - target
	// and request messages that did not change are carried over BY POINTER from
	// the configuration object loaded last (the usual way to edit a map of
	// messages); last is that object
	share bool
	last  *tpb.Configuration
	// absolute: the alphabet carries absolute revisions, so the current revision is part of the state
	absolute bool
	// lastShape: which kinds of handler calls (add / update / delete) the last
	// accepted load made. Part of the canonical state: an implementation may keep
	// derived bookkeeping that depends on what the previous load changed (a cache
	// built only by a load that added or removed nothing) and that Current()
	// does not show.
	lastShape string
	shapeKey  bool
	// histKey: the whole history of operations is the state (no merging): for
	// bookkeeping that depends on more than the previous load.
	histKey bool
	hist    []int
	// edit: read-modify-write - the caller builds every configuration by editing,
	// in place, the object Current() handed it (maps included). What Current()
	// returns belongs to the caller: editing it, and having the edit rejected,
	// changes nothing
	edit bool
}

func newSys(ops []loadOp, withBase, share bool) *sys {
	s := &sys{ops: ops, replica: map[string]repEntry{}, rev: 10, share: share}
	h := target.Handler{
		Add:    func(u target.Update) { s.calls = append(s.calls, call{kind: "add", u: u, name: u.Name}) },
		Update: func(u target.Update) { s.calls = append(s.calls, call{kind: "update", u: u, name: u.Name}) },
		Delete: func(n string) { s.calls = append(s.calls, call{kind: "delete", name: n}) },
	}
	if withBase {
		base := &tpb.Configuration{Revision: s.rev, Request: map[string]*gpb.SubscribeRequest{"r1": request("A")}, Target: map[string]*tpb.Target{"t1": {Addresses: []string{"x"}, Request: "r1", Meta: map[string]string{"site": "s1", "role": "edge", "rack": "r7"}}}}
		c, err := target.NewConfigWithBase(h, base)
		if err != nil {
			panic(err)
		}
		s.c = c
		s.loaded = true
		s.last = base
		s.replica["t1"] = repEntry{base.Target["t1"], base.Request["r1"]}
	} else {
		s.c = target.NewConfig(h)
	}
	return s
}

func vio(class, format string, a ...interface{}) []seqmc.Violation {
	return []seqmc.Violation{{Class: class, Msg: fmt.Sprintf(format, a...)}}
}

func valid(c *tpb.Configuration) bool {
	if c == nil {
		return false
	}
	for n, t := range c.Target {
		if n == "" || t == nil || len(t.Addresses) == 0 || t.Request == "" {
			return false
		}
		if _, ok := c.Request[t.Request]; !ok {
			return false
		}
	}
	return true
}

func (s *sys) Apply(i int) []seqmc.Violation {
	o := s.ops[i]
	s.hist = append(s.hist, i)
	cfg := o.cfg()
	if cfg != nil {
		cfg.Revision = s.rev + int64(o.rev)
		if o.abs {
			cfg.Revision = o.absRev
		}
	}
	higher := o.rev > 0
	if o.abs {
		higher = o.absRev > s.rev
	}
	if s.share && s.last != nil && cfg != nil {
		for n, t := range cfg.Target {
			if lt, ok := s.last.Target[n]; ok && lt != nil && proto.Equal(lt, t) {
				cfg.Target[n] = lt
			}
		}
		for n, r := range cfg.Request {
			if lr, ok := s.last.Request[n]; ok && lr != nil && proto.Equal(lr, r) {
				cfg.Request[n] = lr
			}
		}
	}
	before := s.c.Current()
	if before != nil {
		before = proto.Clone(before).(*tpb.Configuration) // the harness's own copy: what Current() hands out may be edited below
	}
	if s.edit && cfg != nil {
		if e := s.c.Current(); e != nil {
			if e.Request == nil {
				e.Request = map[string]*gpb.SubscribeRequest{}
			}
			if e.Target == nil {
				e.Target = map[string]*tpb.Target{}
			}
			for k := range e.Request {
				delete(e.Request, k)
			}
			for k := range e.Target {
				delete(e.Target, k)
			}
			for k, v := range cfg.Request {
				e.Request[k] = v
			}
			for k, v := range cfg.Target {
				e.Target[k] = v
			}
			e.Revision = cfg.Revision
			cfg = e
		}
	}
	s.calls = nil
	err := s.c.Load(cfg)
	wantOK := valid(cfg) && (!s.loaded || higher)
	if (err == nil) != wantOK {
		return vio("load-result", "Load(%s) returned %v; valid=%v, revision strictly greater than the current %d=%v, first load=%v", o.name, err, valid(cfg), s.rev, higher, !s.loaded)
	}
	after := s.c.Current()
	if err != nil {
		if s.rejected == nil {
			s.rejected = map[string]bool{}
		}
		// quick tier: only a rejected INVALID load at a strictly greater
		// revision is remembered (the only kind a later valid load at the same
		// revision can collide with); thorough: every (validity, relation) class
		if fullMemory || (!valid(cfg) && cfg != nil && o.rev > 0) {
			s.rejected[fmt.Sprintf("valid=%v rev%+d", valid(cfg), o.rev)] = true
		}
		if !proto.Equal(before, after) {
			return vio("rejected-load-changed-state", "rejected Load(%s) changed Current()", o.name)
		}
		if len(s.calls) != 0 {
			return vio("rejected-load-ran-handlers", "rejected Load(%s) ran %d handler calls", o.name, len(s.calls))
		}
		return nil
	}
	if !proto.Equal(after, cfg) {
		return vio("current-vs-loaded", "after accepted Load(%s) Current() differs from the loaded configuration", o.name)
	}
	// expected per-target view of the new configuration
	want := map[string]repEntry{}
	for n, t := range cfg.Target {
		want[n] = repEntry{t, cfg.Request[t.Request]}
	}
	// one call per changed target, none for unchanged
	seen := map[string]int{}
	for _, c := range s.calls {
		seen[c.name]++
	}
	names := map[string]bool{}
	for n := range want {
		names[n] = true
	}
	for n := range s.replica {
		names[n] = true
	}
	for n := range names {
		old, had := s.replica[n]
		nw, has := want[n]
		unchanged := had && has && proto.Equal(old.tgt, nw.tgt) && proto.Equal(old.req, nw.req)
		switch {
		case unchanged && seen[n] != 0:
			return vio("call-for-unchanged-target", "Load(%s): target %s has unchanged settings and request but %d handler calls were made", o.name, n, seen[n])
		case !unchanged && seen[n] != 1:
			return vio("calls-per-changed-target", "Load(%s): target %s changed (had=%v has=%v) but %d handler calls were made", o.name, n, had, has, seen[n])
		}
	}
	// replay the calls onto the replica
	for _, c := range s.calls {
		switch c.kind {
		case "add":
			if _, ok := s.replica[c.name]; ok {
				return vio("add-of-existing", "Load(%s): Add called for already known target %s", o.name, c.name)
			}
			s.replica[c.name] = repEntry{c.u.Target, c.u.Request}
		case "update":
			if _, ok := s.replica[c.name]; !ok {
				return vio("update-of-unknown", "Load(%s): Update called for unknown target %s", o.name, c.name)
			}
			s.replica[c.name] = repEntry{c.u.Target, c.u.Request}
		case "delete":
			if _, ok := s.replica[c.name]; !ok {
				return vio("delete-of-unknown", "Load(%s): Delete called for unknown target %s", o.name, c.name)
			}
			delete(s.replica, c.name)
		}
	}
	if len(s.replica) != len(want) {
		return vio("replica-vs-config", "Load(%s): replaying the handler calls yields targets %v, configuration has %v", o.name, keys(s.replica), keys(want))
	}
	for n, w := range want {
		r, ok := s.replica[n]
		if !ok || !proto.Equal(r.tgt, w.tgt) || !proto.Equal(r.req, w.req) {
			return vio("replica-vs-config", "Load(%s): replica of target %s = (%v, %v), configuration says (%v, %v)", o.name, n, r.tgt, r.req, w.tgt, w.req)
		}
	}
	s.rev = cfg.Revision
	s.loaded = true
	s.rejected = nil
	s.last = cfg
	kinds := map[string]bool{}
	for _, c := range s.calls {
		kinds[c.kind] = true
	}
	s.lastShape = fmt.Sprintf("add=%v update=%v delete=%v", kinds["add"], kinds["update"], kinds["delete"])
	return nil
}

func keys(m map[string]repEntry) []string {
	var k []string
	for n := range m {
		k = append(k, n)
	}
	sort.Strings(k)
	return k
}

// Key: the accepted configuration without its absolute revision (only the
// relation of a load's revision to the current one is observable).
func (s *sys) Key() string {
	if s.histKey {
		return fmt.Sprint(s.hist)
	}
	c := s.c.Current()
	if c == nil {
		var rj []string
		for k := range s.rejected {
			rj = append(rj, k)
		}
		sort.Strings(rj)
		return fmt.Sprintf("nil|%v", rj)
	}
	if !s.absolute {
		c.Revision = 0
	}
	b, _ := proto.MarshalOptions{Deterministic: true}.Marshal(c)
	var r []string
	for _, n := range keys(s.replica) {
		tb, _ := proto.MarshalOptions{Deterministic: true}.Marshal(s.replica[n].tgt)
		rb, _ := proto.MarshalOptions{Deterministic: true}.Marshal(s.replica[n].req)
		r = append(r, fmt.Sprintf("%s=%x/%x", n, tb, rb))
	}
	var rj []string
	for k := range s.rejected {
		rj = append(rj, k)
	}
	sort.Strings(rj)
	shape := ""
	if s.shapeKey || allShapes {
		shape = s.lastShape
	}
	return fmt.Sprintf("%x|%s|%v|%v|%s", b, strings.Join(r, ","), s.loaded, rj, shape)
}

var fullMemory bool

// allShapes: every spec keeps the shape of the last accepted load in its
// canonical state (thorough); quick: the plain NewConfig specs only.
var allShapes bool

type harness struct{}

func (harness) Property() string { return "C17" }

// extremes: two shapes x revisions across the whole int64 range (the gate is
// "strictly greater", for every pair of values - differences overflow)
func extremes() []loadOp {
	var ops []loadOp
	revs := []int64{math.MinInt64, -7500000000000000000, -1, 0, 1, 1790000000000000000, math.MaxInt64}
	shapes := []struct {
		name string
		f    func() *tpb.Configuration
	}{
		{"one target", func() *tpb.Configuration {
			return &tpb.Configuration{Request: map[string]*gpb.SubscribeRequest{"r1": request("A")}, Target: map[string]*tpb.Target{"t1": {Addresses: []string{"x"}, Request: "r1"}}}
		}},
		{"two targets", func() *tpb.Configuration {
			return &tpb.Configuration{Request: map[string]*gpb.SubscribeRequest{"r1": request("A")}, Target: map[string]*tpb.Target{"t1": {Addresses: []string{"y"}, Request: "r1"}, "t2": {Addresses: []string{"x"}, Request: "r1"}}}
		}},
	}
	for _, sh := range shapes {
		for _, r := range revs {
			sh, r := sh, r
			ops = append(ops, loadOp{name: fmt.Sprintf("%s revision=%d", sh.name, r), cfg: sh.f, abs: true, absRev: r})
		}
	}
	return ops
}

// extSpecOf: request r1 may also differ from itself in a field OUTSIDE its
// subscription list (an extension on the SubscribeRequest): a changed request.
func extSpecOf() seqmc.Spec {
	withExt = true
	ops := universe(false)
	withExt = false
	var names []string
	for _, o := range ops {
		names = append(names, o.name)
	}
	return seqmc.Spec{Name: "from NewConfig 2 targets, request r1 also with an extension outside its subscription list (closure)", Ops: names, Depth: 30, New: func() seqmc.Sys { fullMemory = false; return newSys(ops, false, false) }}
}

// historiesSpec: every history of <=depth ACCEPTED loads over a small universe
// (two requests with two contents each, t1 on either request, t2 absent or on
// either request; every load at the next revision), the history itself being
// the state: nothing is merged, so bookkeeping an implementation derives from
// several past loads (which requests are in use, what was compared last time)
// is exercised in every order.
func historiesSpec(depth int) seqmc.Spec {
	var ops []loadOp
	var names []string
	for _, r1 := range []string{"A", "B"} {
		for _, r2 := range []string{"A", "B"} {
			for _, t1 := range []string{"x|r1", "x|r2"} {
				for _, t2 := range []string{"", "x|r1", "x|r2"} {
					r1, r2, t1, t2 := r1, r2, t1, t2
					o := loadOp{name: fmt.Sprintf("r1=%s r2=%s t1=%s t2=%s rev+1", r1, r2, t1, t2), rev: 1, cfg: func() *tpb.Configuration {
						c := &tpb.Configuration{Request: map[string]*gpb.SubscribeRequest{"r1": request(r1), "r2": request(r2)}, Target: map[string]*tpb.Target{}}
						for n, t := range map[string]string{"t1": t1, "t2": t2} {
							if t != "" {
								p := strings.Split(t, "|")
								c.Target[n] = &tpb.Target{Addresses: []string{p[0]}, Request: p[1]}
							}
						}
						return c
					}}
					ops = append(ops, o)
					names = append(names, o.name)
				}
			}
		}
	}
	return seqmc.Spec{Name: fmt.Sprintf("every history of <=%d accepted loads over 24 configurations (2 requests x 2 contents, t1/t2 on either), the history is the state", depth), Ops: names, Depth: depth, New: func() seqmc.Sys {
		fullMemory = false
		s := newSys(ops, false, false)
		s.histKey = true
		return s
	}}
}

// manyTargetsSpec: configurations with 0, 5 or 6 targets at once (all on one
// request, or alternating between two), request contents A / B, addresses x / y:
// one load adds, updates or deletes five or six targets together (closure).
func manyTargetsSpec() seqmc.Spec {
	var ops []loadOp
	var names []string
	for _, n := range []int{0, 5, 6} {
		for _, r1 := range []string{"A", "B"} {
			for _, addr := range []string{"x", "y"} {
				for _, split := range []bool{false, true} {
					if n == 0 && (addr == "y" || split) {
						continue
					}
					n, r1, addr, split := n, r1, addr, split
					o := loadOp{name: fmt.Sprintf("%d targets at %s, r1=%s r2=A, alternating requests=%v rev+1", n, addr, r1, split), rev: 1, cfg: func() *tpb.Configuration {
						c := &tpb.Configuration{Request: map[string]*gpb.SubscribeRequest{"r1": request(r1), "r2": request("A")}, Target: map[string]*tpb.Target{}}
						for i := 1; i <= n; i++ {
							rq := "r1"
							if split && i%2 == 0 {
								rq = "r2"
							}
							c.Target[fmt.Sprintf("t%d", i)] = &tpb.Target{Addresses: []string{addr}, Request: rq}
						}
						return c
					}}
					ops = append(ops, o)
					names = append(names, o.name)
				}
			}
		}
	}
	return seqmc.Spec{Name: "configurations with 0 / 5 / 6 targets: one load adds, updates or deletes five or six targets together (closure)", Ops: names, Depth: 30, New: func() seqmc.Sys { fullMemory = false; return newSys(ops, false, false) }}
}

// metaSpec: one target whose free-form settings map (Target.meta) takes every
// shape of a small family - absent, flags with EMPTY values, the same flags
// with values, one key renamed into another, one or two entries - and whose
// address list grows, shrinks and reorders (closure).
func metaSpec() seqmc.Spec {
	metas := []map[string]string{nil, {}, {"a": ""}, {"b": ""}, {"a": "1"}, {"b": "1"}, {"a": "", "b": ""}, {"a": "", "c": ""}, {"a": "1", "b": ""}}
	addrs := [][]string{{"x"}, {"x", "y"}, {"y", "x"}}
	var ops []loadOp
	var names []string
	for mi, m := range metas {
		for _, ad := range addrs {
			m, ad := m, ad
			o := loadOp{name: fmt.Sprintf("t1 meta=%v (shape %d) addresses=%v rev+1", m, mi, ad), rev: 1, cfg: func() *tpb.Configuration {
				t := &tpb.Target{Addresses: append([]string{}, ad...), Request: "r1"}
				if m != nil {
					t.Meta = map[string]string{}
					for k, v := range m {
						t.Meta[k] = v
					}
				}
				return &tpb.Configuration{Request: map[string]*gpb.SubscribeRequest{"r1": request("A")}, Target: map[string]*tpb.Target{"t1": t}}
			}}
			ops = append(ops, o)
			names = append(names, o.name)
		}
	}
	return seqmc.Spec{Name: "one target, every shape of its settings map (absent, empty-valued flags, renamed keys, values) x address lists (closure)", Ops: names, Depth: 30, New: func() seqmc.Sys { fullMemory = false; return newSys(ops, false, false) }}
}

func (harness) Specs(tier string) []seqmc.Spec {
	ex := extremes()
	var exNames []string
	for _, o := range ex {
		exNames = append(exNames, o.name)
	}
	exSpec := seqmc.Spec{Name: "revisions across the whole int64 range (closure)", Ops: exNames, Depth: 30, New: func() seqmc.Sys {
		s := newSys(ex, false, false)
		s.absolute = true
		return s
	}}
	mk := func(label string, ops []loadOp, full bool) []seqmc.Spec {
		var names []string
		for _, o := range ops {
			names = append(names, o.name)
		}
		return []seqmc.Spec{
			{Name: "from NewConfig " + label + ", state includes what the previous load changed (closure)", Ops: names, Depth: 30, New: func() seqmc.Sys {
				fullMemory = full
				s := newSys(ops, false, false)
				s.shapeKey = true
				return s
			}},
			{Name: "from NewConfigWithBase " + label + " (closure)", Ops: names, Depth: 30, New: func() seqmc.Sys { fullMemory = full; return newSys(ops, true, false) }},
			{Name: "from NewConfig " + label + ", unchanged messages carried over by pointer (closure)", Ops: names, Depth: 30, New: func() seqmc.Sys { fullMemory = full; return newSys(ops, false, true) }},
			{Name: "from NewConfigWithBase " + label + ", unchanged messages carried over by pointer (closure)", Ops: names, Depth: 30, New: func() seqmc.Sys { fullMemory = full; return newSys(ops, true, true) }},
			{Name: "from NewConfigWithBase " + label + ", every configuration is the edited result of Current() (closure)", Ops: names, Depth: 30, New: func() seqmc.Sys {
				fullMemory = full
				s := newSys(ops, true, false)
				s.edit = true
				return s
			}},
		}
	}
	allShapes = tier == "thorough"
	if tier == "thorough" {
		// every (validity, revision relation) class of rejected loads remembered on
		// the 2-target universe; the 3-target universe with the quick memory
		sharedOps := universe(false, "r1", "r2", "t3")
		var sharedNames []string
		for _, o := range sharedOps {
			sharedNames = append(sharedNames, o.name)
		}
		sharedSpec := seqmc.Spec{Name: "from NewConfig 2 targets NAMED LIKE the requests r1, r2 (closure)", Ops: sharedNames, Depth: 30, New: func() seqmc.Sys { fullMemory = false; return newSys(sharedOps, false, false) }}
		return append(append(append(append(append(mk("2 targets, full rejected-load memory", universe(false), true), mk("3 targets", universe(true), false)...), sharedSpec), extSpecOf()), exSpec), historiesSpec(5), manyTargetsSpec(), metaSpec())
	}
	// target names that are also request names (per-device requests named after the device)
	sharedOps := universe(false, "r1", "r2", "t3")
	var sharedNames []string
	for _, o := range sharedOps {
		sharedNames = append(sharedNames, o.name)
	}
	sharedSpec := seqmc.Spec{Name: "from NewConfig 2 targets NAMED LIKE the requests r1, r2 (closure)", Ops: sharedNames, Depth: 30, New: func() seqmc.Sys { fullMemory = false; return newSys(sharedOps, false, false) }}
	return append(append(append(append(mk("2 targets", universe(false), false), sharedSpec), extSpecOf()), exSpec), historiesSpec(4), manyTargetsSpec(), metaSpec())
}

func main() { seqmc.Main(harness{}) }
