// C17, concurrent part — loads issued from several goroutines serialise: the
// accept/reject results are those of some sequential order of the loads
// consistent with real time, Current() is the accepted load with the greatest
// revision, and replaying the handler calls IN THE ORDER THEY WERE MADE onto
// the initial set yields exactly the targets and resolved requests of
// Current(). Handlers contain a scheduling point (the collector's handlers
// take the manager's locks), so a Load that ran its handlers outside the
// section that orders the loads would let a later revision's calls overtake
// an earlier one's.
package main

import (
	"fmt"
	"sort"
	"strings"

	"google.golang.org/protobuf/proto"

	gpb "github.com/openconfig/gnmi/proto/gnmi"
	tpb "github.com/openconfig/gnmi/proto/target"
	"github.com/openconfig/gnmi/target"
	"github.com/openconfig/gnmi/zzverif/hutil"
	"github.com/openconfig/gnmi/zzverif/vrt"
	"github.com/openconfig/gnmi/zzverif/xplore"
)

func request(content string) *gpb.SubscribeRequest {
	return &gpb.SubscribeRequest{Request: &gpb.SubscribeRequest_Subscribe{Subscribe: &gpb.SubscriptionList{
		Prefix:       &gpb.Path{Origin: "openconfig"},
		Subscription: []*gpb.Subscription{{Path: &gpb.Path{Elem: []*gpb.PathElem{{Name: content}}}}},
	}}}
}

// shapes: "r1content|t1|t2" with tN = "" (absent) or address
var shapes = []string{"A|x|", "A|y|x", "B|x|", "A||x", "A||", "bad"}

func build(shape string, rev int64) *tpb.Configuration {
	if shape == "bad" { // invalid: target without address
		return &tpb.Configuration{Revision: rev, Request: map[string]*gpb.SubscribeRequest{"r1": request("A")}, Target: map[string]*tpb.Target{"t1": {Request: "r1"}}}
	}
	p := strings.Split(shape, "|")
	c := &tpb.Configuration{Revision: rev, Request: map[string]*gpb.SubscribeRequest{"r1": request(p[0])}, Target: map[string]*tpb.Target{}}
	for i, n := range []string{"t1", "t2"} {
		if p[1+i] != "" {
			c.Target[n] = &tpb.Target{Addresses: []string{p[1+i]}, Request: "r1"}
		}
	}
	return c
}

type load struct {
	shape string
	rev   int64
}

type cfgData struct {
	base  bool
	progs [][]load
}

type harness struct{}

func (harness) Property() string { return "C17" }

func (harness) Configs(tier string) []xplore.Config {
	var out []xplore.Config
	add := func(base bool, progs [][]load, bound int) {
		var names []string
		for _, p := range progs {
			var s []string
			for _, l := range p {
				s = append(s, fmt.Sprintf("Load(%s rev%d)", l.shape, l.rev))
			}
			names = append(names, strings.Join(s, ";"))
		}
		out = append(out, xplore.Config{Name: fmt.Sprintf("base=%v %s", base, strings.Join(names, " || ")), Bound: bound, Data: cfgData{base, progs}})
	}
	bound := 5
	if tier == "thorough" {
		bound = 8
	}
	// two goroutines, one load each: every pair of shapes, revisions 11/12 either way round and equal
	for _, base := range []bool{false, true} {
		for _, s1 := range shapes {
			for _, s2 := range shapes {
				for _, rv := range [][2]int64{{11, 12}, {12, 11}, {11, 11}} {
					add(base, [][]load{{{s1, rv[0]}}, {{s2, rv[1]}}}, bound)
				}
			}
		}
	}
	// three goroutines / a goroutine with two loads
	sh := shapes[:4]
	if tier == "thorough" {
		sh = shapes
	}
	for _, s1 := range sh {
		for _, s2 := range sh {
			for _, s3 := range sh {
				if s1 == s2 && s2 == s3 {
					continue
				}
				add(true, [][]load{{{s1, 11}}, {{s2, 12}}, {{s3, 13}}}, bound-1)
				add(true, [][]load{{{s1, 11}, {s3, 13}}, {{s2, 12}}}, bound)
			}
		}
	}
	return out
}

type call struct {
	kind, name string
	u          target.Update
}

type repEntry struct {
	tgt *tpb.Target
	req *gpb.SubscribeRequest
}

type rec struct {
	l        load
	inv, ret int64
	thread   int
	ok       bool
}

type mstate struct {
	loaded bool
	rev    int64
}

func (m mstate) Key() string { return fmt.Sprint(m.loaded, m.rev) }

func viol(out *xplore.Outcome, class, format string, a ...interface{}) {
	out.Violations = append(out.Violations, xplore.Violation{Class: class, Msg: fmt.Sprintf(format, a...)})
}

func (harness) Run(cfg xplore.Config, ch vrt.Chooser, trace bool) (xplore.Outcome, *vrt.Result) {
	d := cfg.Data.(cfgData)
	var out xplore.Outcome
	res := vrt.Run(ch, vrt.Options{Trace: trace, FreeSwitch: true, UnlockPoints: vrt.DefaultUnlockPoints}, func() {
		var calls []call
		h := target.Handler{
			Add:    func(u target.Update) { vrt.Yield(); calls = append(calls, call{"add", u.Name, u}) },
			Update: func(u target.Update) { vrt.Yield(); calls = append(calls, call{"update", u.Name, u}) },
			Delete: func(n string) { vrt.Yield(); calls = append(calls, call{kind: "delete", name: n}) },
		}
		replica := map[string]repEntry{}
		init := mstate{}
		var c *target.Config
		if d.base {
			b := build("A|x|", 10)
			var err error
			if c, err = target.NewConfigWithBase(h, b); err != nil {
				panic(err)
			}
			replica["t1"] = repEntry{b.Target["t1"], b.Request["r1"]}
			init = mstate{true, 10}
		} else {
			c = target.NewConfig(h)
		}
		logs := make([][]rec, len(d.progs))
		for ti, prog := range d.progs {
			ti, prog := ti, prog
			vrt.GoNamed(fmt.Sprintf("loader%d", ti), func() {
				for _, l := range prog {
					r := rec{l: l, thread: ti}
					r.inv = vrt.Stamp()
					r.ok = c.Load(build(l.shape, l.rev)) == nil
					r.ret = vrt.Stamp()
					logs[ti] = append(logs[ti], r)
				}
			})
		}
		vrt.Idle()
		if !vrt.AllDone() {
			viol(&out, "deadlock", "loads never finished: %v", vrt.ParkedInfo())
			return
		}
		var all []rec
		for _, l := range logs {
			all = append(all, l...)
		}
		// (1) accept/reject results linearize against "valid and strictly greater revision"
		var ops []hutil.LOp
		var maxAccepted *rec
		for i := range all {
			r := all[i]
			if r.ok && (maxAccepted == nil || r.l.rev > maxAccepted.l.rev) {
				maxAccepted = &all[i]
			}
			ops = append(ops, hutil.LOp{Inv: r.inv, Ret: r.ret, Thread: r.thread, Name: fmt.Sprintf("Load(%s rev%d)=%v", r.l.shape, r.l.rev, r.ok), Step: func(s hutil.State) []hutil.State {
				m := s.(mstate)
				want := r.l.shape != "bad" && (!m.loaded || r.l.rev > m.rev)
				if want != r.ok {
					return nil
				}
				if r.ok {
					return []hutil.State{mstate{true, r.l.rev}}
				}
				return []hutil.State{m}
			}})
		}
		if !hutil.Linearize(ops, init) {
			viol(&out, "load-results-not-serialisable", "no sequential order of the loads explains their results: %s", hutil.RenderOps(ops))
		}
		// (2) Current() is the accepted load with the greatest revision
		cur := c.Current()
		var want *tpb.Configuration
		switch {
		case maxAccepted != nil:
			want = build(maxAccepted.l.shape, maxAccepted.l.rev)
		case d.base:
			want = build("A|x|", 10)
		}
		// two accepted loads cannot share a revision, so want is unique
		if !proto.Equal(cur, want) {
			viol(&out, "current-not-newest-accepted", "Current() = %v, newest accepted load is %v", cur, want)
		}
		// (3) replaying the handler calls in the order they were made yields Current()
		for _, cl := range calls {
			switch cl.kind {
			case "add":
				if _, ok := replica[cl.name]; ok {
					viol(&out, "add-of-existing", "Add called for already known target %s; calls: %s", cl.name, renderCalls(calls))
				}
				replica[cl.name] = repEntry{cl.u.Target, cl.u.Request}
			case "update":
				if _, ok := replica[cl.name]; !ok {
					viol(&out, "update-of-unknown", "Update called for unknown target %s; calls: %s", cl.name, renderCalls(calls))
				}
				replica[cl.name] = repEntry{cl.u.Target, cl.u.Request}
			case "delete":
				if _, ok := replica[cl.name]; !ok {
					viol(&out, "delete-of-unknown", "Delete called for unknown target %s; calls: %s", cl.name, renderCalls(calls))
				}
				delete(replica, cl.name)
			}
		}
		wantT := map[string]repEntry{}
		for n, t := range cur.GetTarget() {
			wantT[n] = repEntry{t, cur.Request[t.Request]}
		}
		bad := len(replica) != len(wantT)
		for n, w := range wantT {
			if r, ok := replica[n]; !ok || !proto.Equal(r.tgt, w.tgt) || !proto.Equal(r.req, w.req) {
				bad = true
			}
		}
		if bad {
			viol(&out, "replica-vs-config", "replaying the handler calls in call order yields %s, Current() has %s; calls: %s", renderRep(replica), renderRep(wantT), renderCalls(calls))
		}
		var rs []string
		for _, r := range all {
			rs = append(rs, fmt.Sprint(r.ok))
		}
		out.Obs = strings.Join(rs, ",") + "|" + renderCalls(calls)
		out.Nontrivial = len(calls) > 0
	})
	if res.Aborted != "" {
		viol(&out, hutil.AbortClass(res.Aborted, res.Panic), "%s %s", res.Aborted, strings.Join(res.Parked, "; "))
	}
	return out, res
}

func renderCalls(cs []call) string {
	var s []string
	for _, c := range cs {
		if c.kind == "delete" {
			s = append(s, "Delete("+c.name+")")
		} else {
			s = append(s, fmt.Sprintf("%s(%s %v %s)", c.kind, c.name, c.u.Target.GetAddresses(), c.u.Request.GetSubscribe().GetSubscription()[0].GetPath().GetElem()[0].GetName()))
		}
	}
	return strings.Join(s, " ")
}

func renderRep(m map[string]repEntry) string {
	var s []string
	for n, e := range m {
		s = append(s, fmt.Sprintf("%s=%v/%s", n, e.tgt.GetAddresses(), e.req.GetSubscribe().GetSubscription()[0].GetPath().GetElem()[0].GetName()))
	}
	sort.Strings(s)
	return "{" + strings.Join(s, " ") + "}"
}

func main() { xplore.Main(harness{}) }
