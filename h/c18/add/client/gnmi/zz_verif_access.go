package client

import (
	"github.com/openconfig/gnmi/client"
	gpb "github.com/openconfig/gnmi/proto/gnmi"
)

// Added by /verif through the build overlay only: a Client over a given
// Subscribe stream, as Subscribe leaves it after sending the request.
func VerifNewClient(sub gpb.GNMI_SubscribeClient, q client.Query) *Client {
	c := &Client{sub: sub, query: q}
	c.recv = c.defaultRecv
	c.handler = q.NotificationHandler
	return c
}
