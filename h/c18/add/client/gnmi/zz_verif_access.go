package client

import (
	"context"

	"google.golang.org/grpc"

	"github.com/openconfig/gnmi/client"
	gpb "github.com/openconfig/gnmi/proto/gnmi"
)

// Added by /verif through the build overlay only: a Client over a given
// Subscribe stream, as Subscribe leaves it after sending the request.
func VerifNewClient(sub gpb.GNMI_SubscribeClient, q client.Query) *Client {
	c := &Client{sub: sub, query: q}
	c.recv = c.defaultRecv
	c.handler = q.NotificationHandler
	return c
}

// VerifNewFromConn is NewFromConn (the constructor for callers that bring
// their own connection) with the generated gRPC client replaced by the
// harness's stand-in, so that the Subscribe stream is scripted while Close
// acts on the real connection object.
func VerifNewFromConn(ctx context.Context, conn *grpc.ClientConn, d client.Destination, stub gpb.GNMIClient) (*Client, error) {
	c, err := NewFromConn(ctx, conn, d)
	if err != nil {
		return nil, err
	}
	c.client = stub
	return c, nil
}
