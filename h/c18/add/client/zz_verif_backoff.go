package client

import "github.com/cenkalti/backoff/v4"

// VerifSetBackoffClock makes the reconnect backoff policy read the harness's
// (virtual) clock: elapsed-time limits of the policy then see the time that
// passes between backoff timers in the explored execution.
func VerifSetBackoffClock(p *ReconnectClient, c backoff.Clock) {
	p.backoff.Clock = c
	p.backoff.RandomizationFactor = 0 // the library draws from the global PRNG: not a source of nondeterminism the explorer owns
	p.backoff.Reset()                 // the policy's start time was taken from the wall clock at construction
}
