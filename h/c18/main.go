// C18 — client Subscribe/Close always terminate; reconnect keeps callback
// discipline. (a) ReconnectClient over a scripted Client, (b) ReconnectClient
// over the real BaseClient / CacheClient over a scripted Impl registered with
// RegisterTest, both under the controlled scheduler with a closer thread at
// every round and virtual backoff sleeps; (c) the real gnmi.Client receive
// path over scripted response sequences for the "Connected first" clause.
package main

import (
	"context"
	"errors"
	"fmt"
	"io"
	"strings"
	"time"

	"google.golang.org/grpc"
	"google.golang.org/grpc/connectivity"
	"google.golang.org/grpc/credentials/insecure"
	"google.golang.org/grpc/metadata"

	"github.com/openconfig/gnmi/client"
	fclient "github.com/openconfig/gnmi/client/fake"
	gclient "github.com/openconfig/gnmi/client/gnmi"
	gpb "github.com/openconfig/gnmi/proto/gnmi"
	"github.com/openconfig/gnmi/zzverif/hutil"
	"github.com/openconfig/gnmi/zzverif/vcontext"
	"github.com/openconfig/gnmi/zzverif/vrt"
	"github.com/openconfig/gnmi/zzverif/xplore"
)

type cfgData struct {
	part     string   // a, b, c
	attempts []string // a: err nil n2err park ; b: per connection "dialerr" or recv script like "nne" (n notif, e err, f eof, p park, i infinite notifications ignoring Close)
	closeAt  int      // round at which Close is issued; -1 before Subscribe; 99 never
	// ctxEnd: how the context given to Subscribe ends on its own: "" never,
	// "cancel" the caller cancels it at round 1, "deadline" it carries a
	// deadline (a virtual timer the explorer lets expire)
	ctxEnd string
	// longRun: keep letting timers expire for 60 rounds instead of 6
	longRun bool
	// closers: number of goroutines calling Close at the chosen round (default 1)
	closers int
	// closeInHandler: (part e) instead of a closer goroutine, the application's
	// own notification handler calls Close when it receives its n-th update
	// ("seen enough, stop"); 0 = off
	closeInHandler int
	// pollAt: (Poll-type query) round at which another goroutine calls Poll on
	// the reconnecting client, on a transport that has stalled; 0 = never
	pollAt int
	// badTypes: (part e) Subscribe is given this many client types whose
	// constructor fails, listed BEFORE the working one (allBad: no working one)
	badTypes int
	allBad   bool
	cache   bool   // b: CacheClient instead of BaseClient
	resps   string // c: response sequence
	qtype   client.Type
}

type harness struct{}

func (harness) Property() string { return "C18" }

func seqsOf(alpha []string, maxLen int) [][]string {
	var out [][]string
	var rec func(cur []string)
	rec = func(cur []string) {
		out = append(out, append([]string{}, cur...))
		if len(cur) == maxLen {
			return
		}
		for _, a := range alpha {
			rec(append(cur, a))
		}
	}
	rec(nil)
	return out
}

func (harness) Configs(tier string) []xplore.Config {
	return xplore.WithReverse(configsBase(tier))
}

func configsBase(tier string) []xplore.Config {
	var out []xplore.Config
	bound, maxLen := 4, 2
	if tier == "thorough" {
		bound, maxLen = 5, 3
	}
	closes := []int{-1, 0, 1, 2, 3, 99}
	for _, sc := range seqsOf([]string{"err", "nil", "n2err", "park", "parknil"}, maxLen) {
		for _, c := range closes {
			out = append(out, xplore.Config{Name: fmt.Sprintf("a: reconnect over scripted client attempts=%v closeAtRound=%d", sc, c), Bound: bound, Data: cfgData{part: "a", attempts: sc, closeAt: c}})
		}
	}
	// dialerr2 / S2: the dial / the Impl's Subscribe fails with an aggregate
	// error (one that lists several causes, as an Impl trying every address
	// of the destination would return)
	// a long outage: 40 consecutive failed attempts (well over a quarter of an
	// hour of virtual time between the backoff timers): the client, never
	// closed, must still be retrying
	var outage []string
	for i := 0; i < 40; i++ {
		outage = append(outage, "err")
	}
	out = append(out, xplore.Config{Name: "a: reconnect over scripted client: 40 failed attempts in a row (long outage), Close afterwards", Bound: 0, Data: cfgData{part: "a", attempts: outage, closeAt: 99, longRun: true}})
	// the caller's context ends by itself (cancellation or deadline), Close only afterwards
	for _, sc := range seqsOf([]string{"err", "nil", "n2err", "park", "parknil"}, maxLen) {
		for _, ce := range []string{"cancel", "deadline", "precancelled"} {
			out = append(out, xplore.Config{Name: fmt.Sprintf("a: reconnect over scripted client attempts=%v context ends by %s, Close afterwards", sc, ce), Bound: bound - 1, Data: cfgData{part: "a", attempts: sc, closeAt: 99, ctxEnd: ce}})
		}
	}
	for _, sc := range seqsOf([]string{"dialerr", "e", "nne", "np"}, maxLen) {
		for _, ce := range []string{"cancel", "deadline"} {
			out = append(out, xplore.Config{Name: fmt.Sprintf("b: reconnect over real client (cache=false) over scripted impl conns=%v context ends by %s, Close afterwards", sc, ce), Bound: bound - 1, Data: cfgData{part: "b", attempts: sc, closeAt: 99, ctxEnd: ce}})
		}
	}
	for _, sc := range seqsOf([]string{"dialerr", "e", "nne", "nf", "np", "bbbp", "dialerr2", "S2"}, maxLen) {
		for _, c := range closes {
			for _, cache := range []bool{false, true} {
				if cache && len(sc) > 1 && tier != "thorough" {
					continue
				}
				out = append(out, xplore.Config{Name: fmt.Sprintf("b: reconnect over real client (cache=%v) over scripted impl conns=%v closeAtRound=%d", cache, sc, c), Bound: bound - 1, Data: cfgData{part: "b", attempts: sc, closeAt: c, cache: cache}})
			}
		}
	}
	// two goroutines closing at once, over transports that still hold buffered messages
	for _, sc := range [][]string{{"bbbp"}, {"e", "bbbp"}, {"nbbp"}} {
		for _, c := range []int{0, 1, 2} {
			out = append(out, xplore.Config{Name: fmt.Sprintf("b: reconnect over real client (cache=false) over scripted impl conns=%v, TWO goroutines Close at round %d", sc, c), Bound: bound - 1, Data: cfgData{part: "b", attempts: sc, closeAt: c, closers: 2}})
		}
	}
	for _, sc := range [][]string{{"n2err", "park"}, {"park"}} {
		for _, c := range []int{0, 1} {
			out = append(out, xplore.Config{Name: fmt.Sprintf("a: reconnect over scripted client attempts=%v, TWO goroutines Close at round %d", sc, c), Bound: bound - 1, Data: cfgData{part: "a", attempts: sc, closeAt: c, closers: 2}})
		}
	}
	// a Poll-type query: another goroutine polls on a transport that has stalled
	// (the poll neither completes nor fails by itself), Close at that round or later
	for _, sc := range [][]string{{"park"}, {"err", "park"}} {
		for _, pa := range []int{1, 2} {
			for _, c := range []int{0, 1, 2, 99} {
				out = append(out, xplore.Config{Name: fmt.Sprintf("a: reconnect over scripted client (Poll query) attempts=%v, a Poll on a stalled transport issued at round %d, closeAtRound=%d", sc, pa-1, c), Bound: bound - 1, Data: cfgData{part: "a", attempts: sc, closeAt: c, pollAt: pa}})
			}
		}
	}
	// (c) response sequences through the real gnmi client decode
	for _, qt := range []client.Type{client.Stream, client.Once, client.Poll} {
		for _, rs := range seqsOf([]string{"u", "d", "s", "e", "x", "m"}, 3) {
			if len(rs) == 0 {
				continue
			}
			out = append(out, xplore.Config{Name: fmt.Sprintf("c: gnmi client decode type=%v responses=%v", qt, rs), Bound: 0, Data: cfgData{part: "c", resps: strings.Join(rs, ""), qtype: qt}})
		}
	}
	// (e) the real BaseClient / CacheClient used DIRECTLY (no reconnecting wrapper,
	// whose Close waits for Subscribe and so hides what the inner client does
	// after Close returned): one to three Subscribe calls in a row on the same
	// client object, a Close from another goroutine at every possible moment
	eScripts := [][]string{{"bbbp"}, {"nbp"}, {"bf", "bbbp"}, {"e", "bbbp"}, {"nf", "nbbp"}}
	if tier == "thorough" {
		eScripts = append(eScripts, []string{"bf", "e", "bbbbp"}, []string{"bbbbbp"}, []string{"f", "f", "bbp"})
	}
	for _, sc := range eScripts {
		events := 0 // transport events: one per Impl.Subscribe, one per Recv
		for _, x := range sc {
			events += 1 + len(x)
		}
		for _, cache := range []bool{false, true} {
			for at := 0; at < events; at++ {
				out = append(out, xplore.Config{Name: fmt.Sprintf("e: real client (cache=%v) used directly, Subscribe x%d over scripted impl conns=%v, Close from another goroutine started at transport event %d", cache, len(sc), sc, at), Bound: bound - 2, Data: cfgData{part: "e", attempts: sc, cache: cache, closeAt: at}})
			}
		}
	}
	// (e, continued) the other query types: a Once / Poll query whose dump is
	// interrupted by Close at every transport event
	for _, qt := range []client.Type{client.Once, client.Poll} {
		for _, sc := range [][]string{{"bbbbp"}, {"bf", "bbbp"}} {
			events := 0
			for _, x := range sc {
				events += 1 + len(x)
			}
			for at := 0; at < events; at++ {
				out = append(out, xplore.Config{Name: fmt.Sprintf("e: real client used directly, query type %v, Subscribe x%d over scripted impl conns=%v, Close from another goroutine started at transport event %d", qt, len(sc), sc, at), Bound: bound - 2, Data: cfgData{part: "e", attempts: sc, closeAt: at, qtype: qt}})
			}
		}
	}
	// (e, continued) several client types: Subscribe is given 1..5 client types
	// whose constructor fails ahead of the one that works (a target that refuses
	// the protocols tried first), or only failing ones
	for bad := 1; bad <= 5; bad++ {
		out = append(out, xplore.Config{Name: fmt.Sprintf("e: real client used directly, %d failing client types listed before the working one, conns=[bf], Close started at transport event 1", bad), Bound: bound - 2, Data: cfgData{part: "e", attempts: []string{"bf"}, closeAt: 1, badTypes: bad}})
		out = append(out, xplore.Config{Name: fmt.Sprintf("e: real client used directly, %d client types that all fail, Close afterwards", bad), Bound: bound - 2, Data: cfgData{part: "e", attempts: []string{"f"}, closeAt: 99, badTypes: bad, allBad: true}})
	}
	// (e, continued) the application's handler itself calls Close on its n-th update
	for _, sc := range [][]string{{"bbbp"}, {"nnp"}, {"bf", "bbp"}} {
		for _, cache := range []bool{false, true} {
			for _, nth := range []int{1, 2} {
				out = append(out, xplore.Config{Name: fmt.Sprintf("e: real client (cache=%v) used directly, conns=%v, the handler calls Close on update %d", cache, sc, nth), Bound: bound - 2, Data: cfgData{part: "e", attempts: sc, cache: cache, closeAt: -7, closeInHandler: nth}})
			}
		}
	}
	// (f) the real gNMI transport client built for a connection the CALLER brought
	// (NewFromConn) behind the real BaseClient / CacheClient, on a stream that
	// goes idle after 0-2 responses: Close from another goroutine at every
	// transport event; the stream ends when its context ends or its connection
	// is shut down (as gRPC streams do) - a half-close alone ends nothing
	for _, sc := range []string{"", "u", "us"} {
		for _, cache := range []bool{false, true} {
			for at := 0; at <= len(sc)+1; at++ {
				out = append(out, xplore.Config{Name: fmt.Sprintf("f: real client (cache=%v) over the real gNMI transport client on a caller-provided connection, responses=%q then idle, Close started at transport event %d", cache, sc, at), Bound: bound - 2, Data: cfgData{part: "f", resps: sc, cache: cache, closeAt: at}})
			}
		}
	}
	// (d) the fake client implementation (client/fake) behind the real BaseClient
	for _, us := range seqsOf([]string{"u1", "u2", "del", "err"}, 3) {
		out = append(out, xplore.Config{Name: fmt.Sprintf("d: fake client implementation updates=%v", us), Bound: 0, Data: cfgData{part: "d", attempts: us}})
	}
	return out
}

// vclock is the backoff policy's clock: virtual time.
type vclock struct{}

func (vclock) Now() time.Time { return vrt.Now() }

type tracer struct {
	ev []string
}

func (t *tracer) add(format string, a ...interface{}) { t.ev = append(t.ev, fmt.Sprintf(format, a...)) }
func (t *tracer) String() string                      { return strings.Join(t.ev, " ") }
func (t *tracer) count(prefix string) int {
	n := 0
	for _, e := range t.ev {
		if strings.HasPrefix(e, prefix) {
			n++
		}
	}
	return n
}

// ---- (a) scripted Client

type scriptClient struct {
	tr     *tracer
	script []string
	n      int
	closeC chan struct{}
	closed bool
	cur    context.Context // context of the attempt in progress
	// stalledPoll: Poll reads from a stream that delivers nothing (it returns
	// when the attempt's context ends or the client is closed), as a poll on a
	// stalled transport does
	stalledPoll bool
}

func (c *scriptClient) Subscribe(ctx context.Context, q client.Query, _ ...string) error {
	i := c.n
	c.n++
	c.cur = ctx
	c.tr.add("attempt#%d", i)
	defer func() {
		if ctx.Err() != nil {
			c.tr.add("end#%d/cancelled", i) // the attempt ended with its context already cancelled
		} else {
			c.tr.add("end#%d", i)
		}
	}()
	kind := "park"
	if i < len(c.script) {
		kind = c.script[i]
	}
	select {
	case <-ctx.Done():
		return ctx.Err()
	default:
	}
	if c.closed {
		return errors.New("client closed")
	}
	switch kind {
	case "err":
		return errors.New("subscribe failed")
	case "nil":
		return nil
	case "n2err":
		q.NotificationHandler(client.Update{Path: []string{"a"}, Val: i})
		q.NotificationHandler(client.Update{Path: []string{"b"}, Val: i})
		return errors.New("stream broke")
	}
	switch vrt.Select(false, vrt.R(ctx.Done()), vrt.R(c.closeC)) {
	case 0:
		vrt.RecvNow(ctx.Done())
		if kind == "parknil" {
			return nil // the stream ends cleanly once the client goes away
		}
		return ctx.Err()
	default:
		vrt.RecvNow(c.closeC)
		if kind == "parknil" {
			return nil
		}
		return errors.New("closed")
	}
}
func (c *scriptClient) Poll() error {
	if !c.stalledPoll || c.cur == nil {
		return nil
	}
	c.tr.add("poll-stalled")
	switch vrt.Select(false, vrt.R(c.cur.Done()), vrt.R(c.closeC)) {
	case 0:
		vrt.RecvNow(c.cur.Done())
		return c.cur.Err()
	default:
		vrt.RecvNow(c.closeC)
		return errors.New("closed")
	}
}
func (c *scriptClient) Close() error {
	if !c.closed {
		c.closed = true
		vrt.Close(c.closeC)
	}
	return nil
}
func (c *scriptClient) Impl() (client.Impl, error) { return nil, client.ErrClientInit }

// ---- (b) scripted Impl

type scriptImpl struct {
	tr        *tracer
	id        int
	script    string
	pos       int
	ctx       context.Context
	q         client.Query
	closeC    chan struct{}
	closed    bool
	connected bool
	closedBy  int    // thread that closed it first (part e attributes a Close to the impl it reached)
	hook      func() // part e: called at every transport event (Subscribe, each Recv)
}

// multiErr is an error that lists several causes (the shape errlist produces).
type multiErr []error

func (m multiErr) Error() string   { return fmt.Sprint([]error(m)) }
func (m multiErr) Errors() []error { return m }

func (s *scriptImpl) Subscribe(ctx context.Context, q client.Query) error {
	s.ctx, s.q = ctx, q
	if s.script == "S2" {
		s.tr.add("dialfail#%d", s.id)
		return multiErr{errors.New("address 1 unreachable"), errors.New("address 2 unreachable")}
	}
	s.tr.add("conn#%d", s.id)
	if s.hook != nil {
		s.hook()
	}
	return nil
}
func (s *scriptImpl) Recv() error {
	if s.hook != nil {
		s.hook()
	}
	k := byte('p')
	if s.pos < len(s.script) {
		k = s.script[s.pos]
	}
	s.pos++
	switch k {
	case 'n', 'b':
		if k == 'n' {
			select {
			case <-s.ctx.Done():
				// a real transport fails once its context is cancelled
				return s.ctx.Err()
			default:
			}
			if s.closed {
				return errors.New("transport closed")
			}
		}
		// 'b': an already buffered message, delivered even after Close
		if !s.sentConnected() {
			s.q.NotificationHandler(client.Connected{})
		}
		s.tr.add("recv#%d", s.id)
		vrt.Yield() // the message is "on the wire": Close may land here
		return s.q.NotificationHandler(client.Update{Path: []string{"x"}, Val: s.id})
	case 'e':
		return errors.New("stream broke")
	case 'f':
		return io.EOF
	}
	switch vrt.Select(false, vrt.R(s.ctx.Done()), vrt.R(s.closeC)) {
	case 0:
		vrt.RecvNow(s.ctx.Done())
		return s.ctx.Err()
	default:
		vrt.RecvNow(s.closeC)
		return errors.New("transport closed")
	}
}

func (s *scriptImpl) sentConnected() bool {
	if s.connected {
		return true
	}
	s.connected = true
	return false
}
func (s *scriptImpl) Close() error {
	if !s.closed {
		s.closed = true
		s.closedBy = vrt.ThreadID()
		vrt.Close(s.closeC)
	}
	return nil
}
func (s *scriptImpl) Poll() error { return nil }

// ---- (c) fake Subscribe stream for the real gnmi client

type respStream struct {
	grpc.ClientStream
	resps string
	pos   int
}

func (r *respStream) Send(*gpb.SubscribeRequest) error { return nil }
func (r *respStream) Recv() (*gpb.SubscribeResponse, error) {
	if r.pos >= len(r.resps) {
		return nil, io.EOF
	}
	k := r.resps[r.pos]
	r.pos++
	upd := func() *gpb.Update {
		return &gpb.Update{Path: &gpb.Path{Elem: []*gpb.PathElem{{Name: "a"}}}, Val: &gpb.TypedValue{Value: &gpb.TypedValue_IntVal{IntVal: int64(r.pos)}}}
	}
	switch k {
	case 'u':
		return &gpb.SubscribeResponse{Response: &gpb.SubscribeResponse_Update{Update: &gpb.Notification{Timestamp: 1, Prefix: &gpb.Path{Target: "t"}, Update: []*gpb.Update{upd()}}}}, nil
	case 'm':
		second := &gpb.Update{Path: &gpb.Path{Elem: []*gpb.PathElem{{Name: "b"}}}, Val: &gpb.TypedValue{Value: &gpb.TypedValue_IntVal{IntVal: int64(100 + r.pos)}}}
		return &gpb.SubscribeResponse{Response: &gpb.SubscribeResponse_Update{Update: &gpb.Notification{Timestamp: 1, Prefix: &gpb.Path{Target: "t"}, Update: []*gpb.Update{upd(), second}, Delete: []*gpb.Path{{Elem: []*gpb.PathElem{{Name: "z"}}}}}}}, nil
	case 'd':
		return &gpb.SubscribeResponse{Response: &gpb.SubscribeResponse_Update{Update: &gpb.Notification{Timestamp: 1, Prefix: &gpb.Path{Target: "t"}, Delete: []*gpb.Path{{Elem: []*gpb.PathElem{{Name: "a"}}}}}}}, nil
	case 's':
		return &gpb.SubscribeResponse{Response: &gpb.SubscribeResponse_SyncResponse{SyncResponse: true}}, nil
	case 'e':
		return &gpb.SubscribeResponse{Response: &gpb.SubscribeResponse_Error{Error: &gpb.Error{Message: "boom"}}}, nil
	}
	return &gpb.SubscribeResponse{}, nil // 'x': no oneof set
}
func (r *respStream) Header() (metadata.MD, error) { return nil, nil }
func (r *respStream) Trailer() metadata.MD         { return nil }
func (r *respStream) CloseSend() error             { return nil }
func (r *respStream) Context() context.Context     { return context.Background() }

func (harness) Run(cfg xplore.Config, ch vrt.Chooser, trace bool) (xplore.Outcome, *vrt.Result) {
	d := cfg.Data.(cfgData)
	var out xplore.Outcome
	viol := func(class, format string, a ...interface{}) {
		out.Violations = append(out.Violations, xplore.Violation{Class: class, Msg: fmt.Sprintf(format, a...)})
	}
	if d.part == "c" {
		return runC(d, ch, trace)
	}
	if d.part == "d" {
		return runD(d, ch, trace)
	}
	if d.part == "e" {
		return runE(cfg, d, ch, trace)
	}
	if d.part == "f" {
		return runF(cfg, d, ch, trace)
	}
	res := vrt.Run(ch, vrt.Options{Reverse: cfg.Reverse, Trace: trace, EarlyTimers: true}, func() {
		tr := &tracer{}
		var inner client.Client
		handler := func(n client.Notification) error {
			switch v := n.(type) {
			case client.Connected:
				tr.add("CONNECTED")
			case client.Update:
				tr.add("N(%v)", v.Val)
			default:
				tr.add("N?")
			}
			return nil
		}
		conns := 0
		switch d.part {
		case "a":
			inner = &scriptClient{tr: tr, script: d.attempts, closeC: make(chan struct{}), stalledPoll: d.pollAt > 0}
		case "b":
			client.ResetRegisteredImpls()
			client.RegisterTest("scripted", func(ctx context.Context, dst client.Destination) (client.Impl, error) {
				i := conns
				conns++
				sc := "p"
				if i < len(d.attempts) {
					sc = d.attempts[i]
				}
				select {
				case <-ctx.Done():
					tr.add("dialfail#%d", i)
					return nil, ctx.Err()
				default:
				}
				if sc == "dialerr" {
					tr.add("dialfail#%d", i)
					return nil, errors.New("dial failed")
				}
				if sc == "dialerr2" {
					tr.add("dialfail#%d", i)
					return nil, multiErr{errors.New("address 1 unreachable"), errors.New("address 2 unreachable")}
				}
				return &scriptImpl{tr: tr, id: i, script: sc, closeC: make(chan struct{})}, nil
			})
			if d.cache {
				inner = client.New()
			} else {
				inner = &client.BaseClient{}
			}
		}
		rc := client.Reconnect(inner, func() { tr.add("DISCONNECT") }, func() { tr.add("RESET") })
		client.VerifSetBackoffClock(rc, vclock{})
		q := client.Query{Addrs: []string{"addr"}, Target: "t", Type: client.Stream, Queries: []client.Path{{"*"}}, NotificationHandler: handler}
		if d.pollAt > 0 {
			q.Type = client.Poll
		}
		subReturned, closeReturned, closeInvoked := false, false, false
		var subErr error
		closeStarted, closeDone := 0, 0
		doClose := func() {
			closeInvoked = true
			closeStarted++
			tr.add("CLOSE")
			rc.Close()
			closeDone++
			closeReturned = closeDone == closeStarted
			tr.add("CLOSED")
		}
		if d.closeAt == -1 {
			doClose()
		}
		sctx, scancel := vcontext.Background(), func() {}
		switch d.ctxEnd {
		case "cancel":
			sctx, scancel = vcontext.WithCancel(vcontext.Background())
		case "precancelled":
			// the context is already over when Subscribe is called
			sctx, scancel = vcontext.WithCancel(vcontext.Background())
			scancel()
		case "deadline":
			sctx, scancel = vcontext.WithTimeout(vcontext.Background(), time.Hour)
		}
		defer scancel()
		vrt.GoNamed("subscribe", func() {
			subErr = rc.Subscribe(sctx, q)
			subReturned = true
			tr.add("SUBSCRIBE-RETURNED")
		})
		firesAfterClose := 0
		rounds := 6
		if d.longRun {
			rounds = 60
		}
		for round := 0; round < rounds; round++ {
			if d.pollAt > 0 && d.pollAt == round+1 {
				vrt.GoNamed("poller", func() {
					tr.add("POLL")
					err := rc.Poll()
					tr.add("POLL-RETURNED(%v)", err != nil)
				})
			}
			if d.closeAt == round {
				vrt.GoNamed("closer", doClose)
				for k := 1; k < d.closers; k++ {
					// Close is called from several goroutines at once: each of them
					// returns only when Subscribe has returned (what "after Close
					// returns" promises holds for every caller)
					vrt.GoNamed(fmt.Sprintf("closer%d", k+1), doClose)
				}
			}
			if d.ctxEnd == "cancel" && round == 1 {
				tr.add("CALLER-CANCEL")
				scancel()
			}
			vrt.Idle()
			if subReturned && (closeReturned || !closeInvoked) {
				break
			}
			if closeInvoked && closeReturned && subReturned {
				break
			}
			if vrt.ArmedTimers() > 0 {
				if closeInvoked {
					firesAfterClose++
				}
				vrt.FireAny()
			} else if closeInvoked {
				break
			}
		}
		vrt.Idle()
		if d.ctxEnd != "" {
			// every timer (the deadline included) may expire now; once the caller's
			// context has ended Subscribe returns by itself, Close is not needed
			for i := 0; i < 8 && vrt.ArmedTimers() > 0 && !subReturned; i++ {
				vrt.FireAny()
				vrt.Idle()
			}
			if sctx.Err() != nil && !subReturned {
				viol("subscribe-survives-context-end", "the context given to Subscribe ended (%v) and every timer was allowed to expire, but Subscribe did not return; parked: %v; trace: %s", sctx.Err(), vrt.ParkedInfo(), tr)
			}
		}
		if !closeInvoked {
			// never closed so far: the client must still be trying / streaming
			if subReturned && sctx.Err() == nil {
				viol("subscribe-returned-unclosed", "Subscribe returned %v although the reconnecting client was never closed; trace: %s", subErr, tr)
			}
			doClose()
			for vrt.ArmedTimers() > 0 {
				firesAfterClose++
				vrt.FireAny()
				vrt.Idle()
			}
			vrt.Idle()
		}
		// Close is idempotent: a second one, after everything settled, returns too
		secondClosed := false
		if subReturned && closeReturned {
			vrt.GoNamed("second-close", func() { rc.Close(); secondClosed = true })
			vrt.Idle()
			for i := 0; i < 4 && vrt.ArmedTimers() > 0 && !secondClosed; i++ {
				vrt.FireAny()
				vrt.Idle()
			}
			if !secondClosed {
				viol("second-close-hangs", "Subscribe and the first Close returned, but a second Close does not; parked: %v; trace: %s", vrt.ParkedInfo(), tr)
				return
			}
		}
		out.Obs = tr.String()
		out.Nontrivial = true
		if !subReturned || !closeReturned || !vrt.AllDone() {
			viol("not-terminated", "Subscribe returned=%v Close returned=%v after Close was invoked and every timer was allowed to expire; parked: %v; trace: %s", subReturned, closeReturned, vrt.ParkedInfo(), tr)
			return
		}
		if firesAfterClose > 1 {
			viol("more-than-one-backoff-interval", "%d timer expiries were needed after Close was invoked before both calls returned (at most the current backoff interval is allowed); trace: %s", firesAfterClose, tr)
		}
		checkTrace(d, tr, viol)
	})
	if res.Aborted != "" {
		viol(hutil.AbortClass(res.Aborted, res.Panic), "%s %s", res.Aborted, strings.Join(res.Parked, "; "))
	}
	return out, res
}

// checkTrace: callback discipline.
func checkTrace(d cfgData, tr *tracer, viol func(class, format string, a ...interface{})) {
	// per ended attempt exactly one DISCONNECT, RESET before each retry
	state := "start" // start -> inattempt -> ended -> disconnected -> reset -> inattempt ...
	afterClosed := 0
	cancelledEnd := false
	closedSeen := false
	connectedThisConn := false
	lastN := map[string]bool{}
	_ = lastN
	for i, e := range tr.ev {
		switch {
		case strings.HasPrefix(e, "attempt#"):
			if cancelledEnd {
				viol("retried-after-cancel", "event %d: an attempt ended with its context already cancelled (the client was closed), yet Subscribe backed off and retried instead of returning; trace: %s", i, tr)
				return
			}
			if state != "start" && state != "reset" {
				viol("retry-without-reset", "event %d: inner Subscribe retried in state %s (the reset callback must precede every retry); trace: %s", i, state, tr)
				return
			}
			state = "inattempt"
		case strings.HasPrefix(e, "end#"):
			state = "ended"
			if strings.HasSuffix(e, "/cancelled") {
				cancelledEnd = true
			}
		case strings.HasPrefix(e, "conn#"), strings.HasPrefix(e, "dialfail#"):
			// part b: the inner Subscribe call boundaries are not visible; model them
			if state == "start" || state == "reset" {
				state = "inattempt"
			}
			connectedThisConn = false
		case e == "DISCONNECT":
			if d.part == "a" && state != "ended" {
				viol("disconnect-discipline", "event %d: disconnect callback in state %s; trace: %s", i, state, tr)
				return
			}
			if d.part == "b" && state != "inattempt" && state != "start" {
				viol("disconnect-discipline", "event %d: disconnect callback in state %s (twice for one attempt?); trace: %s", i, state, tr)
				return
			}
			state = "disconnected"
		case e == "RESET":
			if state != "disconnected" {
				viol("reset-discipline", "event %d: reset callback in state %s; trace: %s", i, state, tr)
				return
			}
			state = "reset"
		case e == "CONNECTED":
			connectedThisConn = true
		case strings.HasPrefix(e, "N("):
			if d.part == "b" && !connectedThisConn {
				viol("connected-not-first", "event %d: a notification was delivered before Connected on this stream; trace: %s", i, tr)
				return
			}
			if closedSeen {
				afterClosed++
			}
		case e == "CLOSED":
			closedSeen = true
		}
	}
	if afterClosed > 1 {
		viol("notifications-after-close", "%d notifications were delivered after Close returned (at most those of one further message are allowed); trace: %s", afterClosed, tr)
	}
}

func runC(d cfgData, ch vrt.Chooser, trace bool) (xplore.Outcome, *vrt.Result) {
	var out xplore.Outcome
	var got []string
	var full []string
	q := client.Query{Addrs: []string{"a"}, Target: "t", Type: d.qtype, Queries: []client.Path{{"*"}}, NotificationHandler: func(n client.Notification) error {
		got = append(got, fmt.Sprintf("%T", n))
		switch v := n.(type) {
		case client.Update:
			full = append(full, fmt.Sprintf("U(%s=%v)", strings.Join(v.Path, "/"), v.Val))
		case client.Delete:
			full = append(full, fmt.Sprintf("D(%s)", strings.Join(v.Path, "/")))
		case client.Sync:
			full = append(full, "SYNC")
		case client.Connected:
			full = append(full, "CONNECTED")
		default:
			full = append(full, fmt.Sprintf("%T", n))
		}
		return nil
	}}
	c := gclient.VerifNewClient(&respStream{resps: d.resps}, q)
	var err error
	recvs := 0
	for err == nil && recvs < 10 {
		err = c.Recv()
		recvs++
	}
	out.Obs = strings.Join(got, ",") + fmt.Sprintf("|%v", err)
	out.Nontrivial = len(got) > 1
	// notifications reach the application in the order received: the exact
	// sequence expected for this response script
	want := []string{}
	stopped := false
	for i := 0; i < len(d.resps) && !stopped; i++ {
		if i == 0 {
			want = append(want, "CONNECTED")
		}
		pos := i + 1
		switch d.resps[i] {
		case 'u':
			want = append(want, fmt.Sprintf("U(t/a=%d)", pos))
		case 'm':
			want = append(want, fmt.Sprintf("U(t/a=%d)", pos), fmt.Sprintf("U(t/b=%d)", 100+pos), "D(t/z)")
		case 'd':
			want = append(want, "D(t/a)")
		case 's':
			want = append(want, "SYNC")
			if d.qtype == client.Once || d.qtype == client.Poll {
				stopped = true
			}
		default: // 'e', 'x': the stream ends with an error
			stopped = true
		}
	}
	if strings.Join(full, " ") != strings.Join(want, " ") {
		out.Violations = append(out.Violations, xplore.Violation{Class: "notification-sequence", Msg: fmt.Sprintf("responses %q (%v): the application received [%s], expected [%s]", d.resps, d.qtype, strings.Join(full, " "), strings.Join(want, " "))})
	}
	if len(got) > 0 && got[0] != "client.Connected" {
		out.Violations = append(out.Violations, xplore.Violation{Class: "connected-not-first", Msg: fmt.Sprintf("responses %q: first notification is %s, not Connected (%v)", d.resps, got[0], got)})
	}
	n := 0
	for _, g := range got {
		if g == "client.Connected" {
			n++
		}
	}
	if n > 1 {
		out.Violations = append(out.Violations, xplore.Violation{Class: "connected-twice", Msg: fmt.Sprintf("responses %q: Connected delivered %d times on one stream", d.resps, n)})
	}
	return out, &vrt.Result{}
}

// runD: a scripted list of updates played by client/fake through the real
// BaseClient: Connected first, the notifications in the given order up to the
// first error, Sync after the last one if no error ended the stream.
func runD(d cfgData, ch vrt.Chooser, trace bool) (xplore.Outcome, *vrt.Result) {
	var out xplore.Outcome
	var ups []interface{}
	want := []string{"CONNECTED"}
	failed := false
	for _, k := range d.attempts {
		switch k {
		case "u1":
			ups = append(ups, client.Update{Path: []string{"t", "x"}, Val: 1})
		case "u2":
			ups = append(ups, client.Update{Path: []string{"t", "y"}, Val: 2})
		case "del":
			ups = append(ups, client.Delete{Path: []string{"t", "x"}})
		case "err":
			ups = append(ups, errors.New("stream broke"))
		}
		if failed {
			continue
		}
		switch k {
		case "u1":
			want = append(want, "U(t/x=1)")
		case "u2":
			want = append(want, "U(t/y=2)")
		case "del":
			want = append(want, "D(t/x)")
		case "err":
			failed = true
		}
	}
	if !failed {
		want = append(want, "SYNC")
	}
	var got []string
	res := vrt.Run(ch, vrt.Options{Trace: trace}, func() {
		client.ResetRegisteredImpls()
		fclient.Mock("fakeimpl", ups)
		q := client.Query{Addrs: []string{"a"}, Target: "t", Type: client.Once, Queries: []client.Path{{"*"}}, NotificationHandler: func(n client.Notification) error {
			switch v := n.(type) {
			case client.Update:
				got = append(got, fmt.Sprintf("U(%s=%v)", strings.Join(v.Path, "/"), v.Val))
			case client.Delete:
				got = append(got, fmt.Sprintf("D(%s)", strings.Join(v.Path, "/")))
			case client.Sync:
				got = append(got, "SYNC")
			case client.Connected:
				got = append(got, "CONNECTED")
			default:
				got = append(got, fmt.Sprintf("%T", n))
			}
			return nil
		}}
		c := &client.BaseClient{}
		err := c.Subscribe(vcontext.Background(), q, "fakeimpl")
		if (err != nil) != failed {
			out.Violations = append(out.Violations, xplore.Violation{Class: "fake-client-status", Msg: fmt.Sprintf("updates %v: Subscribe returned %v", d.attempts, err)})
		}
		c.Close()
	})
	out.Obs = strings.Join(got, " ")
	out.Nontrivial = len(got) > 2
	if strings.Join(got, " ") != strings.Join(want, " ") {
		out.Violations = append(out.Violations, xplore.Violation{Class: "notification-sequence", Msg: fmt.Sprintf("fake client updates %v: the application received [%s], expected [%s]", d.attempts, strings.Join(got, " "), strings.Join(want, " "))})
	}
	if res.Aborted != "" {
		out.Violations = append(out.Violations, xplore.Violation{Class: hutil.AbortClass(res.Aborted, res.Panic), Msg: res.Aborted})
	}
	return out, res
}

// runE: part (e). The clause decided here is the last one of the statement -
// "after Close returns at most the notifications of one further received
// message are delivered" - on the client object applications actually hold.
// A Close is attributed to the transport it reached (the Impl whose Close it
// invoked): a Close that found no transport (ErrClientInit) or reached the
// previous, already finished one does not concern the current stream, and a
// Subscribe issued afterwards is a new subscription.
func runE(cfg xplore.Config, d cfgData, ch vrt.Chooser, trace bool) (xplore.Outcome, *vrt.Result) {
	var out xplore.Outcome
	viol := func(class, format string, a ...interface{}) {
		out.Violations = append(out.Violations, xplore.Violation{Class: class, Msg: fmt.Sprintf(format, a...)})
	}
	res := vrt.Run(ch, vrt.Options{Reverse: cfg.Reverse, Trace: trace}, func() {
		tr := &tracer{}
		var impls []*scriptImpl
		var c client.Client
		closeReturned, closeInvoked := false, false
		closerTID := -2
		events := 0
		// the closer is started AT a transport event (the explorer then moves it
		// around from there): started at the very beginning it would almost always
		// run before any transport exists
		hook := func() {
			if events++; events-1 != d.closeAt || d.closeInHandler > 0 {
				return
			}
			vrt.GoNamed("closer", func() {
				closerTID = vrt.ThreadID()
				closeInvoked = true
				tr.add("CLOSE")
				err := c.Close()
				closeReturned = true
				tr.add("CLOSED(%v)", err)
			})
		}
		client.ResetRegisteredImpls()
		client.RegisterTest("scripted", func(ctx context.Context, dst client.Destination) (client.Impl, error) {
			i := len(impls)
			sc := "p"
			if i < len(d.attempts) {
				sc = d.attempts[i]
			}
			si := &scriptImpl{tr: tr, id: i, script: sc, closeC: make(chan struct{}), closedBy: -1, hook: hook}
			impls = append(impls, si)
			return si, nil
		})
		if d.cache {
			c = client.New()
		} else {
			c = &client.BaseClient{}
		}
		updates := 0
		handler := func(n client.Notification) error {
			switch v := n.(type) {
			case client.Connected:
				tr.add("CONNECTED")
			case client.Update:
				tr.add("N(%v)", v.Val)
				if updates++; d.closeInHandler > 0 && updates == d.closeInHandler {
					closerTID = vrt.ThreadID()
					closeInvoked = true
					tr.add("CLOSE(from the handler)")
					err := c.Close()
					closeReturned = true
					tr.add("CLOSED(%v)", err)
				}
			default:
				tr.add("N?")
			}
			return nil
		}
		qt := client.Stream
		if d.qtype != 0 {
			qt = d.qtype
		}
		q := client.Query{Addrs: []string{"addr"}, Target: "t", Type: qt, Queries: []client.Path{{"*"}}, NotificationHandler: handler}
		var types []string
		for k := 0; k < d.badTypes; k++ {
			n := fmt.Sprintf("bad%d", k)
			client.RegisterTest(n, func(ctx context.Context, dst client.Destination) (client.Impl, error) {
				return nil, fmt.Errorf("protocol refused")
			})
			types = append(types, n)
		}
		if !d.allBad {
			types = append(types, "scripted")
		}
		subDone := false
		vrt.GoNamed("subscribe", func() {
			for i, sc := range d.attempts {
				closedBefore := closeInvoked
				err := c.Subscribe(vcontext.Background(), q, types...)
				tr.add("SUB-RETURNED#%d(%v)", i, err)
				if d.allBad {
					if err == nil {
						viol("subscribe-status", "every client type failed but Subscribe returned nil; trace: %s", tr)
					}
					closeReturned = true // nothing to close: no transport ever existed
					continue
				}
				if !closedBefore && !closeInvoked {
					// nobody interfered: the stream's own end decides the result
					if strings.HasSuffix(sc, "f") && err != nil {
						viol("subscribe-status", "stream %d ended with EOF but Subscribe returned %v; trace: %s", i, err, tr)
					}
					if strings.HasSuffix(sc, "e") && err == nil {
						viol("subscribe-status", "stream %d broke but Subscribe returned nil; trace: %s", i, tr)
					}
				}
			}
			subDone = true
		})
		vrt.Idle()
		// wind-down: a Close that came before a transport existed (or reached a
		// finished one) leaves the later streams parked; close from here
		for k := 0; k <= len(d.attempts) && !subDone; k++ {
			tr.add("WINDDOWN-CLOSE")
			c.Close()
			vrt.Idle()
		}
		out.Obs = tr.String()
		if !subDone || !closeReturned || !vrt.AllDone() {
			viol("not-terminated", "Subscribe sequence finished=%v Close returned=%v although every stream's transport was closed; parked: %v; trace: %s", subDone, closeReturned, vrt.ParkedInfo(), tr)
			return
		}
		// which transport did the closer's Close reach?
		reached := -1
		for _, si := range impls {
			if si.closedBy == closerTID {
				reached = si.id
			}
		}
		out.Nontrivial = reached >= 0
		closedSeen, after, cur, connected := false, 0, -1, false
		for i, e := range tr.ev {
			switch {
			case strings.HasPrefix(e, "CLOSED("):
				closedSeen = true
			case strings.HasPrefix(e, "conn#"):
				fmt.Sscanf(e, "conn#%d", &cur)
				connected = false
			case e == "CONNECTED":
				connected = true
			case strings.HasPrefix(e, "recv#"):
				id := -1
				fmt.Sscanf(e, "recv#%d", &id)
				if closedSeen && id == reached {
					after++
				}
			case strings.HasPrefix(e, "N("):
				if !connected {
					viol("connected-not-first", "event %d: a notification of stream %d was delivered before Connected; trace: %s", i, cur, tr)
					return
				}
			}
		}
		if after > 1 {
			viol("notifications-after-close", "Close reached the transport of stream %d and returned, yet %d further messages of that stream were received and delivered afterwards (at most one is allowed); trace: %s", reached, after, tr)
		}
	})
	if res.Aborted != "" {
		viol(hutil.AbortClass(res.Aborted, res.Panic), "%s %s", res.Aborted, strings.Join(res.Parked, "; "))
	}
	return out, res
}

// ---- (f) idle stream of the real gNMI transport client on a caller-provided connection

type idleStream struct {
	grpc.ClientStream
	ctx   context.Context
	resps string
	pos   int
	down  chan struct{} // closed when the connection under the stream is shut down
	hook  func()
	tr    *tracer
}

func (s *idleStream) Send(*gpb.SubscribeRequest) error { return nil }
func (s *idleStream) Recv() (*gpb.SubscribeResponse, error) {
	s.hook()
	if s.pos < len(s.resps) {
		k := s.resps[s.pos]
		s.pos++
		s.tr.add("recv(%c)", k)
		if k == 's' {
			return &gpb.SubscribeResponse{Response: &gpb.SubscribeResponse_SyncResponse{SyncResponse: true}}, nil
		}
		return &gpb.SubscribeResponse{Response: &gpb.SubscribeResponse_Update{Update: &gpb.Notification{Timestamp: 1, Prefix: &gpb.Path{Target: "t"}, Update: []*gpb.Update{{Path: &gpb.Path{Elem: []*gpb.PathElem{{Name: "a"}}}, Val: &gpb.TypedValue{Value: &gpb.TypedValue_IntVal{IntVal: int64(s.pos)}}}}}}}, nil
	}
	s.tr.add("idle")
	switch vrt.Select(false, vrt.R(s.ctx.Done()), vrt.R(s.down)) {
	case 0:
		vrt.RecvNow(s.ctx.Done())
		return nil, s.ctx.Err()
	default:
		vrt.RecvNow(s.down)
		return nil, errors.New("rpc error: code = Canceled desc = grpc: the client connection is closing")
	}
}
func (s *idleStream) Header() (metadata.MD, error) { return nil, nil }
func (s *idleStream) Trailer() metadata.MD         { return nil }
func (s *idleStream) CloseSend() error             { s.tr.add("half-close"); return nil }
func (s *idleStream) Context() context.Context     { return s.ctx }

type idleStub struct {
	gpb.GNMIClient
	mk func(ctx context.Context) *idleStream
}

func (s *idleStub) Subscribe(ctx context.Context, _ ...grpc.CallOption) (gpb.GNMI_SubscribeClient, error) {
	return s.mk(ctx), nil
}

func runF(cfg xplore.Config, d cfgData, ch vrt.Chooser, trace bool) (xplore.Outcome, *vrt.Result) {
	var out xplore.Outcome
	viol := func(class, format string, a ...interface{}) {
		out.Violations = append(out.Violations, xplore.Violation{Class: class, Msg: fmt.Sprintf(format, a...)})
	}
	conn, err := grpc.NewClient("passthrough:///idle", grpc.WithTransportCredentials(insecure.NewCredentials()))
	if err != nil {
		panic(err)
	}
	defer conn.Close()
	res := vrt.Run(ch, vrt.Options{Reverse: cfg.Reverse, Trace: trace}, func() {
		tr := &tracer{}
		down := make(chan struct{})
		var c client.Client
		events := 0
		closeReturned, closeInvoked := false, false
		var closeErr error
		hook := func() {
			if events++; events-1 != d.closeAt {
				return
			}
			vrt.GoNamed("closer", func() {
				closeInvoked = true
				tr.add("CLOSE")
				closeErr = c.Close()
				// the transport notices a connection that was shut down
				if conn.GetState() == connectivity.Shutdown {
					vrt.Close(down)
				}
				closeReturned = true
				tr.add("CLOSED(%v)", closeErr)
			})
		}
		stub := &idleStub{mk: func(ctx context.Context) *idleStream {
			tr.add("stream-open")
			hook()
			return &idleStream{ctx: ctx, resps: d.resps, down: down, hook: hook, tr: tr}
		}}
		client.ResetRegisteredImpls()
		client.RegisterTest("gnmistub", func(ctx context.Context, dst client.Destination) (client.Impl, error) {
			return gclient.VerifNewFromConn(ctx, conn, dst, stub)
		})
		if d.cache {
			c = client.New()
		} else {
			c = &client.BaseClient{}
		}
		q := client.Query{Addrs: []string{"addr"}, Target: "t", Type: client.Stream, Queries: []client.Path{{"*"}}, NotificationHandler: func(client.Notification) error { return nil }}
		subDone := false
		var subErr error
		vrt.GoNamed("subscribe", func() {
			subErr = c.Subscribe(vcontext.Background(), q, "gnmistub")
			subDone = true
			tr.add("SUB-RETURNED(%v)", subErr)
		})
		vrt.Idle()
		out.Obs = tr.String()
		out.Nontrivial = closeInvoked
		if !closeInvoked {
			return // the stream ended before the chosen event (cannot happen with an idle tail)
		}
		if closeReturned && closeErr == nil && !subDone {
			viol("not-terminated", "Close returned nil but Subscribe, whose stream is idle, never returns (a stream ends when its context ends or its connection is shut down - connection state now: %v); parked: %v; trace: %s", conn.GetState(), vrt.ParkedInfo(), tr)
		}
		if !closeReturned {
			viol("not-terminated", "Close never returned; parked: %v; trace: %s", vrt.ParkedInfo(), tr)
		}
		if !subDone {
			// wind down so that no thread is left behind
			select {
			case <-down:
			default:
				vrt.Close(down)
			}
			vrt.Idle()
		}
	})
	if res.Aborted != "" {
		viol(hutil.AbortClass(res.Aborted, res.Panic), "%s %s", res.Aborted, strings.Join(res.Parked, "; "))
	}
	return out, res
}

func main() { xplore.Main(harness{}) }
