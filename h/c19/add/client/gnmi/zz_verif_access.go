package client

import (
	"github.com/openconfig/gnmi/client"
	gpb "github.com/openconfig/gnmi/proto/gnmi"
)

// Added by /verif through the build overlay only.
func VerifSubscribeRequest(q client.Query) (*gpb.SubscribeRequest, error) { return subscribe(q) }
