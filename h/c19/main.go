// C19 — path indexing and value conversion are deterministic, faithful and
// total. Exhaustive enumeration of finite input families; map-order
// independence is decided by enumerating ALL key-order permutations of the
// instrumented map iterations inside package path.
package main

import (
	"fmt"
	"math"
	"math/big"
	"reflect"
	"sort"
	"strings"
	"unicode/utf8"

	"google.golang.org/protobuf/proto"

	"github.com/openconfig/gnmi/client"
	gclient "github.com/openconfig/gnmi/client/gnmi"
	"github.com/openconfig/gnmi/path"
	pb "github.com/openconfig/gnmi/proto/gnmi"
	"github.com/openconfig/gnmi/value"
	"github.com/openconfig/gnmi/zzverif/seqmc"
	"github.com/openconfig/gnmi/zzverif/vrt"
)

func vio(class, format string, a ...interface{}) []seqmc.Violation {
	return []seqmc.Violation{{Class: class, Msg: fmt.Sprintf(format, a...)}}
}

// ---- ToStrings

type elemSpec struct {
	name string
	keys []string // subset of k1,k2,k3
}

var keyVals = map[string]string{"k1": "z", "k2": "y", "k3": "x"} // value order is the reverse of key order

type tsCase struct {
	elems          []elemSpec
	enc            string // elem, element, both
	target, origin string
	prefix         bool
}

func tsCases(maxElems int) []tsCase {
	names := []string{"a", "b/c", "é"}
	var keysets [][]string
	ks := []string{"k1", "k2", "k3"}
	for m := 0; m < 8; m++ {
		var s []string
		for i, k := range ks {
			if m&(1<<uint(i)) != 0 {
				s = append(s, k)
			}
		}
		keysets = append(keysets, s)
	}
	var elemSeqs [][]elemSpec
	var rec func(cur []elemSpec)
	rec = func(cur []elemSpec) {
		elemSeqs = append(elemSeqs, append([]elemSpec{}, cur...))
		if len(cur) == maxElems {
			return
		}
		for _, n := range names {
			for _, k := range keysets {
				rec(append(cur, elemSpec{n, k}))
			}
		}
	}
	rec(nil)
	var out []tsCase
	for _, es := range elemSeqs {
		for _, enc := range []string{"elem", "element", "both"} {
			for _, tg := range []string{"", "tgt"} {
				for _, or := range []string{"", "org"} {
					for _, pf := range []bool{false, true} {
						out = append(out, tsCase{es, enc, tg, or, pf})
					}
				}
			}
		}
	}
	return out
}

func (c tsCase) build() (*pb.Path, []string) {
	p := &pb.Path{Target: c.target, Origin: c.origin}
	var idx []string
	if c.prefix {
		if c.target != "" {
			idx = append(idx, c.target)
		}
		if c.origin != "" {
			idx = append(idx, c.origin)
		}
	}
	var elemIdx, elementIdx []string
	for _, e := range c.elems {
		pe := &pb.PathElem{Name: e.name}
		elemIdx = append(elemIdx, e.name)
		if len(e.keys) > 0 {
			pe.Key = map[string]string{}
			sorted := append([]string{}, e.keys...)
			sort.Strings(sorted)
			for _, k := range sorted {
				pe.Key[k] = keyVals[k]
				elemIdx = append(elemIdx, keyVals[k])
			}
		}
		if c.enc != "element" {
			p.Elem = append(p.Elem, pe)
		}
		if c.enc != "elem" {
			// deprecated encoding: something distinguishable from the Elem form
			p.Element = append(p.Element, "D"+e.name)
			elementIdx = append(elementIdx, "D"+e.name)
		}
	}
	if c.enc == "element" || len(p.Elem) == 0 {
		idx = append(idx, elementIdx...)
	} else {
		idx = append(idx, elemIdx...)
	}
	return p, idx
}

func specToStrings(maxElems int) seqmc.Spec {
	cases := tsCases(maxElems)
	return seqmc.Spec{Name: fmt.Sprintf("ToStrings: <=%d elements x 0-3 keys x encodings x target/origin x prefix flag x all map orders", maxElems), N: len(cases), Run: func(i int) (string, bool, []seqmc.Violation) {
		c := cases[i]
		p, want := c.build()
		desc := fmt.Sprintf("%+v", c)
		maxKeys := 0
		for _, e := range c.elems {
			if len(e.keys) > maxKeys {
				maxKeys = len(e.keys)
			}
		}
		perms := 1
		for k := 2; k <= maxKeys; k++ {
			perms *= k
		}
		defer vrt.SetPassthroughMapPerm(0)
		for perm := 0; perm < perms; perm++ {
			vrt.SetPassthroughMapPerm(perm)
			got := path.ToStrings(p, c.prefix)
			if len(got) == 0 && len(want) == 0 {
				continue
			}
			if !reflect.DeepEqual(got, want) {
				return desc, true, vio("tostrings", "ToStrings(%v, %v) = %q with map order #%d, expected %q (keys as values ordered by key name after their element; target/origin lead only when requested and non-empty)", p, c.prefix, got, perm, want)
			}
		}
		return desc, maxKeys > 1, nil
	}}
}

// ---- CompletePath

func specCompletePath() seqmc.Spec {
	type cp struct {
		po, so     string
		pe, se     []elemSpec
		penc, senc string
		pt, st     string // targets carried by the prefix / by the path: never part of the result
	}
	es := [][]elemSpec{{}, {{"a", nil}}, {{"a", []string{"k2", "k1"}}, {"b", nil}}}
	ss := [][]elemSpec{{}, {{"c", nil}}, {{"c", []string{"k1"}}, {"d", nil}}}
	var cases []cp
	for _, po := range []string{"", "o1"} {
		for _, so := range []string{"", "o2"} {
			for _, pe := range es {
				for _, se := range ss {
					// both path encodings (and both at once) on either side: a
					// prefix carrying its elements in the deprecated field has
					// elements all the same
					for _, penc := range []string{"elem", "element", "both"} {
						for _, senc := range []string{"elem", "element", "both"} {
							for _, tg := range [][2]string{{"", ""}, {"dev", ""}, {"dev", "dev"}, {"", "dev"}} {
								cases = append(cases, cp{po, so, pe, se, penc, senc, tg[0], tg[1]})
							}
						}
					}
				}
			}
		}
	}
	return seqmc.Spec{Name: "CompletePath: prefix/path origin x element combinations", N: len(cases), Run: func(i int) (string, bool, []seqmc.Violation) {
		c := cases[i]
		pp, pidx := tsCase{elems: c.pe, enc: c.penc, origin: c.po, target: c.pt}.build()
		sp, sidx := tsCase{elems: c.se, enc: c.senc, origin: c.so, target: c.st}.build()
		desc := fmt.Sprintf("%+v", c)
		got, err := path.CompletePath(pp, sp)
		wantErr := c.po != "" && c.so != "" || c.so != "" && len(pidx) > 0
		if (err != nil) != wantErr {
			return desc, true, vio("completepath-error", "CompletePath(%v, %v) error=%v, conflicting origins=%v", pp, sp, err, wantErr)
		}
		if err != nil {
			return desc, true, nil
		}
		var want []string
		if c.po != "" {
			want = append(want, c.po)
		} else if c.so != "" {
			want = append(want, c.so)
		}
		want = append(append(want, pidx...), sidx...)
		if len(got) == 0 && len(want) == 0 {
			return desc, false, nil
		}
		if !reflect.DeepEqual(got, want) {
			return desc, true, vio("completepath", "CompletePath(%v, %v) = %q, expected prefix index followed by path index %q", pp, sp, got, want)
		}
		return desc, true, nil
	}}
}

// ---- client query -> wire -> server index

func specQuery(maxLen int) seqmc.Spec {
	alpha := []string{"a", "b", "a/b", "/", "x.y-1", "a:b", "*", "a/", "/a"} // {a, b} and {a/b}: different queries with the same plain join
	var qs []client.Path
	var rec func(cur client.Path)
	rec = func(cur client.Path) {
		if len(cur) > 0 {
			qs = append(qs, append(client.Path{}, cur...))
		}
		if len(cur) == maxLen {
			return
		}
		for _, a := range alpha {
			rec(append(cur, a))
		}
	}
	rec(nil)
	// queries that are spelled alike once their elements are joined with "/"
	// ({a, b} / {a/b} / ...): converting one of them must not depend on whether
	// another one was converted earlier in the same process
	alike := map[string][]int{}
	for i, q := range qs {
		k := strings.Join(q, "/")
		alike[k] = append(alike[k], i)
	}
	return seqmc.Spec{Name: fmt.Sprintf("client query of <=%d plain elements reaches the server indexed as the same elements", maxLen), N: len(qs), Run: func(i int) (string, bool, []seqmc.Violation) {
		q := qs[i]
		desc := fmt.Sprintf("%q", []string(q))
		for _, j := range alike[strings.Join(q, "/")] {
			if j != i {
				gclient.VerifSubscribeRequest(client.Query{Target: "t", Queries: []client.Path{append(client.Path{}, qs[j]...)}, Type: client.Once})
			}
		}
		class := "query-roundtrip"
		if strings.HasSuffix(q[len(q)-1], "/") {
			class = "query-last-element-ends-with-slash"
		}
		// One Query object converted several times, as a reconnecting client does
		// on every re-subscription: every conversion must reach the server as the
		// same elements and the caller's Query must stay as it was. The path is
		// given spare capacity so that an append-in-place would show.
		orig := append([]string{}, q...)
		qq := append(make(client.Path, 0, len(q)+4), q...)
		query := client.Query{Target: "t", Queries: []client.Path{qq}, Type: client.Once}
		for round := 1; round <= 3; round++ {
			req, err := gclient.VerifSubscribeRequest(query)
			if err != nil {
				return desc, true, vio(class, "query %s rejected (conversion %d): %v", desc, round, err)
			}
			b, err := proto.Marshal(req)
			if err != nil {
				return desc, true, vio(class, "marshal: %v", err)
			}
			var back pb.SubscribeRequest
			if err := proto.Unmarshal(b, &back); err != nil {
				return desc, true, vio(class, "unmarshal: %v", err)
			}
			got := path.ToStrings(back.GetSubscribe().GetSubscription()[0].GetPath(), false)
			if !reflect.DeepEqual(orig, got) {
				if round > 1 {
					class = "query-roundtrip-repeated-conversion"
				}
				return desc, true, vio(class, "client query %s reaches the server indexed as %q (conversion %d of the same Query)", desc, got, round)
			}
			if !reflect.DeepEqual(orig, []string(query.Queries[0])) {
				return desc, true, vio("query-modified-by-conversion", "converting client query %s changed the caller's Query to %q", desc, []string(query.Queries[0]))
			}
		}
		return desc, strings.Contains(strings.Join(q, ""), "/"), nil
	}}
}

// ---- scalars

func widen(x interface{}) interface{} {
	switch v := x.(type) {
	case int:
		return int64(v)
	case int8:
		return int64(v)
	case int16:
		return int64(v)
	case int32:
		return int64(v)
	case uint:
		return uint64(v)
	case uint8:
		return uint64(v)
	case uint16:
		return uint64(v)
	case uint32:
		return uint64(v)
	case float32:
		return float64(v)
	case []string:
		out := make([]interface{}, len(v))
		for i, s := range v {
			out[i] = s
		}
		return out
	case []interface{}:
		out := make([]interface{}, len(v))
		for i, e := range v {
			out[i] = widen(e)
		}
		return out
	}
	return x
}

func scalars() []interface{} {
	s := []interface{}{
		"", "ascii", "héllo wörld ☃", "bad\xffutf8",
		int(0), int(1), int(-1), int(math.MaxInt64), int(math.MinInt64),
		int8(0), int8(1), int8(-1), int8(math.MaxInt8), int8(math.MinInt8),
		int16(0), int16(-1), int16(math.MaxInt16), int16(math.MinInt16),
		int32(0), int32(-1), int32(math.MaxInt32), int32(math.MinInt32),
		int64(0), int64(1), int64(-1), int64(math.MaxInt64), int64(math.MinInt64),
		uint(0), uint(1), uint(math.MaxUint64),
		uint8(0), uint8(math.MaxUint8), uint16(0), uint16(math.MaxUint16), uint32(0), uint32(math.MaxUint32), uint64(0), uint64(math.MaxUint64),
		float32(0), float32(1.5), float32(-1.5), float32(math.MaxFloat32), float32(math.SmallestNonzeroFloat32),
		float64(0), float64(1.5), float64(-1.5), math.MaxFloat64, math.SmallestNonzeroFloat64, math.Inf(1), math.Inf(-1),
		true, false,
		[]string{}, []string{"a"}, []string{"a", "", "ü"},
		[]byte{}, []byte{0, 1, 255},
		[]interface{}{}, []interface{}{int8(1), "x", true, uint16(7), float32(2.5)}, []interface{}{true, false, true, true}, []interface{}{"", "", int64(0), int64(0)}, []interface{}{[]interface{}{int32(1)}, []string{"n"}},
		nil, struct{}{}, map[string]int{"a": 1}, []int{1}, &struct{}{}, []interface{}{struct{}{}}, []interface{}{"bad\xff"},
	}
	// strings around every corner of UTF-8: valid ones (among them the
	// replacement character itself, NUL, the highest code point, a byte order
	// mark) must convert, alone and as leaf-list members; invalid byte
	// sequences must be refused
	for _, str := range []string{"\uFFFD", "caf\uFFFD x", "\x00", "a\x00b", "\U0010FFFF", "\uFEFFbom", "\u2028", "\u0080", "\u07FF\u0800\uFFFF", string(rune(0xD800)),
		"\xc3", "\x80", "\xc0\x80", "\xed\xa0\x80", "\xf4\x90\x80\x80", "ok\xfe"} {
		s = append(s, str, []interface{}{str})
		if utf8.ValidString(str) {
			s = append(s, []string{str})
		}
	}
	return s
}

func specScalars() seqmc.Spec {
	ss := scalars()
	return seqmc.Spec{Name: "ToScalar(FromScalar(x)) == x up to widening, for every supported Go kind at its extremes", N: len(ss), Run: func(i int) (string, bool, []seqmc.Violation) {
		x := ss[i]
		desc := fmt.Sprintf("%T(%#v)", x, x)
		tv, err := value.FromScalar(x)
		supported := true
		switch v := x.(type) {
		case nil, struct{}, map[string]int, []int, *struct{}:
			supported = false
		case string:
			supported = utf8.ValidString(v)
		case []interface{}:
			for _, e := range v {
				if _, bad := e.(struct{}); bad {
					supported = false
				}
				if s, ok := e.(string); ok && !utf8.ValidString(s) {
					supported = false
				}
			}
		}
		if (err == nil) != supported {
			return desc, true, vio("fromscalar-total", "FromScalar(%s) error=%v, supported scalar=%v", desc, err, supported)
		}
		if err != nil {
			return desc, true, nil
		}
		// through the wire, as a peer would see it
		b, _ := proto.Marshal(tv)
		var back pb.TypedValue
		if err := proto.Unmarshal(b, &back); err != nil {
			return desc, true, vio("scalar-wire", "unmarshal: %v", err)
		}
		for _, t := range []*pb.TypedValue{tv, &back} {
			got, err := value.ToScalar(t)
			if err != nil {
				return desc, true, vio("scalar-roundtrip", "ToScalar(FromScalar(%s)) failed: %v", desc, err)
			}
			want := widen(x)
			if gs, ok := got.([]interface{}); ok && len(gs) == 0 {
				if ws, ok := want.([]interface{}); ok && len(ws) == 0 {
					continue
				}
			}
			if gb, ok := got.([]byte); ok && len(gb) == 0 {
				if wb, ok := want.([]byte); ok && len(wb) == 0 {
					continue
				}
			}
			if !reflect.DeepEqual(got, want) {
				return desc, true, vio("scalar-roundtrip", "ToScalar(FromScalar(%s)) = %T(%#v), expected %T(%#v)", desc, got, got, want, want)
			}
		}
		// the message a conversion returns belongs to its caller: the caller
		// overwrites it in place (as the fake target's generator does with the
		// values it holds) - members of one leaf-list are independent of each
		// other, and converting an equal scalar AGAIN still yields the right value
		pristine := proto.Clone(tv).(*pb.TypedValue)
		scribble := func(t *pb.TypedValue) { t.Value = &pb.TypedValue_StringVal{StringVal: "scribbled-by-the-holder"} }
		if ll := tv.GetLeaflistVal(); ll != nil && len(ll.Element) > 1 {
			scribble(ll.Element[0])
			for k := 1; k < len(ll.Element); k++ {
				if !proto.Equal(ll.Element[k], pristine.GetLeaflistVal().Element[k]) {
					return desc, true, vio("scalar-result-aliased", "FromScalar(%s): overwriting member 0 of the returned leaf-list changed member %d to %v", desc, k, ll.Element[k])
				}
			}
		}
		scribble(tv)
		again, err := value.FromScalar(x)
		if err != nil || !proto.Equal(again, pristine) {
			return desc, true, vio("scalar-result-aliased", "FromScalar(%s) converted again after the holder of the first result overwrote that message: got %v (error %v), expected %v", desc, again, err, pristine)
		}
		return desc, true, nil
	}}
}

// ---- Equal

func tvUniverse() []*pb.TypedValue {
	leaf := func(vs ...*pb.TypedValue) *pb.TypedValue {
		return &pb.TypedValue{Value: &pb.TypedValue_LeaflistVal{LeaflistVal: &pb.ScalarArray{Element: vs}}}
	}
	i1 := &pb.TypedValue{Value: &pb.TypedValue_IntVal{IntVal: 1}}
	i2 := &pb.TypedValue{Value: &pb.TypedValue_IntVal{IntVal: 2}}
	s1 := &pb.TypedValue{Value: &pb.TypedValue_StringVal{StringVal: "1"}}
	raw := []*pb.TypedValue{
		{}, i1, i2, s1,
		{Value: &pb.TypedValue_StringVal{StringVal: ""}}, {Value: &pb.TypedValue_StringVal{StringVal: "2"}},
		{Value: &pb.TypedValue_IntVal{IntVal: 0}},
		{Value: &pb.TypedValue_UintVal{UintVal: 1}}, {Value: &pb.TypedValue_UintVal{UintVal: 2}}, {Value: &pb.TypedValue_UintVal{UintVal: 0}},
		{Value: &pb.TypedValue_BoolVal{BoolVal: true}}, {Value: &pb.TypedValue_BoolVal{BoolVal: false}},
		{Value: &pb.TypedValue_BytesVal{BytesVal: []byte("1")}}, {Value: &pb.TypedValue_BytesVal{BytesVal: []byte{}}}, {Value: &pb.TypedValue_BytesVal{BytesVal: []byte("2")}},
		{Value: &pb.TypedValue_FloatVal{FloatVal: 1}}, {Value: &pb.TypedValue_FloatVal{FloatVal: 2}}, {Value: &pb.TypedValue_FloatVal{FloatVal: float32(math.NaN())}},
		{Value: &pb.TypedValue_DoubleVal{DoubleVal: 1}}, {Value: &pb.TypedValue_DoubleVal{DoubleVal: 2}}, {Value: &pb.TypedValue_DoubleVal{DoubleVal: math.NaN()}},
		{Value: &pb.TypedValue_DoubleVal{DoubleVal: 0}}, {Value: &pb.TypedValue_DoubleVal{DoubleVal: math.Copysign(0, -1)}},
		{Value: &pb.TypedValue_DecimalVal{DecimalVal: &pb.Decimal64{Digits: 1, Precision: 0}}}, {Value: &pb.TypedValue_DecimalVal{DecimalVal: &pb.Decimal64{Digits: 10, Precision: 1}}}, {Value: &pb.TypedValue_DecimalVal{DecimalVal: &pb.Decimal64{}}},
		{Value: &pb.TypedValue_DecimalVal{DecimalVal: &pb.Decimal64{Digits: 16777216, Precision: 0}}}, {Value: &pb.TypedValue_DecimalVal{DecimalVal: &pb.Decimal64{Digits: 167772170, Precision: 1}}}, {Value: &pb.TypedValue_DecimalVal{DecimalVal: &pb.Decimal64{Digits: 12345678, Precision: 3}}}, {Value: &pb.TypedValue_DecimalVal{DecimalVal: &pb.Decimal64{Digits: -1, Precision: 0}}},
		leaf(), leaf(i1), leaf(i1, i2), leaf(i2, i1), leaf(s1), leaf(leaf(i1)), leaf(leaf()), leaf(&pb.TypedValue{}),
		{Value: &pb.TypedValue_JsonVal{JsonVal: []byte("1")}}, {Value: &pb.TypedValue_JsonIetfVal{JsonIetfVal: []byte("1")}},
		{Value: &pb.TypedValue_AsciiVal{AsciiVal: "1"}}, {Value: &pb.TypedValue_ProtoBytes{ProtoBytes: []byte("1")}},
	}
	out := []*pb.TypedValue{nil}
	for _, v := range raw {
		b, err := proto.Marshal(v)
		if err != nil {
			panic(err)
		}
		w := &pb.TypedValue{}
		if err := proto.Unmarshal(b, w); err != nil {
			panic(err)
		}
		out = append(out, w)
	}
	return out
}

func specEqual() seqmc.Spec {
	u := tvUniverse()
	return seqmc.Spec{Name: fmt.Sprintf("value.Equal on all ordered pairs of %d TypedValues (every oneof arm, nil, NaN, +-0, nested/empty leaf-lists)", len(u)), N: len(u) * len(u), Run: func(i int) (string, bool, []seqmc.Violation) {
		a, b := u[i/len(u)], u[i%len(u)]
		desc := fmt.Sprintf("Equal(%v, %v)", a, b)
		class := "equal"
		if b == nil || a == nil {
			class = "equal-nil-argument"
		}
		var ab, ba bool
		if p := catch(func() { ab = value.Equal(a, b) }); p != nil {
			return desc, true, vio(class+"-panic", "%s panics: %v", desc, p)
		}
		if p := catch(func() { ba = value.Equal(b, a) }); p != nil {
			return desc, true, vio(class+"-panic", "Equal(%v, %v) panics: %v", b, a, p)
		}
		if ab != ba {
			return desc, true, vio(class+"-asymmetric", "%s = %v but with swapped arguments %v", desc, ab, ba)
		}
		if ab && !proto.Equal(a, b) && !sameDecimal(a, b) {
			return desc, true, vio("equal-unsound", "%s reports two different values as equal", desc)
		}
		return desc, ab, nil
	}}
}

// sameDecimal: two decimals that denote the same number (digits / 10^precision)
// are the same value whatever their encoding.
func sameDecimal(a, b *pb.TypedValue) bool {
	da, db := a.GetDecimalVal(), b.GetDecimalVal()
	if da == nil || db == nil {
		return false
	}
	ra := new(big.Rat).SetFrac(big.NewInt(da.Digits), new(big.Int).Exp(big.NewInt(10), big.NewInt(int64(da.Precision)), nil))
	rb := new(big.Rat).SetFrac(big.NewInt(db.Digits), new(big.Int).Exp(big.NewInt(10), big.NewInt(int64(db.Precision)), nil))
	return ra.Cmp(rb) == 0
}

func catch(f func()) (p interface{}) {
	defer func() { p = recover() }()
	f()
	return nil
}

// specEqualLists: every ordered pair of leaf-lists of <=5 elements over the
// element values {1, 2} (63 lists): equal exactly when the same length and the
// same element at every position.
func specEqualLists() seqmc.Spec {
	var lists [][]int64
	for n := 0; n <= 5; n++ {
		for m := 0; m < 1<<uint(n); m++ {
			l := make([]int64, n)
			for i := range l {
				l[i] = 1 + int64(m>>uint(i)&1)
			}
			lists = append(lists, l)
		}
	}
	mk := func(l []int64) *pb.TypedValue {
		var es []*pb.TypedValue
		for _, x := range l {
			es = append(es, &pb.TypedValue{Value: &pb.TypedValue_IntVal{IntVal: x}})
		}
		return &pb.TypedValue{Value: &pb.TypedValue_LeaflistVal{LeaflistVal: &pb.ScalarArray{Element: es}}}
	}
	return seqmc.Spec{Name: fmt.Sprintf("value.Equal on all ordered pairs of the %d leaf-lists of <=5 elements over two element values", len(lists)), N: len(lists) * len(lists), Run: func(i int) (string, bool, []seqmc.Violation) {
		a, b := lists[i/len(lists)], lists[i%len(lists)]
		desc := fmt.Sprintf("Equal(leaf-list %v, leaf-list %v)", a, b)
		want := fmt.Sprint(a) == fmt.Sprint(b)
		var got bool
		if p := catch(func() { got = value.Equal(mk(a), mk(b)) }); p != nil {
			return desc, true, vio("equal-panic", "%s panics: %v", desc, p)
		}
		if got && !want {
			return desc, true, vio("equal-unsound", "%s reports two different values as equal", desc)
		}
		if !got && want {
			return desc, true, vio("equal-incomplete", "%s reports two identical leaf-lists as different", desc)
		}
		return desc, got, nil
	}}
}

// specToStringsDeep: long paths - 12..22 plain elements followed by one list
// element with 0..3 keys and 0..2 more plain elements - with and without
// target / origin in front: the index has no length at which it changes shape
// (the conversion preallocates for 20 strings).
func specToStringsDeep() seqmc.Spec {
	var cases []tsCase
	ks := [][]string{nil, {"k1"}, {"k2", "k1"}, {"k3", "k1", "k2"}}
	for n := 12; n <= 22; n++ {
		for _, k := range ks {
			for tail := 0; tail <= 2; tail++ {
				var es []elemSpec
				for i := 0; i < n; i++ {
					es = append(es, elemSpec{fmt.Sprintf("e%d", i), nil})
				}
				es = append(es, elemSpec{"l", k})
				for i := 0; i < tail; i++ {
					es = append(es, elemSpec{fmt.Sprintf("t%d", i), nil})
				}
				for _, pf := range []bool{false, true} {
					cases = append(cases, tsCase{es, "elem", "tgt", "org", pf}, tsCase{es, "elem", "", "", pf})
				}
			}
		}
	}
	return seqmc.Spec{Name: fmt.Sprintf("ToStrings on long paths: 12..22 plain elements, then a list element with 0..3 keys, then 0..2 more (%d cases)", len(cases)), N: len(cases), Run: func(i int) (string, bool, []seqmc.Violation) {
		c := cases[i]
		p, want := c.build()
		desc := fmt.Sprintf("%d elements, keys=%v, target/origin=%q/%q prefix=%v", len(c.elems), c.elems[len(c.elems)-1].keys, c.target, c.origin, c.prefix)
		var got []string
		if pn := catch(func() { got = path.ToStrings(p, c.prefix) }); pn != nil {
			return desc, true, vio("tostrings-panic", "ToStrings panics on %s: %v", desc, pn)
		}
		if !reflect.DeepEqual(got, want) {
			return desc, true, vio("tostrings", "ToStrings on %s = %q, expected %q", desc, got, want)
		}
		return desc, true, nil
	}}
}

type harness struct{}

func (harness) Property() string { return "C19" }
func (harness) Specs(tier string) []seqmc.Spec {
	if tier == "thorough" {
		return []seqmc.Spec{specToStrings(3), specCompletePath(), specQuery(4), specScalars(), specEqual(), specEqualLists(), specToStringsDeep()}
	}
	return []seqmc.Spec{specToStrings(2), specCompletePath(), specQuery(3), specScalars(), specEqual(), specEqualLists(), specToStringsDeep()}
}

func main() { seqmc.Main(harness{}) }
