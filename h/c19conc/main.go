// C19, concurrent part — path indexing is a pure function: concurrent callers
// converting their own (unshared) paths get exactly what a lone caller gets.
// Package path is instrumented, so any synchronisation it uses (locks, pools,
// atomics, once-initialised tables) is a scheduling point; every schedule of
// 2-3 goroutines within the bound is explored and every result compared with
// the sequential one.
package main

import (
	"fmt"
	"reflect"
	"strings"

	"github.com/openconfig/gnmi/path"
	pb "github.com/openconfig/gnmi/proto/gnmi"
	"github.com/openconfig/gnmi/zzverif/hutil"
	"github.com/openconfig/gnmi/zzverif/vrt"
	"github.com/openconfig/gnmi/zzverif/xplore"
)

// mk builds a path of n list elements with keys key sets, values unique to (id, element)
func mk(id, n, keys int, target, origin string) *pb.Path {
	p := &pb.Path{Target: target, Origin: origin}
	for e := 0; e < n; e++ {
		pe := &pb.PathElem{Name: fmt.Sprintf("l%d", e)}
		if keys > 0 {
			pe.Key = map[string]string{}
			for k := 0; k < keys; k++ {
				pe.Key[fmt.Sprintf("k%d", keys-k)] = fmt.Sprintf("v%d-%d-%d", id, e, keys-k)
			}
		}
		p.Elem = append(p.Elem, pe)
	}
	return p
}

type cfgData struct {
	threads, elems, keys, calls int
}

type harness struct{}

func (harness) Property() string { return "C19" }

func (harness) Configs(tier string) []xplore.Config {
	var out []xplore.Config
	bound := 2
	if tier == "thorough" {
		bound = 3
	}
	for _, th := range []int{2, 3} {
		// 8 elements x 2 keys index to 24 strings: beyond the 20 ToStrings preallocates
		for _, shape := range [][2]int{{1, 2}, {2, 3}, {8, 2}} {
			b := bound
			if th == 3 {
				b = bound - 1
			}
			out = append(out, xplore.Config{Name: fmt.Sprintf("%d goroutines x 2 conversions of a path of %d elements with %d keys each", th, shape[0], shape[1]), Bound: b, Data: cfgData{th, shape[0], shape[1], 2}})
		}
	}
	return out
}

func (harness) Run(cfg xplore.Config, ch vrt.Chooser, trace bool) (xplore.Outcome, *vrt.Result) {
	d := cfg.Data.(cfgData)
	var out xplore.Outcome
	// sequential reference, outside the run
	want := make([][]string, d.threads)
	wantC := make([][]string, d.threads)
	paths := make([]*pb.Path, d.threads)
	prefixes := make([]*pb.Path, d.threads)
	for i := range paths {
		paths[i] = mk(i, d.elems, d.keys, "", "")
		prefixes[i] = mk(100+i, 1, 2, "dev", "org")
		want[i] = path.ToStrings(paths[i], false)
		c, err := path.CompletePath(prefixes[i], paths[i])
		if err != nil {
			panic(err)
		}
		wantC[i] = c
	}
	var got, gotC [][][]string
	res := vrt.Run(ch, vrt.Options{Trace: trace, FreeSwitch: true, UnlockPoints: vrt.DefaultUnlockPoints}, func() {
		got = make([][][]string, d.threads)
		gotC = make([][][]string, d.threads)
		for i := 0; i < d.threads; i++ {
			i := i
			vrt.GoNamed(fmt.Sprintf("caller%d", i), func() {
				for c := 0; c < d.calls; c++ {
					got[i] = append(got[i], path.ToStrings(paths[i], false))
					cp, _ := path.CompletePath(prefixes[i], paths[i])
					gotC[i] = append(gotC[i], cp)
				}
			})
		}
		vrt.Idle()
		if !vrt.AllDone() {
			out.Violations = append(out.Violations, xplore.Violation{Class: "deadlock", Msg: fmt.Sprint(vrt.ParkedInfo())})
		}
	})
	for i := range got {
		for c := range got[i] {
			if !reflect.DeepEqual(got[i][c], want[i]) {
				out.Violations = append(out.Violations, xplore.Violation{Class: "tostrings-concurrent", Msg: fmt.Sprintf("goroutine %d, call %d: ToStrings = %q, a lone caller gets %q", i, c, got[i][c], want[i])})
			}
			if !reflect.DeepEqual(gotC[i][c], wantC[i]) {
				out.Violations = append(out.Violations, xplore.Violation{Class: "completepath-concurrent", Msg: fmt.Sprintf("goroutine %d, call %d: CompletePath = %q, a lone caller gets %q", i, c, gotC[i][c], wantC[i])})
			}
		}
	}
	out.Obs = fmt.Sprint(len(got))
	out.Nontrivial = true
	if res.Aborted != "" {
		out.Violations = append(out.Violations, xplore.Violation{Class: hutil.AbortClass(res.Aborted, res.Panic), Msg: res.Aborted + " " + strings.Join(res.Parked, "; ")})
	}
	return out, res
}

func main() { xplore.Main(harness{}) }
