// C20 — the synthetic target's generator emits an ordered, bounded,
// reproducible update stream. Exhaustive over a configuration grid; in oracle
// mode every PRNG draw of the (rebuilt) generator is an enumerated choice, so
// the invariants are checked for every PRNG outcome within the draw horizon.
package main

import (
	"sync"
	"context"
	"fmt"
	"io"
	"strings"
	"time"

	"google.golang.org/grpc/metadata"
	"google.golang.org/protobuf/proto"

	gpb "github.com/openconfig/gnmi/proto/gnmi"
	fgnmi "github.com/openconfig/gnmi/testing/fake/gnmi"
	fpb "github.com/openconfig/gnmi/testing/fake/proto"
	"github.com/openconfig/gnmi/testing/fake/queue"
	"github.com/openconfig/gnmi/zzverif/seqmc"
	"github.com/openconfig/gnmi/zzverif/vrand"
	"github.com/openconfig/gnmi/zzverif/vrt"
)

const baseHorizon = 30

// horizon: enough Next calls to see every finite value out, or every
// unbounded one well past the sync marker.
func horizonFor(c cfgCase) int {
	n := baseHorizon
	for _, v := range c.vals {
		n += int(v.repeat) + 12
	}
	return n
}

const drawDepth = 6

type vspec struct {
	kind           int
	ts, dmin, dmax int64
	repeat         int32
	seed           int64
}

var kindNames = []string{"int-range", "int-range-delta", "uint-range-delta", "double-range", "double-range-delta", "int-list", "int-list-random", "uint-list-random", "double-list", "string-list", "string-list-random", "bool-list", "bool-list-random", "stringlist-rot", "stringlist-random", "delete", "int-plain", "uint-range-bigstep", "uint-range-bigstep-up", "int-range-bigstep", "double-range-bigstep", "uint-range-offset", "int-range-negative"}

func (v vspec) String() string {
	return fmt.Sprintf("%s ts=%d delta=[%d,%d] repeat=%d seed=%d", kindNames[v.kind], v.ts, v.dmin, v.dmax, v.repeat, v.seed)
}

func (v vspec) build(name string) *fpb.Value {
	out := &fpb.Value{Path: []string{name}, Timestamp: &fpb.Timestamp{Timestamp: v.ts, DeltaMin: v.dmin, DeltaMax: v.dmax}, Repeat: v.repeat, Seed: v.seed}
	if v.ts < 0 {
		out.Timestamp = nil // timestamp not configured: zero, no steps
	}
	switch v.kind {
	case 0:
		out.Value = &fpb.Value_IntValue{IntValue: &fpb.IntValue{Value: 1, Distribution: &fpb.IntValue_Range{Range: &fpb.IntRange{Minimum: 0, Maximum: 3}}}}
	case 1:
		out.Value = &fpb.Value_IntValue{IntValue: &fpb.IntValue{Value: 1, Distribution: &fpb.IntValue_Range{Range: &fpb.IntRange{Minimum: 0, Maximum: 3, DeltaMin: -1, DeltaMax: 1}}}}
	case 2:
		out.Value = &fpb.Value_UintValue{UintValue: &fpb.UintValue{Value: 1, Distribution: &fpb.UintValue_Range{Range: &fpb.UintRange{Minimum: 0, Maximum: 3, DeltaMin: -2, DeltaMax: 2}}}}
	case 3:
		out.Value = &fpb.Value_DoubleValue{DoubleValue: &fpb.DoubleValue{Value: 1, Distribution: &fpb.DoubleValue_Range{Range: &fpb.DoubleRange{Minimum: 0, Maximum: 3}}}}
	case 4:
		out.Value = &fpb.Value_DoubleValue{DoubleValue: &fpb.DoubleValue{Value: 1, Distribution: &fpb.DoubleValue_Range{Range: &fpb.DoubleRange{Minimum: 0, Maximum: 3, DeltaMin: -0.5, DeltaMax: 0.5}}}}
	case 5, 6:
		out.Value = &fpb.Value_IntValue{IntValue: &fpb.IntValue{Value: 1, Distribution: &fpb.IntValue_List{List: &fpb.IntList{Options: []int64{1, 2, 3}, Random: v.kind == 6}}}}
	case 7:
		out.Value = &fpb.Value_UintValue{UintValue: &fpb.UintValue{Value: 1, Distribution: &fpb.UintValue_List{List: &fpb.UintList{Options: []uint64{1, 2}, Random: true}}}}
	case 8:
		out.Value = &fpb.Value_DoubleValue{DoubleValue: &fpb.DoubleValue{Value: 1.5, Distribution: &fpb.DoubleValue_List{List: &fpb.DoubleList{Options: []float64{1.5, 2.5}}}}}
	case 9, 10:
		out.Value = &fpb.Value_StringValue{StringValue: &fpb.StringValue{Value: "a", Distribution: &fpb.StringValue_List{List: &fpb.StringList{Options: []string{"a", "b"}, Random: v.kind == 10}}}}
	case 11, 12:
		out.Value = &fpb.Value_BoolValue{BoolValue: &fpb.BoolValue{Value: true, Distribution: &fpb.BoolValue_List{List: &fpb.BoolList{Options: []bool{true, false}, Random: v.kind == 12}}}}
	case 13, 14:
		out.Value = &fpb.Value_StringListValue{StringListValue: &fpb.StringListValue{Value: []string{"x"}, Distribution: &fpb.StringListValue_List{List: &fpb.StringList{Options: []string{"x", "y", "z"}, Random: v.kind == 14}}}}
	case 15:
		out.Value = &fpb.Value_Delete{Delete: &fpb.DeleteValue{}}
	case 16:
		out.Value = &fpb.Value_IntValue{IntValue: &fpb.IntValue{Value: 7}}
	// cumulative ranges whose step can be larger than the whole range (the
	// result has to saturate at the nearer boundary), and ranges that do not
	// start at zero
	case 17:
		out.Value = &fpb.Value_UintValue{UintValue: &fpb.UintValue{Value: 3, Distribution: &fpb.UintValue_Range{Range: &fpb.UintRange{Minimum: 2, Maximum: 5, DeltaMin: -7, DeltaMax: 7}}}}
	case 18:
		out.Value = &fpb.Value_UintValue{UintValue: &fpb.UintValue{Value: 1, Distribution: &fpb.UintValue_Range{Range: &fpb.UintRange{Minimum: 0, Maximum: 3, DeltaMin: 4, DeltaMax: 9}}}}
	case 19:
		out.Value = &fpb.Value_IntValue{IntValue: &fpb.IntValue{Value: 0, Distribution: &fpb.IntValue_Range{Range: &fpb.IntRange{Minimum: -1, Maximum: 2, DeltaMin: -5, DeltaMax: 5}}}}
	case 20:
		out.Value = &fpb.Value_DoubleValue{DoubleValue: &fpb.DoubleValue{Value: 1, Distribution: &fpb.DoubleValue_Range{Range: &fpb.DoubleRange{Minimum: 0.5, Maximum: 3, DeltaMin: -5, DeltaMax: 5}}}}
	case 21:
		out.Value = &fpb.Value_UintValue{UintValue: &fpb.UintValue{Value: 3, Distribution: &fpb.UintValue_Range{Range: &fpb.UintRange{Minimum: 2, Maximum: 5}}}}
	case 22:
		out.Value = &fpb.Value_IntValue{IntValue: &fpb.IntValue{Value: -1, Distribution: &fpb.IntValue_Range{Range: &fpb.IntRange{Minimum: -2, Maximum: 1}}}}
	}
	return out
}

type cfgCase struct {
	vals []vspec
	seed int64
}

func (c cfgCase) String() string {
	var s []string
	for _, v := range c.vals {
		s = append(s, v.String())
	}
	return fmt.Sprintf("seed=%d values=[%s]", c.seed, strings.Join(s, " | "))
}

func (c cfgCase) values() []*fpb.Value {
	var out []*fpb.Value
	for i, v := range c.vals {
		out = append(out, v.build(fmt.Sprintf("v%d", i)))
	}
	return out
}

func grid(tier string) []cfgCase {
	var out []cfgCase
	tss := []int64{0, 1, 5}
	deltas := [][2]int64{{0, 0}, {1, 1}, {0, 2}}
	var single []vspec
	for k := range kindNames {
		for _, ts := range tss {
			for _, d := range deltas {
				for _, rep := range []int32{0, 1, 2, 3} {
					for _, sd := range []int64{0, 7} {
						single = append(single, vspec{k, ts, d[0], d[1], rep, sd})
					}
				}
			}
		}
	}
	for _, v := range single {
		for _, gs := range []int64{1, 2} {
			out = append(out, cfgCase{[]vspec{v}, gs})
		}
	}
	// values whose timestamp is not configured at all, alone and next to a
	// stamped value
	for _, k := range []int{16, 5, 15, 0} {
		for _, rep := range []int32{0, 1, 2} {
			u := vspec{k, -1, 0, 0, rep, 0}
			out = append(out, cfgCase{[]vspec{u}, 1}, cfgCase{[]vspec{u, {16, 5, 1, 1, 2, 0}}, 1}, cfgCase{[]vspec{{16, 0, 1, 1, 2, 0}, u}, 2})
		}
	}
	// several randomised values with their OWN seeds next to several finite
	// values without one (which draw from the generator-wide PRNG): a second
	// generator built after the first one ran out must repeat its sequence
	for _, rk := range [][2]int{{6, 6}, {6, 10}, {2, 12}, {14, 6}} {
		for _, rep := range []int32{2, 3} {
			out = append(out, cfgCase{[]vspec{{rk[0], 0, 1, 1, rep, 7}, {16, 0, 1, 1, 1, 0}, {rk[1], 1, 1, 1, rep, 9}, {5, 1, 0, 2, 1, 0}, {15, 2, 1, 1, 1, 0}}, 3})
			// the seeded values run out FIRST, the values without a seed of their own last
			out = append(out, cfgCase{[]vspec{{rk[0], 0, 0, 2, rep, 7}, {rk[1], 0, 0, 2, rep, 9}, {rk[0], 1, 0, 2, rep, 11}, {16, 50, 1, 1, 1, 0}, {5, 51, 1, 1, 1, 0}, {15, 52, 1, 1, 1, 0}}, 3})
		}
	}
	var red []vspec
	kinds := []int{0, 5, 15}
	if tier == "thorough" {
		kinds = []int{0, 1, 5, 6, 14, 15}
	}
	for _, k := range kinds {
		for _, ts := range []int64{0, 5} {
			for _, d := range deltas {
				for _, rep := range []int32{0, 2} {
					red = append(red, vspec{k, ts, d[0], d[1], rep, 0})
				}
			}
		}
	}
	for _, a := range red {
		for _, b := range red {
			out = append(out, cfgCase{[]vspec{a, b}, 1})
		}
	}
	var red3 []vspec
	for _, k := range []int{0, 15} {
		for _, ts := range tss {
			for _, d := range [][2]int64{{1, 1}, {0, 2}} {
				for _, rep := range []int32{1, 2} {
					red3 = append(red3, vspec{k, ts, d[0], d[1], rep, 0})
				}
			}
		}
	}
	for i := range red3 {
		for j := i; j < len(red3); j++ {
			for k := j; k < len(red3); k++ {
				if (i+j+k)%3 == 0 || tier == "thorough" {
					out = append(out, cfgCase{[]vspec{red3[i], red3[j], red3[k]}, 2})
				}
			}
		}
	}
	// many values (the generator orders them by timestamp; orderings of more
	// than a dozen entries go through different code in the standard library
	// than short ones): n values of deterministic kinds, initial timestamps in
	// several patterns that are NOT sorted, finite and unbounded repeats
	ns := []int{13, 16, 22, 40}
	if tier == "thorough" {
		ns = []int{13, 14, 16, 19, 22, 30, 40, 64, 100}
	}
	detKinds := []int{16, 15, 5, 9, 11, 13, 8}
	patterns := [][]int64{{1000, 500}, {5, 0, 1}, {3, 3, 3, 9}, {0, 1, 2, 3, 4, 5, 6}, {7, 7}, {9, 8, 7, 6, 5, 4, 3, 2, 1}}
	for _, n := range ns {
		for pi, pat := range patterns {
			for _, rep := range []int32{1, 2, 0} {
				for _, d := range [][2]int64{{1, 1}, {0, 0}} {
					// unbounded values: only patterns whose timestamps lie within 9 of
					// each other, so that the sync marker falls inside the horizon
					if rep == 0 && (d[0] == 0 || (pi != 1 && pi != 2)) {
						continue
					}
					var vs []vspec
					for i := 0; i < n; i++ {
						vs = append(vs, vspec{detKinds[i%len(detKinds)], pat[i%len(pat)], d[0], d[1], rep, 0})
					}
					out = append(out, cfgCase{vs, 1})
				}
			}
		}
	}
	return out
}

func initTS(v vspec) int64 {
	if v.ts < 0 {
		return 0
	}
	return v.ts
}

func latestInit(c cfgCase) int64 {
	var l int64
	for _, v := range c.vals {
		if t := initTS(v); t > l {
			l = t
		}
	}
	return l
}

func vio(class, format string, a ...interface{}) []seqmc.Violation {
	return []seqmc.Violation{{Class: class, Msg: fmt.Sprintf(format, a...)}}
}

// run drives a generator (with the sync marker injected as the fake target
// does) for up to horizon Next calls.
func run(c cfgCase) ([]*fpb.Value, bool, error) { return runWith(c, c.values()) }

// runWith drives a generator built from the given configuration objects.
func runWith(c cfgCase, vals []*fpb.Value) ([]*fpb.Value, bool, error) {
	q := queue.New(false, c.seed, vals)
	q.Add(&fpb.Value{Timestamp: &fpb.Timestamp{Timestamp: q.Latest()}, Repeat: 1, Value: &fpb.Value_Sync{Sync: 1}})
	var out []*fpb.Value
	for i, horizon := 0, horizonFor(c); i < horizon; i++ {
		v, err := q.Next()
		if err != nil {
			return out, false, err
		}
		if v == nil {
			return out, true, nil
		}
		out = append(out, v.(*fpb.Value))
	}
	return out, false, nil
}

func inOptions(kind int, v *fpb.Value) string {
	switch kind {
	case 0, 1:
		if x := v.GetIntValue().Value; x < 0 || x > 3 {
			return fmt.Sprintf("int %d outside [0,3]", x)
		}
	case 2:
		if x := v.GetUintValue().Value; x > 3 {
			return fmt.Sprintf("uint %d outside [0,3]", x)
		}
	case 3, 4:
		if x := v.GetDoubleValue().Value; x < 0 || x > 3 {
			return fmt.Sprintf("double %v outside [0,3]", x)
		}
	case 5, 6:
		if x := v.GetIntValue().Value; x < 1 || x > 3 {
			return fmt.Sprintf("int %d not an option of {1,2,3}", x)
		}
	case 7:
		if x := v.GetUintValue().Value; x < 1 || x > 2 {
			return fmt.Sprintf("uint %d not an option of {1,2}", x)
		}
	case 8:
		if x := v.GetDoubleValue().Value; x != 1.5 && x != 2.5 {
			return fmt.Sprintf("double %v not an option", x)
		}
	case 9, 10:
		if x := v.GetStringValue().Value; x != "a" && x != "b" {
			return fmt.Sprintf("string %q not an option", x)
		}
	case 13, 14:
		for _, x := range v.GetStringListValue().Value {
			if x != "x" && x != "y" && x != "z" {
				return fmt.Sprintf("string-list element %q not an option", x)
			}
		}
	case 16:
		if x := v.GetIntValue().Value; x != 7 {
			return fmt.Sprintf("plain int changed to %d", x)
		}
	case 17, 21:
		if x := v.GetUintValue().Value; x < 2 || x > 5 {
			return fmt.Sprintf("uint %d outside [2,5]", x)
		}
	case 18:
		if x := v.GetUintValue().Value; x > 3 {
			return fmt.Sprintf("uint %d outside [0,3]", x)
		}
	case 19:
		if x := v.GetIntValue().Value; x < -1 || x > 2 {
			return fmt.Sprintf("int %d outside [-1,2]", x)
		}
	case 20:
		if x := v.GetDoubleValue().Value; x < 0.5 || x > 3 {
			return fmt.Sprintf("double %v outside [0.5,3]", x)
		}
	case 22:
		if x := v.GetIntValue().Value; x < -2 || x > 1 {
			return fmt.Sprintf("int %d outside [-2,1]", x)
		}
	}
	return ""
}

func check(c cfgCase, seq []*fpb.Value, ended bool, err error) []seqmc.Violation {
	if err != nil {
		return vio("generator-error", "%v: Next returned error %v", c, err)
	}
	var last int64 = -1 << 62
	count := map[string]int{}
	lastTS := map[string]int64{}
	syncAt := -1
	for i, v := range seq {
		ts := v.GetTimestamp().GetTimestamp()
		if ts < last {
			return vio("timestamp-order", "%v: emission %d has timestamp %d after %d", c, i, ts, last)
		}
		last = ts
		if _, ok := v.Value.(*fpb.Value_Sync); ok {
			if syncAt >= 0 {
				return vio("sync-twice", "%v: sync emitted twice", c)
			}
			syncAt = i
			for vi := range c.vals {
				if count[fmt.Sprintf("v%d", vi)] == 0 {
					return vio("sync-before-first-emission", "%v: sync emitted at position %d before the first emission of value v%d", c, i, vi)
				}
			}
			continue
		}
		name := v.Path[0]
		var vi int
		fmt.Sscanf(name, "v%d", &vi)
		spec := c.vals[vi]
		if m := inOptions(spec.kind, v); m != "" {
			return vio("value-out-of-bounds", "%v: emission %d of %s: %s", c, i, name, m)
		}
		if count[name] > 0 {
			step := ts - lastTS[name]
			if step < spec.dmin || step > spec.dmax {
				return vio("timestamp-step", "%v: %s stepped by %d, delta bounds [%d,%d]", c, name, step, spec.dmin, spec.dmax)
			}
		} else if want := spec.ts; ts != want && !(want < 0 && ts == 0) {
			return vio("initial-timestamp", "%v: first emission of %s at %d, configured %d (-1: not configured, i.e. 0)", c, name, ts, spec.ts)
		}
		count[name]++
		lastTS[name] = ts
	}
	progress := true
	for vi, spec := range c.vals {
		name := fmt.Sprintf("v%d", vi)
		if spec.repeat > 0 {
			if count[name] > int(spec.repeat) {
				return vio("repeat-exceeded", "%v: %s emitted %d times, repeat=%d", c, name, count[name], spec.repeat)
			}
			if ended && count[name] != int(spec.repeat) {
				return vio("repeat-short", "%v: stream ended but %s was emitted %d times, repeat=%d", c, name, count[name], spec.repeat)
			}
		} else {
			if ended {
				return vio("unbounded-value-dropped", "%v: stream ended although %s repeats indefinitely", c, name)
			}
			if spec.dmin == 0 {
				// a value that may stand still blocks everything stamped later -
				// unless it stands at the latest initial timestamp, the sync
				// marker's own: values sharing a timestamp take turns, so the
				// marker (and every peer there) still gets out
				if !(spec.dmax == 0 && initTS(spec) == latestInit(c)) {
					progress = false
				}
			}
		}
	}
	if ended && syncAt < 0 {
		return vio("sync-missing", "%v: stream ended without a sync marker", c)
	}
	if progress && syncAt < 0 {
		return vio("sync-missing", "%v: every value makes progress but no sync marker within %d emissions", c, horizonFor(c))
	}
	return nil
}

func render(seq []*fpb.Value) string {
	var b strings.Builder
	for _, v := range seq {
		x, _ := proto.MarshalOptions{Deterministic: true}.Marshal(v)
		fmt.Fprintf(&b, "%x;", x)
	}
	return b.String()
}

type fakeStream struct {
	gpb.GNMI_SubscribeServer
	req  *gpb.SubscribeRequest
	sent []*gpb.SubscribeResponse
	done chan struct{}
	n    int
	// halfClose: the subscriber closes its request direction right after the
	// subscription request (legal gRPC) and keeps reading
	halfClose bool
}

func (s *fakeStream) Recv() (*gpb.SubscribeRequest, error) {
	s.n++
	if s.n == 1 {
		return s.req, nil
	}
	if s.halfClose {
		return nil, io.EOF
	}
	<-s.done
	return nil, io.EOF
}
func (s *fakeStream) Send(r *gpb.SubscribeResponse) error { s.sent = append(s.sent, r); return nil }
func (s *fakeStream) Context() context.Context            { return context.Background() }
func (s *fakeStream) SetHeader(metadata.MD) error         { return nil }
func (s *fakeStream) SendHeader(metadata.MD) error        { return nil }
func (s *fakeStream) SetTrailer(metadata.MD)              {}

func specGrid(tier string) seqmc.Spec {
	cases := grid(tier)
	return seqmc.Spec{Name: fmt.Sprintf("generator grid (%d configurations): every PRNG outcome within %d draws, seeded reproducibility, sync through the fake agent", len(cases), drawDepth), N: len(cases), Run: func(i int) (string, bool, []seqmc.Violation) {
		c := cases[i]
		desc := c.String()
		// --- oracle mode: DFS over draw scripts
		var rec func(ans []int) []seqmc.Violation
		runs := 0
		rec = func(ans []int) []seqmc.Violation {
			s := &vrand.Script{Answers: ans, Limit: drawDepth}
			vrand.SetScript(s)
			seq, ended, err := run(c)
			vrand.SetScript(nil)
			runs++
			if v := check(c, seq, ended, err); v != nil {
				v[0].Msg += fmt.Sprintf(" [PRNG draws answered %v]", ans)
				return v
			}
			for d := len(ans); d < len(s.Arity); d++ {
				for a := 1; a < s.Arity[d]; a++ {
					next := append(append([]int{}, ans...), make([]int, d-len(ans))...)
					next = append(next, a)
					if v := rec(next); v != nil {
						return v
					}
				}
			}
			return nil
		}
		if v := rec(nil); v != nil {
			return desc, true, v
		}
		// --- seeded mode: reproducibility and the same invariants
		a, ea, erra := run(c)
		// the second generator is built an hour later: wall-clock time must not
		// leak into the stream
		vrt.Advance(time.Hour)
		b, _, errb := run(c)
		if v := check(c, a, ea, erra); v != nil {
			return desc, true, v
		}
		if render(a) != render(b) || (erra == nil) != (errb == nil) {
			return desc, true, vio("not-reproducible", "%v: two generators from equal configurations and the same seed emitted different sequences", c)
		}
		// ... and two generators built one after the other from the SAME
		// configuration object (as the fake agent does on every reset / Subscribe)
		shared := c.values()
		// (an absent timestamp filled in as the empty one is not a modification:
		// both mean zero with no steps)
		norm := func(vs []*fpb.Value) string {
			var cp []*fpb.Value
			for _, v := range vs {
				x := proto.Clone(v).(*fpb.Value)
				if x.Timestamp == nil {
					x.Timestamp = &fpb.Timestamp{}
				}
				cp = append(cp, x)
			}
			return render(cp)
		}
		before := norm(shared)
		s1, _, e1 := runWith(c, shared)
		s2, _, e2 := runWith(c, shared)
		if render(s1) != render(s2) || (e1 == nil) != (e2 == nil) {
			return desc, true, vio("not-reproducible-same-config-object", "%v: a second generator built from the same configuration object (after the first was drained) emitted a different sequence: first %d emissions, second %d", c, len(s1), len(s2))
		}
		if norm(shared) != before {
			return desc, true, vio("generator-mutates-configuration", "%v: running a generator modified the configuration it was built from", c)
		}
		// --- through the fake agent (finite configurations only)
		finite := true
		for _, v := range c.vals {
			if v.repeat == 0 {
				finite = false
			}
		}
		for _, half := range []bool{false, true} {
			if !finite {
				break
			}
			cfg := &fpb.Config{Target: "t", Seed: c.seed, Values: c.values()}
			cl := fgnmi.NewClient(cfg)
			st := &fakeStream{req: &gpb.SubscribeRequest{Request: &gpb.SubscribeRequest_Subscribe{Subscribe: &gpb.SubscriptionList{}}}, done: make(chan struct{}), halfClose: half}
			cl.Run(st)
			close(st.done)
			if half {
				desc += " [subscriber half-closed]"
			}
			seen := map[string]bool{}
			syncs := 0
			var lastTS int64 = -1 << 62
			for _, r := range st.sent {
				if r.GetSyncResponse() {
					syncs++
					for vi := range c.vals {
						if !seen[fmt.Sprintf("v%d", vi)] {
							return desc, true, vio("agent-sync-before-first-emission", "%v: the agent sent sync_response before the first update of v%d", c, vi)
						}
					}
					continue
				}
				n := r.GetUpdate()
				if n.GetTimestamp() < lastTS {
					return desc, true, vio("agent-timestamp-order", "%v: the agent sent timestamp %d after %d", c, n.GetTimestamp(), lastTS)
				}
				lastTS = n.GetTimestamp()
				for _, u := range n.Update {
					seen[u.Path.Element[0]] = true
				}
				for _, d := range n.Delete {
					seen[d.Element[0]] = true
				}
			}
			if syncs != 1 {
				return desc, true, vio("agent-sync-count", "%v: the agent sent %d sync responses", c, syncs)
			}
			want := 0
			for _, v := range c.vals {
				want += int(v.repeat)
			}
			if len(st.sent)-1 != want {
				return desc, true, vio("agent-emission-count", "%v: the agent sent %d updates, repeats sum to %d", c, len(st.sent)-1, want)
			}
		}
		return fmt.Sprintf("%s (%d PRNG scripts)", desc, runs), runs > 1, nil
	}}
}

// ---- fixed response lists and the DisableSync option

func fixedResp(kind string) *gpb.SubscribeResponse {
	el := func(n string) *gpb.Path { return &gpb.Path{Element: []string{n}} }
	upd := func(ts int64, n string) *gpb.SubscribeResponse {
		return &gpb.SubscribeResponse{Response: &gpb.SubscribeResponse_Update{Update: &gpb.Notification{Timestamp: ts, Update: []*gpb.Update{{Path: el(n), Val: &gpb.TypedValue{Value: &gpb.TypedValue_IntVal{IntVal: ts}}}}}}}
	}
	switch kind {
	case "u1":
		return upd(1, "a")
	case "u3":
		return upd(3, "b")
	case "u2":
		return upd(2, "c") // older than a preceding u3: lists are played as given
	case "d2":
		return &gpb.SubscribeResponse{Response: &gpb.SubscribeResponse_Update{Update: &gpb.Notification{Timestamp: 2, Delete: []*gpb.Path{el("a")}}}}
	}
	return &gpb.SubscribeResponse{Response: &gpb.SubscribeResponse_SyncResponse{SyncResponse: true}}
}

func renderResps(rs []*gpb.SubscribeResponse) string {
	var b strings.Builder
	for _, r := range rs {
		x, _ := proto.MarshalOptions{Deterministic: true}.Marshal(r)
		fmt.Fprintf(&b, "%x;", x)
	}
	return b.String()
}

// specFixed: the fixed generator plays the configured responses exactly once,
// in the configured order, followed by one sync marker unless DisableSync is
// set; the same configuration object played twice gives the same stream and
// is left as it was. Also DisableSync with the value generator.
func specFixed() seqmc.Spec {
	kinds := []string{"u1", "u3", "u2", "d2", "s"}
	var lists [][]string
	var rec func(cur []string)
	rec = func(cur []string) {
		lists = append(lists, append([]string{}, cur...))
		if len(cur) == 3 {
			return
		}
		for _, k := range kinds {
			rec(append(cur, k))
		}
	}
	rec(nil)
	type fc struct {
		list           []string
		delay, disable bool
		spare          bool // configured slice has spare capacity (an append in place would be visible to a second player)
	}
	var cases []fc
	for _, l := range lists {
		for _, delay := range []bool{false, true} {
			for _, dis := range []bool{false, true} {
				for _, spare := range []bool{false, true} {
					cases = append(cases, fc{l, delay, dis, spare})
				}
			}
		}
	}
	return seqmc.Spec{Name: fmt.Sprintf("fixed response lists (%d configurations) through the queue and the fake agent, DisableSync", len(cases)), N: len(cases), Run: func(i int) (string, bool, []seqmc.Violation) {
		c := cases[i]
		desc := fmt.Sprintf("fixed %v delay=%v disable_sync=%v spare=%v", c.list, c.delay, c.disable, c.spare)
		mk := func() []*gpb.SubscribeResponse {
			out := make([]*gpb.SubscribeResponse, 0, len(c.list)+4)
			for _, k := range c.list {
				out = append(out, fixedResp(k))
			}
			if !c.spare {
				out = out[:len(out):len(out)]
			}
			return out
		}
		want := renderResps(mk())
		// (a) the queue itself
		resps := mk()
		q := queue.NewFixed(resps, c.delay)
		var got []*gpb.SubscribeResponse
		for k := 0; k < len(c.list)+2; k++ {
			v, err := q.Next()
			if err != nil {
				return desc, true, vio("fixed-queue-error", "%s: Next returned %v", desc, err)
			}
			if v == nil {
				break
			}
			got = append(got, v.(*gpb.SubscribeResponse))
		}
		if renderResps(got) != want {
			return desc, true, vio("fixed-queue-order", "%s: the queue played %d responses, not the %d configured ones in their order", desc, len(got), len(c.list))
		}
		extra := fixedResp("u3")
		q.Add(extra)
		if v, err := q.Next(); err != nil || v == nil || !proto.Equal(v.(*gpb.SubscribeResponse), extra) {
			return desc, true, vio("fixed-queue-add", "%s: a response added to the drained queue was not played next (%v, %v)", desc, v, err)
		}
		if v, _ := q.Next(); v != nil {
			return desc, true, vio("fixed-queue-order", "%s: the queue played a response twice", desc)
		}
		// (b) through the fake agent, the same configuration object played twice
		cfg := &fpb.Config{Target: "t", EnableDelay: c.delay, DisableSync: c.disable, Generator: &fpb.Config_Fixed{Fixed: &fpb.FixedGenerator{Responses: mk()}}}
		before := renderResps(cfg.GetFixed().Responses)
		wantAgent := mk()
		if !c.disable {
			wantAgent = append(wantAgent, fixedResp("s"))
		}
		for round := 1; round <= 2; round++ {
			cl := fgnmi.NewClient(cfg)
			st := &fakeStream{req: &gpb.SubscribeRequest{Request: &gpb.SubscribeRequest_Subscribe{Subscribe: &gpb.SubscriptionList{}}}, done: make(chan struct{})}
			cl.Run(st)
			close(st.done)
			if renderResps(st.sent) != renderResps(wantAgent) {
				return desc, true, vio("fixed-agent-stream", "%s: play %d through the agent sent %d responses; expected the %d configured ones in order%s", desc, round, len(st.sent), len(c.list), map[bool]string{false: " followed by one sync marker", true: " and no sync marker"}[c.disable])
			}
			if renderResps(cfg.GetFixed().Responses) != before {
				return desc, true, vio("generator-mutates-configuration", "%s: playing the fixed generator modified the configured response list", desc)
			}
		}
		// (c) DisableSync with the value generator: no sync marker, same emissions
		if len(c.list) > 0 && !c.delay && !c.spare {
			var vals []*fpb.Value
			for j := range c.list {
				vals = append(vals, vspec{16, int64(j % 2), 1, 1, 2, 0}.build(fmt.Sprintf("v%d", j)))
			}
			gcfg := &fpb.Config{Target: "t", Seed: 1, DisableSync: c.disable, Values: vals}
			cl := fgnmi.NewClient(gcfg)
			st := &fakeStream{req: &gpb.SubscribeRequest{Request: &gpb.SubscribeRequest_Subscribe{Subscribe: &gpb.SubscriptionList{}}}, done: make(chan struct{})}
			cl.Run(st)
			close(st.done)
			syncs, upds := 0, 0
			for _, r := range st.sent {
				if r.GetSyncResponse() {
					syncs++
				} else {
					upds++
				}
			}
			wantSyncs := 1
			if c.disable {
				wantSyncs = 0
			}
			if syncs != wantSyncs || upds != 2*len(vals) {
				return desc, true, vio("agent-sync-count", "%s: value generator with disable_sync=%v sent %d sync markers and %d updates (expected %d and %d)", desc, c.disable, syncs, upds, wantSyncs, 2*len(vals))
			}
		}
		return desc, len(c.list) > 1, nil
	}}
}

// specRefill: every sequence of <=maxLen operations {Next, Add of a one-shot
// value at timestamp 3 / 5 / 7 / 10, Add of a value that repeats once more 4
// later} on a generator created with one-shot values at 5 and 10 - a generator
// that is drained (partly or completely) and refilled. Reference model: a list
// kept sorted by timestamp, stable among equal timestamps; Latest is the
// highest timestamp ever inserted.
func specRefill(maxLen int) seqmc.Spec {
	type rop struct {
		kind   string
		ts     int64
		repeat int32
	}
	alpha := []rop{{"next", 0, 0}, {"add", 3, 1}, {"add", 5, 1}, {"add", 7, 1}, {"add", 10, 1}, {"add", 3, 2}}
	var seqs [][]int
	var rec func(cur []int)
	rec = func(cur []int) {
		if len(cur) > 0 {
			seqs = append(seqs, append([]int{}, cur...))
		}
		if len(cur) == maxLen {
			return
		}
		for i := range alpha {
			rec(append(cur, i))
		}
	}
	rec(nil)
	type ment struct {
		ts     int64
		id     int64
		repeat int32
	}
	mk := func(id, ts int64, repeat int32) *fpb.Value {
		return &fpb.Value{Path: []string{"v"}, Repeat: repeat, Timestamp: &fpb.Timestamp{Timestamp: ts, DeltaMin: 4, DeltaMax: 4}, Value: &fpb.Value_Sync{Sync: uint64(id)}}
	}
	return seqmc.Spec{Name: fmt.Sprintf("drain and refill: every sequence of <=%d operations over Next / Add(one-shot at 3,5,7,10) / Add(repeating once more, +4) on a generator holding one-shot values at 5 and 10, against a stable sorted list", maxLen), N: len(seqs), Run: func(i int) (string, bool, []seqmc.Violation) {
		var model []ment
		latest := int64(0)
		insert := func(e ment) {
			if e.ts > latest {
				latest = e.ts
			}
			k := len(model)
			for j, m := range model {
				if m.ts > e.ts {
					k = j
					break
				}
			}
			model = append(model[:k], append([]ment{e}, model[k:]...)...)
		}
		q := queue.New(false, 1, []*fpb.Value{mk(1, 5, 1), mk(2, 10, 1)})
		insert(ment{5, 1, 1})
		insert(ment{10, 2, 1})
		next := int64(3)
		var names []string
		for _, k := range seqs[i] {
			o := alpha[k]
			if o.kind == "add" {
				names = append(names, fmt.Sprintf("Add(#%d@%d repeat=%d)", next, o.ts, o.repeat))
				q.Add(mk(next, o.ts, o.repeat))
				insert(ment{o.ts, next, o.repeat})
				next++
			} else {
				names = append(names, "Next")
				v, err := q.Next()
				desc := strings.Join(names, "; ")
				if err != nil {
					return desc, true, vio("refill-next-error", "%s: Next returned %v", desc, err)
				}
				if len(model) == 0 {
					if v != nil {
						return desc, true, vio("refill-order", "%s: the generator is empty but Next returned %v", desc, v)
					}
					continue
				}
				h := model[0]
				model = model[1:]
				fv, _ := v.(*fpb.Value)
				if v == nil || fv == nil || int64(fv.GetSync()) != h.id || fv.GetTimestamp().GetTimestamp() != h.ts {
					return desc, true, vio("refill-order", "%s: Next returned %v, the earliest pending value is #%d@%d (timestamp order, insertion order among equals)", desc, v, h.id, h.ts)
				}
				if h.repeat > 1 {
					insert(ment{h.ts + 4, h.id, h.repeat - 1})
				}
			}
			if got := q.Latest(); got != latest {
				desc := strings.Join(names, "; ")
				return desc, true, vio("refill-latest", "%s: Latest() = %d, the highest timestamp ever inserted is %d", desc, got, latest)
			}
		}
		// finally drain the generator: everything pending comes out in model order
		desc := strings.Join(names, "; ")
		for step := 0; len(model) > 0 && step < 64; step++ {
			h := model[0]
			model = model[1:]
			v, err := q.Next()
			fv, _ := v.(*fpb.Value)
			if err != nil || v == nil || fv == nil || int64(fv.GetSync()) != h.id || fv.GetTimestamp().GetTimestamp() != h.ts {
				return desc, true, vio("refill-order", "%s; then draining: Next #%d returned %v (%v), the earliest pending value is #%d@%d", desc, step+1, v, err, h.id, h.ts)
			}
			if h.repeat > 1 {
				insert(ment{h.ts + 4, h.id, h.repeat - 1})
			}
		}
		if v, _ := q.Next(); v != nil {
			return desc, true, vio("refill-order", "%s; drained, but Next still returns %v", desc, v)
		}
		return desc, true, nil
	}}
}

// ---- a POLL subscription on the fake client across SetConfig

type pollStream struct {
	gpb.GNMI_SubscribeServer
	mu    sync.Mutex
	sent  []*gpb.SubscribeResponse
	n     int
	reqs  chan *gpb.SubscribeRequest
	syncC chan struct{}
}

func (s *pollStream) Recv() (*gpb.SubscribeRequest, error) {
	s.n++
	if s.n == 1 {
		return &gpb.SubscribeRequest{Request: &gpb.SubscribeRequest_Subscribe{Subscribe: &gpb.SubscriptionList{Mode: gpb.SubscriptionList_POLL}}}, nil
	}
	r, ok := <-s.reqs
	if !ok {
		return nil, io.EOF
	}
	return r, nil
}
func (s *pollStream) Send(r *gpb.SubscribeResponse) error {
	s.mu.Lock()
	s.sent = append(s.sent, r)
	s.mu.Unlock()
	if r.GetSyncResponse() {
		s.syncC <- struct{}{}
	}
	return nil
}
func (s *pollStream) Context() context.Context     { return context.Background() }
func (s *pollStream) SetHeader(metadata.MD) error  { return nil }
func (s *pollStream) SendHeader(metadata.MD) error { return nil }
func (s *pollStream) SetTrailer(metadata.MD)       {}

// specPollSetConfig: one POLL subscription of the fake client, polled 1-3
// times, with the configuration replaced (SetConfig) before the k-th poll by
// one with more / fewer values and an earlier / equal / later latest timestamp:
// in every round the sync marker comes after the first emission of every value
// of the configuration in force, and every value is emitted once.
func specPollSetConfig() seqmc.Spec {
	mkv := func(name string, ts int64) *fpb.Value {
		return &fpb.Value{Path: []string{name}, Repeat: 1, Timestamp: &fpb.Timestamp{Timestamp: ts}, Value: &fpb.Value_IntValue{IntValue: &fpb.IntValue{Value: 1}}}
	}
	type sc struct {
		first, second [][2]interface{} // (name, ts)
		polls, swapAt int              // SetConfig before poll #swapAt (0 = never)
	}
	sets := [][][2]interface{}{
		{{"v0", int64(5)}},
		{{"v0", int64(5)}, {"v1", int64(3)}},
		{{"v0", int64(5)}, {"v1", int64(5)}},
		{{"v0", int64(5)}, {"v1", int64(20)}},
		{{"v0", int64(2)}, {"v1", int64(9)}, {"v2", int64(30)}, {"v3", int64(40)}},
	}
	var cases []sc
	for _, a := range sets {
		for _, b := range sets {
			for polls := 1; polls <= 3; polls++ {
				for swap := 0; swap <= polls; swap++ {
					cases = append(cases, sc{a, b, polls, swap})
				}
			}
		}
	}
	build := func(vs [][2]interface{}) *fpb.Config {
		c := &fpb.Config{Target: "t", Seed: 1}
		for _, v := range vs {
			c.Values = append(c.Values, mkv(v[0].(string), v[1].(int64)))
		}
		return c
	}
	return seqmc.Spec{Name: fmt.Sprintf("fake client, one POLL subscription polled 1-3 times with the configuration replaced before the k-th poll (%d cases)", len(cases)), N: len(cases), Run: func(i int) (string, bool, []seqmc.Violation) {
		c := cases[i]
		desc := fmt.Sprintf("config %v, %d polls, SetConfig(%v) before poll #%d (0 = never)", c.first, c.polls, c.second, c.swapAt)
		cl := fgnmi.NewClient(build(c.first))
		st := &pollStream{reqs: make(chan *gpb.SubscribeRequest), syncC: make(chan struct{}, 16)}
		done := make(chan error, 1)
		go func() { done <- cl.Run(st) }()
		wait := func() bool {
			select {
			case <-st.syncC:
				return true
			case <-time.After(120 * time.Second):
				return false
			}
		}
		inForce := [][][2]interface{}{c.first}
		if !wait() {
			return desc, true, vio("poll-hang", "%s: no sync_response for the initial round within 120s", desc)
		}
		for p := 1; p <= c.polls; p++ {
			cur := inForce[len(inForce)-1]
			if p == c.swapAt {
				cl.SetConfig(build(c.second))
				cur = c.second
			}
			inForce = append(inForce, cur)
			st.reqs <- &gpb.SubscribeRequest{Request: &gpb.SubscribeRequest_Poll{Poll: &gpb.Poll{}}}
			if !wait() {
				return desc, true, vio("poll-hang", "%s: no sync_response for poll #%d within 120s", desc, p)
			}
		}
		close(st.reqs)
		cl.Close()
		st.mu.Lock()
		sent := append([]*gpb.SubscribeResponse{}, st.sent...)
		st.mu.Unlock()
		round := 0
		seen := map[string]int{}
		for _, r := range sent {
			if r.GetSyncResponse() {
				if round >= len(inForce) {
					return desc, true, vio("agent-sync-count", "%s: more sync responses than rounds", desc)
				}
				for _, v := range inForce[round] {
					if seen[v[0].(string)] != 1 {
						return desc, true, vio("agent-sync-before-first-emission", "%s: round %d: sync_response sent when %s had been emitted %d times (every value of the configuration in force once, before the sync)", desc, round, v[0], seen[v[0].(string)])
					}
				}
				round++
				seen = map[string]int{}
				continue
			}
			for _, u := range r.GetUpdate().GetUpdate() {
				seen[u.Path.Element[0]]++
			}
		}
		if round != c.polls+1 {
			return desc, true, vio("agent-sync-count", "%s: %d sync responses for %d rounds", desc, round, c.polls+1)
		}
		return desc, true, nil
	}}
}

type harness struct{}

func (harness) Property() string { return "C20" }
func (harness) Specs(tier string) []seqmc.Spec {
	n := 6
	if tier == "thorough" {
		n = 8
	}
	return []seqmc.Spec{specGrid(tier), specFixed(), specRefill(n), specPollSetConfig()}
}

func main() { seqmc.Main(harness{}) }
