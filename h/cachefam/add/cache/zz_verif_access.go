package cache

// Added by /verif through the build overlay only (never committed to the
// repository): read access to unexported state for the harness.

// VerifLatest returns the target's latest accepted timestamp (0 = unset).
func (t *Target) VerifLatest() int64 {
	t.tsmu.Lock()
	defer t.tsmu.Unlock()
	if t.ts.IsZero() {
		return 0
	}
	return t.ts.UnixNano()
}
