package main

import (
	"fmt"
	"sort"
	"strings"
	"time"

	"github.com/openconfig/gnmi/cache"
	"github.com/openconfig/gnmi/ctree"
	"github.com/openconfig/gnmi/latency"
	"github.com/openconfig/gnmi/metadata"
	pb "github.com/openconfig/gnmi/proto/gnmi"
	"github.com/openconfig/gnmi/zzverif/seqmc"
)

// Latency statistics (C15): sequences over {Compute(latency), advance the
// clock by one update period, UpdateReset} into a recording Metadata. Every
// value WRITTEN for a window during an update in which the window holds at
// least one sample must lie in [min(samples) - precision, max(samples)].

const period = 10 // ns

type recMeta struct{ writes map[string]int64 }

func (r *recMeta) SetInt(name string, v int64) error { r.writes[name] = v; return nil }

type lslot struct {
	samples []int64
	start   int64
	end     int64
}

type latSys struct {
	cfg     *latCfg
	l       *latency.Latency
	clock   int64
	pending []int64
	pstart  int64             // start of the pending batch (0 = unset)
	slots   map[int64][]lslot // per window size
	covered map[int64]bool
	last    map[string]int64
}

type latCfg struct {
	windows   []int64
	precision int64
	ops       []string
}

var latClock *int64

func init() {
	latency.Now = func() time.Time {
		if latClock == nil {
			return time.Unix(0, 1)
		}
		return time.Unix(0, *latClock)
	}
}

func newLatSys(cfg *latCfg) *latSys {
	s := &latSys{cfg: cfg, clock: 1000, slots: map[int64][]lslot{}, covered: map[int64]bool{}, last: map[string]int64{}}
	latClock = &s.clock
	var ws []time.Duration
	for _, w := range cfg.windows {
		ws = append(ws, time.Duration(w))
	}
	var opts *latency.Options
	if cfg.precision > 1 {
		opts = &latency.Options{AvgPrecision: time.Duration(cfg.precision)}
	}
	s.l = latency.New(ws, opts)
	return s
}

func (s *latSys) Apply(i int) []seqmc.Violation {
	latClock = &s.clock
	op := s.cfg.ops[i]
	switch {
	case strings.HasPrefix(op, "compute"):
		var lat int64
		fmt.Sscanf(op, "compute(%d)", &lat)
		s.l.Compute(time.Unix(0, s.clock-lat))
		s.pending = append(s.pending, lat)
		if s.pstart == 0 {
			s.pstart = s.clock
		}
	case op == "advance":
		s.clock += period
	case op == "update":
		m := &recMeta{writes: map[string]int64{}}
		s.l.UpdateReset(m)
		// model: the pending batch becomes one slot of every window
		if len(s.pending) > 0 {
			for _, w := range s.cfg.windows {
				s.slots[w] = append(s.slots[w], lslot{samples: append([]int64{}, s.pending...), start: s.pstart, end: s.clock})
			}
		}
		s.pending = nil
		s.pstart = s.clock
		for _, w := range s.cfg.windows {
			// slots whose end is not after (now - size) have left the window
			var keep []lslot
			for _, sl := range s.slots[w] {
				if sl.end > s.clock-w {
					keep = append(keep, sl)
				}
			}
			var all []int64
			for _, sl := range keep {
				all = append(all, sl.samples...)
			}
			sort.Slice(all, func(a, b int) bool { return all[a] < all[b] })
			for _, typ := range []latency.StatType{latency.Avg, latency.Max, latency.Min} {
				name := latency.MetadataName(time.Duration(w), typ)
				v, written := m.writes[name]
				if !written {
					continue
				}
				s.last[name] = v
				if len(all) == 0 {
					// the implementation slides before it decides coverage only
					// when it exports; a write with no sample in the window has
					// nothing to be bounded by
					return []seqmc.Violation{{Class: "latency-written-for-empty-window", Msg: fmt.Sprintf("%s=%d was written although the window holds no sample", name, v)}}
				}
				lo, hi := all[0]-s.cfg.precision, all[len(all)-1]
				if s.cfg.precision <= 1 {
					lo = all[0]
				}
				if v < lo || v > hi {
					return []seqmc.Violation{{Class: "latency-out-of-bounds", Msg: fmt.Sprintf("%s=%d exported at t=%d, but the samples in the %dns window are %v (precision %dns): outside [%d, %d]", name, v, s.clock, w, all, s.cfg.precision, lo, hi)}}
				}
			}
			// the implementation only drops slots when it exports (after the
			// window was covered once); mirror that so that the sample sets agree
			if s.covered[w] || (len(s.slots[w]) > 0 && s.clock-s.slots[w][0].start >= w) {
				s.covered[w] = true
				s.slots[w] = keep
			}
		}
	}
	return nil
}

func (s *latSys) Key() string {
	var b strings.Builder
	fmt.Fprintf(&b, "p=%v ps=%d |", s.pending, s.clock-s.pstart)
	for _, w := range s.cfg.windows {
		fmt.Fprintf(&b, "w%d c=%v:", w, s.covered[w])
		for _, sl := range s.slots[w] {
			fmt.Fprintf(&b, "[%v %d %d]", sl.samples, s.clock-sl.start, s.clock-sl.end)
		}
	}
	return b.String()
}

func specsLatency(tier string) []seqmc.Spec {
	var out []seqmc.Spec
	depth := 7
	if tier == "thorough" {
		depth = 9
	}
	for _, prec := range []int64{1, 4} {
		cfg := &latCfg{windows: []int64{2 * period, 4 * period}, precision: prec}
		for _, l := range []int64{1, 2, 5, 9} {
			cfg.ops = append(cfg.ops, fmt.Sprintf("compute(%d)", l))
		}
		cfg.ops = append(cfg.ops, "advance", "update")
		out = append(out, seqmc.Spec{Name: fmt.Sprintf("latency windows 2p,4p precision=%dns", prec), Ops: cfg.ops, Depth: depth, New: func() seqmc.Sys { return newLatSys(cfg) }})
	}
	// a short window next to a long one (the long one spans more than 64
	// refresh periods): windows must not influence each other
	for _, ws := range [][]int64{{1 * period, 128 * period}, {2 * period, 256 * period}} {
		cfg := &latCfg{windows: ws, precision: 1}
		for _, l := range []int64{1, 9} {
			cfg.ops = append(cfg.ops, fmt.Sprintf("compute(%d)", l))
		}
		cfg.ops = append(cfg.ops, "advance", "update")
		d := depth + 3
		out = append(out, seqmc.Spec{Name: fmt.Sprintf("latency windows %dp,%dp (short next to long)", ws[0]/period, ws[1]/period), Ops: cfg.ops, Depth: d, New: func() seqmc.Sys { return newLatSys(cfg) }})
	}
	out = append(out, specCacheLatency(tier))
	return out
}

// ---- latency statistics as the CACHE exports them (cache built WithLatencyWindows)
//
// The target's stream is sampled only while the target is in sync (the initial
// dump after a (re)connect carries old timestamps and says nothing about
// latency). Histories over {sync, reset, dump (an update stamped two hours
// ago), fresh2 / fresh3 (updates stamped 2 s / 3 s ago), tick (2.5 s pass,
// metadata refresh)}. After every refresh each exported latency statistic of
// the 2 s window that is set (> 0) lies between the smallest and the largest
// latency observed - in sync - since the last reset.

type cacheLatSys struct {
	c       *cache.Cache
	now     int64 // ns
	synced  bool
	samples []int64
	seq     int64
	hist    []int
}

var cacheLatNow *int64

var cacheLatOps = []string{"sync", "reset", "dump", "fresh2", "fresh3", "tick"}

func newCacheLatSys() *cacheLatSys {
	s := &cacheLatSys{now: int64(100000 * time.Second)}
	curWorld = nil
	cacheLatNow = &s.now
	latClock = &s.now
	opt, err := cache.WithLatencyWindows([]string{"2s"}, time.Second)
	if err != nil {
		panic(err)
	}
	s.c = cache.New([]string{"t"}, opt)
	s.c.SetClient(func(*ctree.Leaf) {})
	return s
}

func (s *cacheLatSys) upd(ago time.Duration) {
	s.seq++
	s.now += int64(time.Millisecond)
	ts := s.now - int64(ago)
	s.c.GnmiUpdate(&pb.Notification{Timestamp: ts, Prefix: &pb.Path{Target: "t"}, Update: []*pb.Update{{Path: &pb.Path{Elem: []*pb.PathElem{{Name: fmt.Sprintf("l%d", s.seq%3)}}}, Val: &pb.TypedValue{Value: &pb.TypedValue_IntVal{IntVal: s.seq}}}}})
	if s.synced {
		s.samples = append(s.samples, int64(ago))
	}
}

func (s *cacheLatSys) Apply(i int) []seqmc.Violation {
	cacheLatNow, latClock, curWorld = &s.now, &s.now, nil
	s.hist = append(s.hist, i)
	switch cacheLatOps[i] {
	case "sync":
		s.c.Sync("t")
		s.synced = true
	case "reset":
		s.c.Reset("t")
		s.synced = false
		s.samples = nil
	case "dump":
		s.upd(2 * time.Hour)
	case "fresh2":
		s.upd(2 * time.Second)
	case "fresh3":
		s.upd(3 * time.Second)
	case "tick":
		s.now += int64(2500 * time.Millisecond)
		s.c.UpdateMetadata()
		if len(s.samples) == 0 {
			return nil
		}
		lo, hi := s.samples[0], s.samples[0]
		for _, x := range s.samples {
			if x < lo {
				lo = x
			}
			if x > hi {
				hi = x
			}
		}
		var vs []seqmc.Violation
		s.c.Query("t", []string{metadata.Root, "latency"}, func(p []string, _ *ctree.Leaf, v interface{}) error {
			n, ok := v.(*pb.Notification)
			if !ok || len(n.Update) != 1 {
				return nil
			}
			iv, ok := n.Update[0].GetVal().GetValue().(*pb.TypedValue_IntVal)
			if !ok || iv.IntVal <= 0 {
				return nil
			}
			if iv.IntVal < lo-int64(time.Millisecond) || iv.IntVal > hi {
				vs = append(vs, vio("latency-out-of-bounds", "exported %s = %v, but every latency observed in sync since the last reset lies in [%v, %v]", strings.Join(p, "/"), time.Duration(iv.IntVal), time.Duration(lo), time.Duration(hi)))
			}
			return nil
		})
		return vs
	}
	return nil
}

func (s *cacheLatSys) Key() string {
	// time only moves forward: the history itself is the state (depth-bounded enumeration)
	var ex []string
	s.c.Query("t", []string{metadata.Root, "latency"}, func(p []string, _ *ctree.Leaf, v interface{}) error {
		if n, ok := v.(*pb.Notification); ok && len(n.Update) == 1 {
			ex = append(ex, fmt.Sprintf("%s=%d", p[len(p)-1], n.Update[0].GetVal().GetIntVal()))
		}
		return nil
	})
	sort.Strings(ex)
	// the whole history is the state: the space is small (6^depth), and anything
	// coarser would have to guess what the cache remembers across a reset
	return fmt.Sprintf("%v|%d|%v|%v|%d|%v", s.hist, s.now, s.synced, s.samples, s.seq, ex)
}

func specCacheLatency(tier string) seqmc.Spec {
	depth := 6
	if tier == "thorough" {
		depth = 8
	}
	return seqmc.Spec{Name: "latency statistics as the cache exports them (WithLatencyWindows 2s): sync / reset / initial dump / fresh updates / refresh", Ops: cacheLatOps, Depth: depth, New: func() seqmc.Sys { return newCacheLatSys() }}
}
