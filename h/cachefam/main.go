// cachefam — explicit-state checks of the cache ingest path (C02, C03, C14,
// C15 and the ingest part of C12): BFS over operation histories on the real
// cache.Cache in lock-step with a timestamped leaf-map model, a feed replica
// built only from the SetClient callback, frame snapshots and differential
// twins. One binary, the property is selected with -prop.
package main

import (
	"flag"
	"fmt"

	"github.com/openconfig/gnmi/zzverif/seqmc"
)

var prop = flag.String("prop", "C02", "property to check (C02, C03, C14, C15, C12)")

type harness struct{}

func (harness) Property() string { return *prop }

func mkSpec(cfg *specCfg, depth int) seqmc.Spec {
	var names []string
	for _, o := range cfg.ops {
		names = append(names, o.String())
	}
	return seqmc.Spec{Name: cfg.name, Ops: names, Depth: depth, New: func() seqmc.Sys { return newWorld(cfg) }}
}

func oset(names ...string) map[string]bool {
	m := map[string]bool{}
	for _, n := range names {
		m[n] = true
	}
	return m
}

func (harness) Specs(tier string) []seqmc.Spec {
	switch *prop {
	case "C02":
		return specsC02(tier)
	case "C03":
		return specsC03(tier)
	case "C14":
		return specsC14(tier)
	case "C15":
		return specsC15(tier)
	case "C12":
		return specsC12(tier)
	}
	panic(fmt.Sprintf("unknown property %q", *prop))
}

func main() { seqmc.Main(harness{}) }
