package main

import (
	"fmt"
	"math"
	"sort"
	"strings"

	"google.golang.org/protobuf/proto"

	pb "github.com/openconfig/gnmi/proto/gnmi"
)

// pathSpec is one path of the alphabet with its expected index form.
type pathSpec struct {
	name   string   // e.g. "y/z", "c[k=v]", "o:x"
	origin string   // origin carried in the path (not the prefix)
	elems  []string // element names; "name[k=v]" for keyed elements
	index  []string // expected index path (without target), origin included
}

func ps(name string) pathSpec {
	p := pathSpec{name: name}
	rest := name
	if i := strings.Index(name, ":"); i >= 0 {
		p.origin, rest = name[:i], name[i+1:]
		p.index = append(p.index, p.origin)
	}
	if rest != "" {
		for _, e := range strings.Split(rest, "/") {
			p.elems = append(p.elems, e)
			if i := strings.Index(e, "["); i >= 0 {
				p.index = append(p.index, e[:i])
				kv := strings.TrimSuffix(e[i+1:], "]")
				p.index = append(p.index, kv[strings.Index(kv, "=")+1:])
			} else {
				p.index = append(p.index, e)
			}
		}
	}
	return p
}

// mkPath builds the gNMI path. enc: "elem" (PathElem) or "element" (deprecated strings).
func (p pathSpec) mkPath(enc string) *pb.Path {
	out := &pb.Path{Origin: p.origin}
	for _, e := range p.elems {
		name, keys := e, map[string]string(nil)
		if i := strings.Index(e, "["); i >= 0 {
			name = e[:i]
			kv := strings.TrimSuffix(e[i+1:], "]")
			j := strings.Index(kv, "=")
			keys = map[string]string{kv[:j]: kv[j+1:]}
		}
		if enc == "element" {
			out.Element = append(out.Element, name)
			for _, v := range keys {
				out.Element = append(out.Element, v)
			}
		} else {
			out.Elem = append(out.Elem, &pb.PathElem{Name: name, Key: keys})
		}
	}
	return out
}

// ival builds the value of an update. 1001 and 1002 stand for two decimals
// that differ numerically by less than float32 resolution and are encoded
// with different precision (16777216 and 16777217.0).
func ival(v int64) *pb.TypedValue {
	switch v {
	case 1001:
		return &pb.TypedValue{Value: &pb.TypedValue_DecimalVal{DecimalVal: &pb.Decimal64{Digits: 16777216, Precision: 0}}}
	case 1002:
		return &pb.TypedValue{Value: &pb.TypedValue_DecimalVal{DecimalVal: &pb.Decimal64{Digits: 167772170, Precision: 1}}}
	case 1009: // a decimal written with a trailing zero: 4.20
		return &pb.TypedValue{Value: &pb.TypedValue_DecimalVal{DecimalVal: &pb.Decimal64{Digits: 420, Precision: 2}}}
	case 1003: // the same number as IntVal 1 in another arm of the oneof: a different value
		return &pb.TypedValue{Value: &pb.TypedValue_UintVal{UintVal: 1}}
	case 1004:
		return &pb.TypedValue{Value: &pb.TypedValue_StringVal{StringVal: "1"}}
	// structured kinds and NaN: the cache stores and relays them, but value.Equal
	// never calls two of them equal, so they are never suppressed; a re-sent
	// identical notification is still stale
	case 1005:
		return &pb.TypedValue{Value: &pb.TypedValue_JsonVal{JsonVal: []byte(`{"a":1}`)}}
	case 1006:
		return &pb.TypedValue{Value: &pb.TypedValue_JsonVal{JsonVal: []byte(`{"a":2}`)}}
	case 1007:
		return &pb.TypedValue{Value: &pb.TypedValue_AsciiVal{AsciiVal: "up"}}
	case 1008:
		return &pb.TypedValue{Value: &pb.TypedValue_DoubleVal{DoubleVal: math.NaN()}}
	}
	return &pb.TypedValue{Value: &pb.TypedValue_IntVal{IntVal: v}}
}

type updSpec struct {
	p   pathSpec
	val int64
}

// op is one operation of the alphabet.
type op struct {
	kind    string // upd atomic del multi empty sync connect connecterr reset remove add updmeta updsize
	target  string
	ts      int64
	enc     string
	ups     []updSpec
	dels    []pathSpec
	prefix  pathSpec // prefix elements (atomic container, or shared prefix)
	porigin string   // origin carried by the prefix (where the collector puts it)
	shared  bool     // build the prefix with spare capacity and share it between the generated notifications
	singles bool     // multi only: submit the parts one at a time instead (differential twin)
	// sharedPath: the update path OBJECTS are the caller's and are reused by every
	// operation of the history that names the same relative path (a collector
	// building "state/oper-status" once and sending it under one prefix per interface)
	sharedPath bool
}

func (o op) String() string {
	var b strings.Builder
	fmt.Fprintf(&b, "%s(%s", o.kind, o.target)
	if o.ts != 0 {
		fmt.Fprintf(&b, ",ts=%d", o.ts)
	}
	if o.porigin != "" {
		fmt.Fprintf(&b, ",origin=%s", o.porigin)
	}
	if o.prefix.name != "" {
		fmt.Fprintf(&b, ",prefix=%s", o.prefix.name)
	}
	for _, u := range o.ups {
		fmt.Fprintf(&b, ",%s=%d", u.p.name, u.val)
	}
	for _, d := range o.dels {
		fmt.Fprintf(&b, ",del %s", d.name)
	}
	if o.enc == "element" {
		b.WriteString(",deprecated-enc")
	}
	if o.shared {
		b.WriteString(",shared-prefix")
	}
	if o.sharedPath {
		b.WriteString(",shared-path-object")
	}
	b.WriteString(")")
	return b.String()
}

// prefixPath builds the prefix; with spare capacity in Elem when asked (as
// protobuf decoding and proto.Clone produce).
func (o op) prefixPath(spare bool) *pb.Path {
	p := &pb.Path{Target: o.target, Origin: o.porigin}
	pe := o.prefix.mkPath(o.encOr()).Elem
	if o.encOr() == "element" {
		p.Element = o.prefix.mkPath("element").Element
		return p
	}
	if spare {
		s := make([]*pb.PathElem, len(pe), len(pe)+4)
		copy(s, pe)
		pe = s
	}
	p.Elem = pe
	return p
}

func (o op) encOr() string {
	if o.enc == "" {
		return "elem"
	}
	return o.enc
}

// notification builds the (single) notification of a upd/atomic/del/multi/empty op.
func (o op) notification() *pb.Notification {
	n := &pb.Notification{Timestamp: o.ts, Prefix: o.prefixPath(o.shared), Atomic: o.kind == "atomic"}
	for _, u := range o.ups {
		n.Update = append(n.Update, &pb.Update{Path: u.p.mkPath(o.encOr()), Val: ival(u.val)})
	}
	for _, d := range o.dels {
		n.Delete = append(n.Delete, d.mkPath(o.encOr()))
	}
	return n
}

// singlesOf splits a multi notification into single-update/-delete ones in order.
func singlesOf(n *pb.Notification, sharePrefix bool) []*pb.Notification {
	var out []*pb.Notification
	mk := func() *pb.Notification {
		x := &pb.Notification{Timestamp: n.Timestamp, Atomic: n.Atomic}
		if sharePrefix {
			x.Prefix = n.Prefix
		} else {
			x.Prefix = proto.Clone(n.Prefix).(*pb.Path)
		}
		return x
	}
	for _, u := range n.Update {
		x := mk()
		x.Update = []*pb.Update{u}
		out = append(out, x)
	}
	for _, d := range n.Delete {
		x := mk()
		x.Delete = []*pb.Path{d}
		out = append(out, x)
	}
	return out
}

func detBytes(m proto.Message) string {
	b, err := proto.MarshalOptions{Deterministic: true}.Marshal(m)
	if err != nil {
		return "ERR:" + err.Error()
	}
	if tv, ok := m.(*pb.TypedValue); ok && !suppressible(tv) {
		return notComparable + fmt.Sprintf("%x", b)
	}
	return fmt.Sprintf("%x", b)
}

// notComparable marks rendered values of kinds that value.Equal (the
// suppression test) never considers equal to anything: structured kinds and NaN.
const notComparable = "NC:"

func suppressible(tv *pb.TypedValue) bool {
	switch v := tv.GetValue().(type) {
	case *pb.TypedValue_StringVal, *pb.TypedValue_IntVal, *pb.TypedValue_UintVal, *pb.TypedValue_BoolVal, *pb.TypedValue_BytesVal, *pb.TypedValue_DecimalVal:
		return true
	case *pb.TypedValue_DoubleVal:
		return v.DoubleVal == v.DoubleVal
	case *pb.TypedValue_FloatVal:
		return v.FloatVal == v.FloatVal
	case *pb.TypedValue_LeaflistVal:
		for _, e := range v.LeaflistVal.GetElement() {
			if !suppressible(e) {
				return false
			}
		}
		return true
	}
	return false
}

func sortedKeys[V any](m map[string]V) []string {
	ks := make([]string, 0, len(m))
	for k := range m {
		ks = append(ks, k)
	}
	sort.Strings(ks)
	return ks
}
