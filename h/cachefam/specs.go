package main

import (
	"fmt"

	"github.com/openconfig/gnmi/metadata"
	"github.com/openconfig/gnmi/zzverif/seqmc"
)

func upd(t string, p string, ts, v int64) op {
	return op{kind: "upd", target: t, ts: ts, ups: []updSpec{{ps(p), v}}}
}
func del(t string, p string, ts int64) op {
	return op{kind: "del", target: t, ts: ts, dels: []pathSpec{ps(p)}}
}
func atomic(t string, prefix string, ts int64, vals ...int64) op {
	o := op{kind: "atomic", target: t, ts: ts, prefix: ps(prefix)}
	names := []string{"m", "n"}
	for i, v := range vals {
		o.ups = append(o.ups, updSpec{ps(names[i]), v})
	}
	return o
}
func atomicNamed(t string, prefix string, ts int64, names []string, vals ...int64) op {
	o := op{kind: "atomic", target: t, ts: ts, prefix: ps(prefix)}
	for i, v := range vals {
		o.ups = append(o.ups, updSpec{ps(names[i]), v})
	}
	return o
}
func life(kind, t string) op { return op{kind: kind, target: t} }
func updO(t, origin, p string, ts, v int64) op {
	o := upd(t, p, ts, v)
	o.porigin = origin
	return o
}

// ---------------------------------------------------------------- C02

func specsC02(tier string) []seqmc.Spec {
	var out []seqmc.Spec
	mk := func(name string, thr int64, ev bool, tss []int64, leaves []string, depr bool, depth int) {
		cfg := &specCfg{name: name, targets: []string{"t"}, futureThreshold: thr, eventDriven: ev, fixedClock: 2,
			oracles: oset("errclass", "state", "latest")}
		for _, p := range leaves {
			for _, ts := range tss {
				for _, v := range []int64{1, 2} {
					cfg.ops = append(cfg.ops, upd("t", p, ts, v))
				}
			}
		}
		if depr {
			for _, ts := range tss {
				o := upd("t", "x", ts, 1)
				o.enc = "element"
				cfg.ops = append(cfg.ops, o)
			}
		}
		for _, ts := range tss {
			cfg.ops = append(cfg.ops, atomic("t", "k", ts, 1, 1), atomic("t", "k", ts, 1, 2))
		}
		// a plain leaf below the atomic container (path collision both ways)
		cfg.ops = append(cfg.ops, upd("t", "k/m", tss[0], 1))
		// the same number in other arms of the value oneof (uint 1, string "1"):
		// different values, so at an equal timestamp they replace int 1
		for _, ts := range tss[:2] {
			cfg.ops = append(cfg.ops, upd("t", "x", ts, 1003), upd("t", "x", ts, 1004))
		}
		// bundles: an update (accepted, stale, identical or too far ahead, depending
		// on the state) together with a delete of another subtree in one notification
		for _, ts := range tss {
			cfg.ops = append(cfg.ops, op{kind: "multi", target: "t", ts: ts, ups: []updSpec{{ps("x"), 1}}, dels: []pathSpec{ps("y")}})
		}
		dts := append(append([]int64{}, tss...), tss[len(tss)-1]+1)
		for _, q := range []string{"x", "y/z", "y", "*", "y/*", "k"} {
			for _, ts := range dts {
				cfg.ops = append(cfg.ops, del("t", q, ts))
			}
		}
		out = append(out, mkSpec(cfg, depth))
	}
	// bundles of several updates - each member is judged on its own (accepted,
	// stale, identical, suppressed as unchanged) and every leaf ends up holding
	// ITS update, whatever happened to the members before it - and decimals
	// written with trailing zeros (1.50 is 1.5 to a reader, but a re-sent
	// identical update is still identical): a small alphabet of their own
	for _, ev := range []bool{true, false} {
		cfg := &specCfg{name: fmt.Sprintf("bundles of several updates, decimals with trailing zeros, eventDriven=%v ts=1..3 (closure)", ev), targets: []string{"t"}, eventDriven: ev, fixedClock: 2,
			oracles: oset("errclass", "state", "latest")}
		for _, ts := range []int64{1, 2, 3} {
			for _, v := range []int64{1, 2} {
				cfg.ops = append(cfg.ops, upd("t", "x", ts, v))
			}
			cfg.ops = append(cfg.ops, upd("t", "y/z", ts, 1),
				op{kind: "multi", target: "t", ts: ts, ups: []updSpec{{ps("x"), 1}, {ps("y/z"), 1}}},
				op{kind: "multi", target: "t", ts: ts, ups: []updSpec{{ps("x"), 1}, {ps("y/z"), 2}}},
				op{kind: "multi", target: "t", ts: ts, ups: []updSpec{{ps("y/z"), 2}, {ps("x"), 2}, {ps("y/z"), 1}}})
		}
		for _, ts := range []int64{1, 2} {
			cfg.ops = append(cfg.ops, upd("t", "x", ts, 1001), upd("t", "x", ts, 1002), upd("t", "x", ts, 1009))
		}
		cfg.ops = append(cfg.ops, del("t", "x", 2), del("t", "*", 4))
		out = append(out, mkSpec(cfg, 40))
	}
	// LARGE bundles: five updates in one notification (and three updates plus a
	// delete), in both member orders, on five leaves that single updates move
	// independently: any run of rejected members - however long - leaves the
	// members after it (and the deletes) to be judged on their own
	for _, ev := range []bool{true, false} {
		cfg := &specCfg{name: fmt.Sprintf("bundles of five updates / three updates and a delete, eventDriven=%v ts=1..3 (closure)", ev), targets: []string{"t"}, eventDriven: ev, fixedClock: 2,
			oracles: oset("errclass", "state", "latest")}
		leaves := []string{"p1", "p2", "p3", "p4", "q/r"}
		for _, ts := range []int64{1, 2, 3} {
			var fwd, rev []updSpec
			for i, l := range leaves {
				fwd = append(fwd, updSpec{ps(l), 1})
				rev = append(rev, updSpec{ps(leaves[len(leaves)-1-i]), 1})
			}
			cfg.ops = append(cfg.ops,
				op{kind: "multi", target: "t", ts: ts, ups: fwd},
				op{kind: "multi", target: "t", ts: ts, ups: rev},
				op{kind: "multi", target: "t", ts: ts, ups: fwd[:3], dels: []pathSpec{ps("q")}},
				op{kind: "multi", target: "t", ts: ts, ups: fwd[:4]})
		}
		for _, l := range []string{"p1", "p4", "q/r"} {
			cfg.ops = append(cfg.ops, upd("t", l, 2, 1), upd("t", l, 3, 2))
		}
		cfg.ops = append(cfg.ops, del("t", "*", 4), del("t", "p4", 3))
		out = append(out, mkSpec(cfg, 40))
	}
	// every history of <=4 (thorough 5) operations over a compact alphabet, the
	// HISTORY being the state: a leaf added, refreshed in place, deleted by its
	// own path / through an enclosing subtree / by a wildcard / with everything,
	// re-delivered deletes, late (older) updates - in every order
	{
		depth := 4
		if tier == "thorough" {
			depth = 5
		}
		cfg := &specCfg{name: fmt.Sprintf("every history of <=%d operations (the history is the state): one leaf a/b/c and a sibling, updates at ts 1..3, deletes by exact path / enclosing subtree / wildcard / everything", depth), targets: []string{"t"}, eventDriven: true, fixedClock: 2, histKey: true,
			oracles: oset("errclass", "state", "latest")}
		for _, ts := range []int64{1, 2, 3} {
			cfg.ops = append(cfg.ops, upd("t", "a/b/c", ts, ts))
		}
		cfg.ops = append(cfg.ops, upd("t", "a/b/d", 2, 1))
		for _, q := range []string{"a/b/c", "a/b", "a/*/c", "*"} {
			cfg.ops = append(cfg.ops, del("t", q, 2), del("t", q, 3))
		}
		out = append(out, mkSpec(cfg, depth))
	}
	// structured kinds and NaN on one leaf: never equal for the suppression
	// test, yet a re-sent identical notification is stale and a different one
	// at the same timestamp replaces
	for _, ev := range []bool{true, false} {
		cfg := &specCfg{name: fmt.Sprintf("structured values (json, ascii, NaN) eventDriven=%v ts=1..3 (closure)", ev), targets: []string{"t"}, eventDriven: ev, fixedClock: 2,
			oracles: oset("errclass", "state", "latest")}
		for _, ts := range []int64{1, 2, 3} {
			for _, v := range []int64{1005, 1006, 1007, 1008, 1} {
				cfg.ops = append(cfg.ops, upd("t", "s", ts, v))
			}
		}
		cfg.ops = append(cfg.ops, del("t", "s", 2), del("t", "*", 4))
		out = append(out, mkSpec(cfg, 40))
	}
	if tier == "thorough" {
		all := []int64{1, 2, 3, 4, 5}
		for _, ev := range []bool{true, false} {
			mk(fmt.Sprintf("thr=0 eventDriven=%v ts=1..5 (closure)", ev), 0, ev, all, []string{"x", "y/z", "y/w"}, false, 40)
			mk(fmt.Sprintf("thr=1ns now=2 eventDriven=%v ts=1..5 (closure)", ev), 1, ev, all, []string{"x", "y/z"}, false, 40)
		}
		mk("thr=1ns now=2 deprecated-encoding ts=1..5 (closure)", 1, true, all, []string{"x"}, true, 40)
		return out
	}
	for _, ev := range []bool{true, false} {
		mk(fmt.Sprintf("thr=0 eventDriven=%v ts=1..3 (closure)", ev), 0, ev, []int64{1, 2, 3}, []string{"x", "y/z", "y/w"}, false, 40)
	}
	mk("thr=1ns now=2 eventDriven=true ts=1..5 (closure)", 1, true, []int64{1, 2, 3, 4, 5}, []string{"x", "y/z"}, false, 40)
	mk("thr=1ns now=2 deprecated-encoding ts=1,4,5 (closure)", 1, true, []int64{1, 4, 5}, []string{"x"}, true, 40)
	return out
}

// ---------------------------------------------------------------- C03

func specsC03(tier string) []seqmc.Spec {
	var out []seqmc.Spec
	mk := func(name string, ev bool, depth int, rich bool) {
		cfg := &specCfg{name: name, targets: []string{"t1", "t2"}, eventDriven: ev,
			oracles: oset("errclass", "state", "feed", "replica", "caller", "twin", "remove")}
		tss := []int64{1, 2}
		if rich {
			tss = []int64{1, 2, 3}
		}
		for _, ts := range tss {
			for _, v := range []int64{1, 2} {
				cfg.ops = append(cfg.ops, upd("t1", "x", ts, v))
				if rich {
					cfg.ops = append(cfg.ops, upd("t1", "y/z", ts, v))
				}
			}
			// leaves a/b, a/c through a shared prefix object with spare capacity
			for _, leaf := range []string{"b", "c"} {
				o := upd("t1", leaf, ts, 1)
				o.prefix, o.shared = ps("a"), true
				cfg.ops = append(cfg.ops, o)
			}
			cfg.ops = append(cfg.ops, atomic("t1", "k", ts, 1, ts))
		}
		cfg.ops = append(cfg.ops, upd("t2", "x", 1, 1), updO("t1", "o", "x", 1, 1))
		// decimals that differ only beyond float32 resolution, different precision
		cfg.ops = append(cfg.ops, upd("t1", "dec", 1, 1001), upd("t1", "dec", 2, 1002), upd("t1", "dec", 3, 1001))
		// the same number in another arm of the value oneof, same timestamp as an int update
		cfg.ops = append(cfg.ops, upd("t1", "x", 1, 1003), upd("t1", "x", 2, 1004))
		// a leaf stamped far ahead of the collector's clock (device time is not collector time)
		cfg.ops = append(cfg.ops, upd("t1", "f", 1<<40, 4))
		// data leaves whose update path starts with an element named like the metadata root
		cfg.ops = append(cfg.ops, updO("t1", "o", "meta/x", 1, 1), op{kind: "upd", target: "t1", ts: 1, prefix: ps("a"), ups: []updSpec{{ps("meta/y"), 1}}})
		// atomic groups at one prefix whose member PATHS differ while the values
		// agree position by position (a keyed row replaced by another)
		cfg.ops = append(cfg.ops, atomicNamed("t1", "k", 3, []string{"m", "p"}, 1, 2), atomicNamed("t1", "k", 2, []string{"p", "n"}, 1, 1))
		for _, q := range []string{"x", "a", "a/b", "*", "k"} {
			cfg.ops = append(cfg.ops, del("t1", q, 3))
		}
		cfg.ops = append(cfg.ops, del("t1", "a", 2), del("t2", "*", 3))
		// multi notifications
		m1 := op{kind: "multi", target: "t1", ts: 2, ups: []updSpec{{ps("x"), 1}, {ps("y/z"), 1}}}
		m2 := op{kind: "multi", target: "t1", ts: 3, ups: []updSpec{{ps("x"), 2}}, dels: []pathSpec{ps("y")}}
		m3 := op{kind: "multi", target: "t1", ts: 2, prefix: ps("a"), shared: true, ups: []updSpec{{ps("b"), 1}, {ps("c"), 2}}}
		m4 := op{kind: "multi", target: "t1", ts: 4, prefix: ps("a"), shared: true, dels: []pathSpec{ps("b"), ps("c")}}
		m5 := op{kind: "multi", target: "t1", ts: 3, ups: []updSpec{{ps("x"), 1}}, dels: []pathSpec{ps("x")}}
		m6 := op{kind: "multi", target: "t1", ts: 1, ups: []updSpec{{ps("x"), 1}, {ps("x"), 2}}}
		cfg.ops = append(cfg.ops, m1, m2, m3, m4, m5, m6)
		cfg.ops = append(cfg.ops, life("reset", "t1"), life("remove", "t1"), life("add", "t1"), life("remove", "t2"))
		out = append(out, mkSpec(cfg, depth))
	}
	for _, ev := range []bool{true, false} {
		cfg := &specCfg{name: fmt.Sprintf("structured values (json, ascii, NaN), eventDriven=%v (closure)", ev), targets: []string{"t1"}, eventDriven: ev,
			oracles: oset("errclass", "state", "feed", "replica", "caller")}
		for _, ts := range []int64{1, 2, 3} {
			for _, v := range []int64{1005, 1006, 1007, 1008, 1} {
				cfg.ops = append(cfg.ops, upd("t1", "s", ts, v))
			}
		}
		cfg.ops = append(cfg.ops, del("t1", "s", 2), del("t1", "*", 4))
		out = append(out, mkSpec(cfg, 40))
	}
	// unusual shapes on a small core alphabet (their own spec, so that the main
	// alphabets keep their size): one relative path OBJECT sent under two
	// prefixes; a leaf whose path has an element SPELLED like the wildcard (a
	// list entry keyed by "*"); updates BELOW an existing leaf and below an
	// atomic group (refused: nothing stored, evicted or announced)
	for _, ev := range []bool{true, false} {
		cfg := &specCfg{name: fmt.Sprintf("unusual shapes (shared path objects, '*'-named elements, updates below a leaf), eventDriven=%v", ev), targets: []string{"t1"}, eventDriven: ev,
			oracles: oset("errclass", "state", "feed", "replica", "caller", "twin", "remove")}
		cfg.ops = append(cfg.ops, upd("t1", "x", 1, 1), upd("t1", "x", 2, 2), atomic("t1", "k", 1, 1, 1), del("t1", "x", 3), del("t1", "*", 3), del("t1", "w", 3), del("t1", "w/*", 3),
			life("reset", "t1"), life("remove", "t1"), life("add", "t1"))
		for _, pv := range []struct {
			pre string
			v   int64
		}{{"i1", 1}, {"i2", 1}, {"i2", 2}} {
			cfg.ops = append(cfg.ops, op{kind: "upd", target: "t1", ts: pv.v, prefix: ps(pv.pre), ups: []updSpec{{ps("s"), pv.v}}, sharedPath: true})
		}
		cfg.ops = append(cfg.ops, upd("t1", "w/*/v", 1, 1), upd("t1", "w/*/v", 2, 2), upd("t1", "w/a/v", 1, 1))
		cfg.ops = append(cfg.ops, upd("t1", "x/y", 3, 1), upd("t1", "k/m/z", 3, 1))
		d := 4
		if tier == "thorough" {
			d = 5
		}
		out = append(out, mkSpec(cfg, d))
	}
	// a cache built WithFutureThreshold: notifications far ahead of the clock with
	// several members - an existing leaf (judged against the threshold) placed
	// before members that create NEW leaves (never subject to it): every member is
	// judged on its own
	for _, ev := range []bool{true, false} {
		cfg := &specCfg{name: fmt.Sprintf("cache built WithFutureThreshold(1ns), clock=2: bundles at ts 2 and 9 mixing existing and new leaves, eventDriven=%v (closure)", ev), targets: []string{"t1"}, eventDriven: ev, futureThreshold: 1, fixedClock: 2,
			oracles: oset("errclass", "state", "feed", "replica", "caller")}
		cfg.ops = append(cfg.ops, upd("t1", "x", 1, 1), upd("t1", "x", 2, 2), upd("t1", "n1", 1, 1), upd("t1", "x", 9, 3))
		for _, ts := range []int64{2, 9} {
			cfg.ops = append(cfg.ops,
				op{kind: "multi", target: "t1", ts: ts, ups: []updSpec{{ps("x"), 5}, {ps("n1"), 5}, {ps("n2"), 5}}},
				op{kind: "multi", target: "t1", ts: ts, ups: []updSpec{{ps("x"), 6}, {ps("n2"), 6}}, dels: []pathSpec{ps("n1")}})
		}
		cfg.ops = append(cfg.ops, del("t1", "*", 3), del("t1", "n2", 10))
		out = append(out, mkSpec(cfg, 40))
	}
	// a cache told not to export some metadata entries (WithExcludedMeta): whatever
	// happens to their leaves, the feed replays to what queries return
	{
		cfg := &specCfg{name: "one target, cache built WithExcludedMeta(sync, connected) (closure)", targets: []string{"t1"}, eventDriven: true,
			excludedMeta: []string{metadata.Sync, metadata.Connected},
			oracles:      oset("errclass", "state", "feed", "replica", "caller", "remove")}
		cfg.ops = append(cfg.ops, upd("t1", "x", 1, 1), upd("t1", "x", 2, 2), del("t1", "*", 3),
			life("sync", "t1"), life("connect", "t1"), life("reset", "t1"), life("remove", "t1"), life("add", "t1"), op{kind: "updmeta"})
		out = append(out, mkSpec(cfg, 40))
	}
	if tier == "thorough" {
		mk("two targets, eventDriven=true, rich", true, 5, true)
		mk("two targets, eventDriven=false, rich", false, 5, true)
		return out
	}
	mk("two targets, eventDriven=true", true, 5, false)
	mk("two targets, eventDriven=false", false, 5, false)
	return out
}

// ---------------------------------------------------------------- C14

func specsC14(tier string) []seqmc.Spec {
	var out []seqmc.Spec
	mk := func(name string, targets []string, depth int) {
		cfg := &specCfg{name: name, targets: targets, eventDriven: true,
			oracles: oset("state", "replica", "frame", "reset", "remove", "feed")}
		for _, t := range targets {
			cfg.ops = append(cfg.ops, upd(t, "x", 1, 1), upd(t, "x", 2, 2), upd(t, "y/z", 1, 1), updO(t, "o", "x", 1, 1), del(t, "*", 3), del(t, "x", 3),
				upd(t, "f", 1<<40, 4), // a leaf stamped far ahead of the collector's clock (device time is not collector time)
				life("sync", t), life("connect", t), life("connecterr", t), life("reset", t), life("remove", t), life("add", t))
		}
		cfg.ops = append(cfg.ops, op{kind: "updmeta"})
		out = append(out, mkSpec(cfg, depth))
	}
	// data leaves whose update path starts with an element named like the
	// metadata root while the stored path does not (origin or prefix in front):
	// target data for Reset and Remove like any other leaf
	mkMeta := func(depth int) {
		cfg := &specCfg{name: "paths named like the metadata root", targets: []string{"t1"}, eventDriven: true,
			oracles: oset("state", "replica", "frame", "reset", "remove", "feed")}
		cfg.ops = append(cfg.ops, upd("t1", "x", 1, 1), updO("t1", "o", "meta/x", 1, 1),
			op{kind: "upd", target: "t1", ts: 1, prefix: ps("a"), ups: []updSpec{{ps("meta/y"), 1}}},
			op{kind: "upd", target: "t1", ts: 2, prefix: ps("a"), ups: []updSpec{{ps("meta/y"), 2}}},
			del("t1", "*", 3), life("sync", "t1"), life("reset", "t1"), life("remove", "t1"), life("add", "t1"), op{kind: "updmeta"})
		out = append(out, mkSpec(cfg, depth))
	}
	// non-default cache options: a server name (the one metadata entry a Reset
	// KEEPS), metadata entries excluded from the periodic export
	mkOpt := func(name string, depth int, set func(*specCfg)) {
		cfg := &specCfg{name: name, targets: []string{"t1"}, eventDriven: true,
			oracles: oset("state", "replica", "frame", "reset", "remove", "feed")}
		set(cfg)
		cfg.ops = append(cfg.ops, upd("t1", "x", 1, 1), upd("t1", "x", 2, 2), del("t1", "*", 3),
			life("sync", "t1"), life("connect", "t1"), life("connecterr", "t1"), life("reset", "t1"), life("remove", "t1"), life("add", "t1"), op{kind: "updmeta"})
		out = append(out, mkSpec(cfg, depth))
	}
	optDepth := 5
	if tier == "thorough" {
		optDepth = 7
	}
	mkOpt("one target, cache built WithServerName", optDepth, func(c *specCfg) { c.serverName = "collector-7" })
	mkOpt("one target, cache built WithExcludedMeta(sync, connected)", optDepth, func(c *specCfg) { c.excludedMeta = []string{metadata.Sync, metadata.Connected} })
	if tier == "thorough" {
		mk("3 targets", []string{"t1", "t2", "t3"}, 5)
		mk("2 targets deep", []string{"t1", "t2"}, 6)
		mkMeta(7)
		return out
	}
	mk("2 targets", []string{"t1", "t2"}, 5)
	mkMeta(5)
	return out
}

// ---------------------------------------------------------------- C15

func specsC15(tier string) []seqmc.Spec {
	var out []seqmc.Spec
	mk := func(name string, depth int, tss []int64) {
		cfg := &specCfg{name: name, targets: []string{"t"}, eventDriven: true,
			oracles: oset("state", "latest", "count", "invariant", "latestleaf", "errclass")}
		for _, ts := range tss {
			for _, v := range []int64{1, 2} {
				cfg.ops = append(cfg.ops, upd("t", "x", ts, v))
			}
			cfg.ops = append(cfg.ops, upd("t", "y/z", ts, 1), atomic("t", "k", ts, 1, ts))
			o := upd("t", "d/e", ts, 1)
			o.enc = "element"
			cfg.ops = append(cfg.ops, o)
			// all elements in the prefix, empty update path
			pfx := op{kind: "upd", target: "t", ts: ts, prefix: ps("p/q"), ups: []updSpec{{ps(""), 1}}}
			cfg.ops = append(cfg.ops, pfx)
			// a list entry keyed by the empty string: an EMPTY index element
			cfg.ops = append(cfg.ops, upd("t", "c[k=]", ts, ts))
		}
		cfg.ops = append(cfg.ops,
			op{kind: "multi", target: "t", ts: 2, ups: []updSpec{{ps("x"), 1}, {ps("y/z"), 2}}, dels: []pathSpec{ps("k")}},
			// partially refused notifications: one member collides with a leaf, the other is accepted
			op{kind: "multi", target: "t", ts: 3, ups: []updSpec{{ps("x"), 1}, {ps("x/w"), 1}}},
			op{kind: "multi", target: "t", ts: 4, ups: []updSpec{{ps("y"), 1}, {ps("x"), 2}}},
			op{kind: "empty", target: "t", ts: 1},
			del("t", "x", 2), del("t", "x", 4), del("t", "*", 4), del("t", "y", 4), del("t", "*", 1<<40),
			life("connect", "t"), life("connecterr", "t"), life("sync", "t"), life("reset", "t"),
			op{kind: "updmeta"}, op{kind: "updsize"})
		out = append(out, mkSpec(cfg, depth))
	}
	fut := &specCfg{name: "future threshold counters (closure)", targets: []string{"t"}, eventDriven: true, futureThreshold: 1, fixedClock: 2,
		oracles: oset("state", "latest", "count", "invariant", "errclass")}
	for _, ts := range []int64{1, 2, 3, 4, 5} {
		fut.ops = append(fut.ops, upd("t", "x", ts, 1), upd("t", "x", ts, 2), upd("t", "y/z", ts, 1))
	}
	fut.ops = append(fut.ops, del("t", "*", 6))
	if tier == "thorough" {
		mk("lifecycle+counters ts=1..3", 5, []int64{1, 2, 3})
		out = append(out, mkSpec(fut, 40))
		return append(out, specsLatency(tier)...)
	}
	mk("lifecycle+counters ts=1..2", 5, []int64{1, 2})
	out = append(out, mkSpec(fut, 40))
	return append(out, specsLatency(tier)...)
}

func specsC12(tier string) []seqmc.Spec { return nil }
