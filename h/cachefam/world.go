package main

import (
	"errors"
	"fmt"
	"sort"
	"strings"
	"time"

	"google.golang.org/protobuf/proto"

	"github.com/openconfig/gnmi/cache"
	"github.com/openconfig/gnmi/ctree"
	"github.com/openconfig/gnmi/latency"
	"github.com/openconfig/gnmi/metadata"
	pb "github.com/openconfig/gnmi/proto/gnmi"
	"github.com/openconfig/gnmi/zzverif/seqmc"
)

// ---------------------------------------------------------------- model

type leafM struct {
	ts      int64
	val     string // deterministic bytes of the value (single) / of all updates (atomic)
	noti    string // deterministic bytes of the whole stored notification
	atomic  bool
	tsStale bool // an event-driven suppression hid a newer timestamp from the feed
}

type targetM struct {
	leaves map[string]leafM // joined index path (without target) -> leaf; non-meta only
	latest int64            // greatest accepted non-meta timestamp since the last reset (0 = none)
}

func newTargetM() *targetM { return &targetM{leaves: map[string]leafM{}} }

func matches(q, l []string) bool {
	n := len(q)
	if len(l) < n {
		n = len(l)
	}
	for i := 0; i < n; i++ {
		if q[i] != "*" && q[i] != l[i] {
			return false
		}
	}
	if len(q) <= len(l) {
		return true
	}
	return len(q) == len(l)+1 && q[len(q)-1] == "*"
}

func isPrefixOf(p, q []string) bool {
	if len(p) > len(q) {
		return false
	}
	for i := range p {
		if p[i] != q[i] {
			return false
		}
	}
	return true
}

func splitKey(k string) []string {
	if k == "" {
		return nil
	}
	return strings.Split(k, "/")
}

// counter deltas expected for one submitted notification part
type delta struct {
	updated, suppressed, stale, future, empty, added, deleted int64
}

func (d *delta) add(o delta) {
	d.updated += o.updated
	d.suppressed += o.suppressed
	d.stale += o.stale
	d.future += o.future
	d.empty += o.empty
	d.added += o.added
	d.deleted += o.deleted
}

// update applies one (single or atomic) update to the model. It returns the
// error class ("", stale, future, other) and whether the feed must carry it.
func (m *targetM) update(w *world, idx []string, ts int64, val, noti string, atomic bool, nUpdates int64) (string, bool, delta) {
	k := strings.Join(idx, "/")
	for lk := range m.leaves {
		l := splitKey(lk)
		if len(l) != len(idx) && (isPrefixOf(l, idx) || isPrefixOf(idx, l)) {
			return "other", false, delta{}
		}
	}
	if old, ok := m.leaves[k]; ok {
		switch {
		case ts < old.ts:
			return "stale", false, delta{stale: 1}
		case ts == old.ts:
			if old.noti == noti {
				return "stale", false, delta{stale: 1}
			}
		case w.cfg.futureThreshold > 0 && ts-w.clock > w.cfg.futureThreshold:
			if m.latest > 0 && ts-m.latest > w.cfg.futureThreshold {
				return "future", false, delta{future: 1}
			}
		}
		nl := leafM{ts: ts, val: val, noti: noti, atomic: atomic}
		if !atomic && !old.atomic && w.cfg.eventDriven && old.val == val && !strings.HasPrefix(val, notComparable) {
			nl.tsStale = true
			m.leaves[k] = nl
			return "", false, delta{suppressed: 1}
		}
		m.leaves[k] = nl
		return "", true, delta{updated: nUpdates}
	}
	m.leaves[k] = leafM{ts: ts, val: val, noti: noti, atomic: atomic}
	return "", true, delta{updated: nUpdates, added: 1}
}

// remove applies one delete; returns the removed leaf keys.
func (m *targetM) remove(q []string, ts int64) []string {
	var del []string
	for lk, l := range m.leaves {
		if matches(q, splitKey(lk)) && l.ts < ts {
			del = append(del, lk)
		}
	}
	sort.Strings(del)
	for _, k := range del {
		delete(m.leaves, k)
	}
	return del
}

// ---------------------------------------------------------------- world

type specCfg struct {
	name            string
	targets         []string // targets present at start
	ops             []op
	futureThreshold int64
	eventDriven     bool
	fixedClock      int64 // >0: cache.Now frozen there; 0: ticking clock
	oracles         map[string]bool
	twin            bool // this world is a differential twin: no nested twins, no oracles
	// non-default cache options
	serverName   string   // cache.WithServerName
	excludedMeta []string // cache.WithExcludedMeta
	// histKey: the whole operation history is the state (nothing is merged):
	// for bookkeeping an implementation derives from HOW a state was reached
	// (a remembered leaf handle, a memoised delete) and that no query shows
	histKey bool
}

type repLeaf struct {
	ts     int64
	val    string
	atomic bool
}

type feedEv struct {
	target string
	kind   string // update, atomic, delete
	key    string // index path (update/atomic) or pattern (delete)
	ts     int64
	val    string
	nupd   int
}

type world struct {
	cfg     *specCfg
	c       *cache.Cache
	clock   int64
	m       map[string]*targetM
	replica map[string]map[string]repLeaf
	feed    []feedEv
	hist    []int
	shared  map[string]*pb.Path
	broken  string // feed content the replica could not interpret
	// refreshed: a metadata refresh ran since this incarnation of the target
	// began. Part of the canonical state: an implementation may remember what
	// it exported (a memo no query shows) and behave differently afterwards.
	refreshed map[string]bool
}

var curWorld *world

func init() {
	cache.Now = func() time.Time {
		w := curWorld
		if w == nil {
			if cacheLatNow != nil {
				return time.Unix(0, *cacheLatNow)
			}
			return time.Unix(0, 1)
		}
		if w.cfg.fixedClock > 0 {
			return time.Unix(0, w.cfg.fixedClock)
		}
		w.clock++
		return time.Unix(0, w.clock)
	}
}

func newWorld(cfg *specCfg) *world {
	w := &world{cfg: cfg, m: map[string]*targetM{}, replica: map[string]map[string]repLeaf{}, shared: map[string]*pb.Path{}}
	w.clock = cfg.fixedClock
	if cfg.fixedClock == 0 {
		w.clock = 1000
	}
	curWorld = w
	var opts []cache.Option
	if cfg.futureThreshold > 0 {
		opts = append(opts, cache.WithFutureThreshold(time.Duration(cfg.futureThreshold)))
	}
	if !cfg.eventDriven {
		opts = append(opts, cache.DisableEventDrivenEmulation())
	}
	// WithServerName registers a metadata entry in package-level maps of package
	// metadata: every world starts from the unregistered state, so that worlds
	// with and without the option can follow each other in one process
	metadata.UnregisterServerNameMetadata()
	// likewise the latency statistics a cache with latency windows registers
	// (the cache-level latency spec of C15 builds such caches)
	for _, typ := range []latency.StatType{latency.Avg, latency.Max, latency.Min} {
		metadata.UnregisterIntValue(latency.MetadataName(2*time.Second, typ))
	}
	if cfg.serverName != "" {
		opts = append(opts, cache.WithServerName(cfg.serverName))
	}
	if len(cfg.excludedMeta) > 0 {
		opts = append(opts, cache.WithExcludedMeta(cfg.excludedMeta))
	}
	w.c = cache.New(cfg.targets, opts...)
	w.c.SetClient(w.onFeed)
	for _, t := range cfg.targets {
		w.m[t] = newTargetM()
		w.replica[t] = map[string]repLeaf{}
	}
	return w
}

// refIndex is the harness's own path indexer (independent of path.ToStrings).
func refIndex(p *pb.Path) []string {
	var out []string
	if p == nil {
		return out
	}
	if len(p.Elem) == 0 {
		return append(out, p.Element...)
	}
	for _, e := range p.Elem {
		out = append(out, e.Name)
		ks := make([]string, 0, len(e.Key))
		for k := range e.Key {
			ks = append(ks, k)
		}
		sort.Strings(ks)
		for _, k := range ks {
			out = append(out, e.Key[k])
		}
	}
	return out
}

func fullIndex(prefix, path *pb.Path) []string {
	var out []string
	if o := prefix.GetOrigin(); o != "" {
		out = append(out, o)
	} else if o := path.GetOrigin(); o != "" {
		out = append(out, o)
	}
	out = append(out, refIndex(prefix)...)
	return append(out, refIndex(path)...)
}

func valBytes(n *pb.Notification) string {
	if n.Atomic {
		var parts []string
		for _, u := range n.Update {
			parts = append(parts, strings.Join(refIndex(u.Path), "/")+"="+detBytes(u.Val))
		}
		return strings.Join(parts, ",")
	}
	return detBytes(n.Update[0].Val)
}

// onFeed is the callback registered with Cache.SetClient: it maintains the replica.
func (w *world) onFeed(l *ctree.Leaf) {
	n, ok := l.Value().(*pb.Notification)
	if !ok || n == nil {
		w.broken = fmt.Sprintf("feed delivered a %T", l.Value())
		return
	}
	t := n.GetPrefix().GetTarget()
	rep := w.replica[t]
	switch {
	case len(n.Update) > 0 && len(n.Delete) == 0:
		if rep == nil {
			w.broken = fmt.Sprintf("feed update for unknown target %q", t)
			return
		}
		if n.Atomic {
			idx := fullIndex(n.Prefix, nil)
			k := strings.Join(idx, "/")
			for lk := range rep {
				if isPrefixOf(idx, splitKey(lk)) {
					delete(rep, lk)
				}
			}
			rep[k] = repLeaf{ts: n.Timestamp, val: valBytes(n), atomic: true}
			w.feed = append(w.feed, feedEv{target: t, kind: "atomic", key: k, ts: n.Timestamp, val: valBytes(n), nupd: len(n.Update)})
			return
		}
		if len(n.Update) != 1 {
			w.broken = fmt.Sprintf("feed delivered a non-atomic notification with %d updates", len(n.Update))
			return
		}
		k := strings.Join(fullIndex(n.Prefix, n.Update[0].Path), "/")
		rep[k] = repLeaf{ts: n.Timestamp, val: valBytes(n)}
		w.feed = append(w.feed, feedEv{target: t, kind: "update", key: k, ts: n.Timestamp, val: valBytes(n), nupd: 1})
	case len(n.Delete) == 1 && len(n.Update) == 0:
		q := fullIndex(n.Prefix, n.Delete[0])
		w.feed = append(w.feed, feedEv{target: t, kind: "delete", key: strings.Join(q, "/"), ts: n.Timestamp})
		for lk := range rep {
			if matches(q, splitKey(lk)) {
				delete(rep, lk)
			}
		}
	default:
		w.broken = fmt.Sprintf("feed delivered a notification with %d updates and %d deletes", len(n.Update), len(n.Delete))
	}
}

func isMeta(k string) bool { return k == metadata.Root || strings.HasPrefix(k, metadata.Root+"/") }

// obs returns the cache content of a target as sorted "path@ts=val" lines.
func (w *world) obs(target string, withMeta bool) ([]string, error) {
	var out []string
	err := w.c.Query(target, []string{"*"}, func(p []string, _ *ctree.Leaf, v interface{}) error {
		k := strings.Join(p, "/")
		if !withMeta && isMeta(k) {
			return nil
		}
		n, ok := v.(*pb.Notification)
		if !ok {
			out = append(out, fmt.Sprintf("%s@?=%T", k, v))
			return nil
		}
		a := ""
		if n.Atomic {
			a = "A"
		}
		line := fmt.Sprintf("%s@%d%s=%s", k, n.Timestamp, a, valBytes(n))
		// a leaf holds the notification that was addressed to IT (equal values
		// would hide a leaf that ended up holding a sibling's update)
		if !n.Atomic && len(n.Update) == 1 {
			if own := strings.Join(fullIndex(n.Prefix, n.Update[0].Path), "/"); own != k {
				line += "!holds-an-update-addressed-to:" + own
			}
		} else if !n.Atomic {
			line += fmt.Sprintf("!holds-a-notification-with-%d-updates-%d-deletes", len(n.Update), len(n.Delete))
		}
		out = append(out, line)
		return nil
	})
	sort.Strings(out)
	return out, err
}

func (w *world) modelObs(target string) []string {
	var out []string
	m := w.m[target]
	for k, l := range m.leaves {
		a := ""
		if l.atomic {
			a = "A"
		}
		out = append(out, fmt.Sprintf("%s@%d%s=%s", k, l.ts, a, l.val))
	}
	sort.Strings(out)
	return out
}

var metaInts = []string{metadata.AddCount, metadata.DelCount, metadata.EmptyCount, metadata.LeafCount, metadata.UpdateCount, metadata.StaleCount, metadata.FutureCount, metadata.SuppressedCount, metadata.Size, metadata.LatestTimestamp}
var metaBools = []string{metadata.Sync, metadata.Connected}
var metaStrs = []string{metadata.ConnectedAddr, metadata.ConnectError}

func (w *world) metaSnap(target string) string {
	md := w.c.Metadata()[target]
	if md == nil {
		return "<no metadata>"
	}
	var b strings.Builder
	for _, k := range metaBools {
		v, err := md.GetBool(k)
		fmt.Fprintf(&b, "%s=%v/%v;", k, v, err)
	}
	for _, k := range metaInts {
		v, err := md.GetInt(k)
		fmt.Fprintf(&b, "%s=%v/%v;", k, v, err)
	}
	for _, k := range metaStrs {
		v, err := md.GetStr(k)
		fmt.Fprintf(&b, "%s=%q/%v;", k, v, err)
	}
	// every further string entry the registry knows (the server name, when the
	// cache was built with one): part of the target's metadata like the others
	var extra []string
	for k := range metadata.TargetStrValues {
		if k != metadata.ConnectedAddr && k != metadata.ConnectError {
			extra = append(extra, k)
		}
	}
	sort.Strings(extra)
	for _, k := range extra {
		v, err := md.GetStr(k)
		fmt.Fprintf(&b, "%s=%q/%v;", k, v, err)
	}
	return b.String()
}

func (w *world) metaInt(target, name string) int64 {
	md := w.c.Metadata()[target]
	if md == nil {
		return -999999
	}
	v, err := md.GetInt(name)
	if err != nil {
		return -999998
	}
	return v
}

func (w *world) allTargets() []string {
	seen := map[string]bool{}
	for _, o := range w.cfg.ops {
		if o.target != "" {
			seen[o.target] = true
		}
	}
	for _, t := range w.cfg.targets {
		seen[t] = true
	}
	return sortedKeys(seen)
}

func errClass(err error) string {
	switch {
	case err == nil:
		return ""
	case errors.Is(err, cache.ErrStale):
		return "stale"
	case errors.Is(err, cache.ErrFuture):
		return "future"
	}
	return "other"
}

// Key is the canonical state. Dropped (with the argument why no later
// operation can observe the difference): counter values (every transition
// checks the counters' deltas and the absolute leaf-count invariants, so a
// drifted counter is reported at the transition that causes it), and the
// timestamps of metadata leaves under a ticking clock (the clock is
// monotonic, so a stored metadata timestamp is always in the past).
func (w *world) Key() string {
	if w.cfg.histKey {
		return fmt.Sprint(w.hist)
	}
	var b strings.Builder
	for _, t := range w.allTargets() {
		if !w.c.HasTarget(t) {
			fmt.Fprintf(&b, "[%s absent]", t)
			continue
		}
		o, _ := w.obs(t, false)
		md := w.c.Metadata()[t]
		sy, _ := md.GetBool(metadata.Sync)
		co, _ := md.GetBool(metadata.Connected)
		ce, cerr := md.GetStr(metadata.ConnectError)
		fmt.Fprintf(&b, "[%s %s | sync=%v conn=%v cerr=%q/%v | latest=%d refreshed=%v", t, strings.Join(o, ";"), sy, co, ce, cerr != nil, w.c.GetTarget(t).VerifLatest(), w.refreshed[t])
		// metadata leaves: bool / string values only
		w.c.Query(t, []string{metadata.Root}, func(p []string, _ *ctree.Leaf, v interface{}) error {
			return nil
		})
		var ml []string
		w.c.Query(t, []string{metadata.Root}, func(p []string, _ *ctree.Leaf, v interface{}) error {
			n, ok := v.(*pb.Notification)
			if !ok || len(n.Update) == 0 {
				ml = append(ml, strings.Join(p, "/")+"=?")
				return nil
			}
			switch x := n.Update[0].Val.GetValue().(type) {
			case *pb.TypedValue_BoolVal:
				ml = append(ml, fmt.Sprintf("%s=%v", strings.Join(p, "/"), x.BoolVal))
			case *pb.TypedValue_StringVal:
				ml = append(ml, fmt.Sprintf("%s=%q", strings.Join(p, "/"), x.StringVal))
			default:
				ml = append(ml, strings.Join(p, "/"))
			}
			if w.cfg.fixedClock > 0 {
				ml = append(ml, fmt.Sprintf("@%d", n.Timestamp))
			}
			return nil
		})
		sort.Strings(ml)
		fmt.Fprintf(&b, " | %s", strings.Join(ml, ","))
		if m := w.m[t]; m != nil {
			fmt.Fprintf(&b, " | model latest=%d", m.latest)
			for _, k := range sortedKeys(m.leaves) {
				if m.leaves[k].tsStale {
					fmt.Fprintf(&b, " stale:%s", k)
				}
			}
		}
		rep := w.replica[t]
		for _, k := range sortedKeys(rep) {
			if isMeta(k) {
				fmt.Fprintf(&b, " r:%s", k)
			} else {
				fmt.Fprintf(&b, " r:%s@%d", k, rep[k].ts)
			}
		}
		b.WriteString("]")
	}
	for _, k := range sortedKeys(w.shared) {
		fmt.Fprintf(&b, " shared:%s/%d", k, len(w.shared[k].Elem))
	}
	return b.String()
}

func vio(class, format string, a ...interface{}) seqmc.Violation {
	return seqmc.Violation{Class: class, Msg: fmt.Sprintf(format, a...)}
}

func (w *world) on(oracle string) bool { return !w.cfg.twin && w.cfg.oracles[oracle] }

type sliceID struct {
	ptr      string
	len, cap int
}

func idOfElems(p *pb.Path) sliceID {
	if p == nil {
		return sliceID{}
	}
	return sliceID{fmt.Sprintf("%p", p.Elem), len(p.Elem), cap(p.Elem)}
}

// Apply performs operation i on the real cache and on the model.
func (w *world) Apply(i int) []seqmc.Violation {
	curWorld = w
	o := w.cfg.ops[i]
	w.hist = append(w.hist, i)
	w.feed = nil
	var vs []seqmc.Violation

	// ---- frame snapshots (C14)
	type snap struct {
		has  bool
		obs  string
		meta string
	}
	pre := map[string]snap{}
	if w.on("frame") {
		for _, t := range w.allTargets() {
			s := snap{has: w.c.HasTarget(t)}
			if s.has {
				ob, _ := w.obs(t, true)
				s.obs, s.meta = strings.Join(ob, ";"), w.metaSnap(t)
			}
			pre[t] = s
		}
	}
	preCnt := map[string]int64{}
	tm := w.m[o.target]
	if tm != nil {
		for _, k := range metaInts {
			preCnt[k] = w.metaInt(o.target, k)
		}
	}
	preModelObs := []string{}
	if tm != nil {
		preModelObs = w.modelObs(o.target)
	}

	switch o.kind {
	case "upd", "atomic", "del", "multi", "empty":
		n := o.notification()
		if o.shared {
			key := o.target + "|" + o.prefix.name
			if sp := w.shared[key]; sp != nil {
				n.Prefix = sp
			} else {
				w.shared[key] = n.Prefix
			}
		}
		if o.sharedPath {
			for _, u := range n.Update {
				key := "path|" + strings.Join(refIndex(u.Path), "/")
				if sp := w.shared[key]; sp != nil {
					u.Path = sp
				} else {
					w.shared[key] = u.Path
				}
			}
		}
		var parts []*pb.Notification
		if o.kind == "multi" && o.singles {
			parts = singlesOf(n, o.shared)
		} else {
			parts = []*pb.Notification{n}
		}
		var want delta
		wantErr := ""
		wantFeedUpd := 0
		var wantDeleted []string
		for _, part := range parts {
			clone := proto.Clone(part).(*pb.Notification)
			preElems := idOfElems(part.Prefix)
			preUpd, preDel := len(part.Update), len(part.Delete)
			err := w.c.GnmiUpdate(part)
			got := errClass(err)
			// caller's notification untouched (C03)
			if w.on("caller") {
				if !proto.Equal(clone, part) || preUpd != len(part.Update) || preDel != len(part.Delete) {
					vs = append(vs, vio("caller-notification-modified", "%s: the caller's notification was modified by GnmiUpdate", o))
				}
				if id := idOfElems(part.Prefix); id != preElems {
					vs = append(vs, vio("caller-notification-modified", "%s: the caller's prefix element slice changed identity (%v -> %v)", o, preElems, id))
				}
			}
			// model
			exp := ""
			if tm == nil {
				exp = "other" // unknown target
			} else {
				d, e, fu, del := w.modelApply(tm, part)
				want.add(d)
				exp = e
				wantFeedUpd += fu
				wantDeleted = append(wantDeleted, del...)
			}
			if exp != "" && wantErr == "" {
				wantErr = exp
			}
			if w.on("errclass") {
				multi := len(part.Update)+len(part.Delete) > 1 && !part.Atomic
				if multi {
					if (exp != "") != (got != "") {
						vs = append(vs, vio("error-class", "%s: returned %q (%v), model expects error=%v", o, got, err, exp != ""))
					}
				} else if got != exp {
					vs = append(vs, vio("error-class", "%s: returned %q (%v), model expects %q", o, got, err, exp))
				}
			}
		}
		if tm != nil {
			// rejected => state identical to before (C02) is implied by the state comparison below
			if w.on("feed") {
				nu, nd := 0, 0
				var gotDel []string
				for _, f := range w.feed {
					switch f.kind {
					case "update", "atomic":
						nu++
					case "delete":
						nd++
						gotDel = append(gotDel, f.key)
					}
				}
				sort.Strings(gotDel)
				sort.Strings(wantDeleted)
				if nu != wantFeedUpd {
					vs = append(vs, vio("feed-count", "%s: feed carried %d updates, expected %d (an update is withheld only when rejected or suppressed)", o, nu, wantFeedUpd))
				}
				if fmt.Sprintf("%q", gotDel) != fmt.Sprintf("%q", wantDeleted) {
					vs = append(vs, vio("feed-deletes", "%s: feed announced deletes %q, removed leaves are %q", o, gotDel, wantDeleted))
				}
			}
			if w.on("count") {
				chk := func(name string, d int64) {
					if got := w.metaInt(o.target, name) - preCnt[name]; got != d {
						vs = append(vs, vio("counter-"+name, "%s: %s moved by %d, expected %d", o, name, got, d))
					}
				}
				chk(metadata.UpdateCount, want.updated)
				chk(metadata.SuppressedCount, want.suppressed)
				chk(metadata.StaleCount, want.stale)
				chk(metadata.FutureCount, want.future)
				chk(metadata.EmptyCount, want.empty)
				chk(metadata.AddCount, want.added)
				chk(metadata.DelCount, want.deleted)
			}
		}
		// differential twin: one multi notification == its singles in order (C03)
		if o.kind == "multi" && !o.singles && w.on("twin") {
			tcfg := *w.cfg
			tcfg.twin = true
			tcfg.ops = append([]op{}, w.cfg.ops...)
			so := o
			so.singles = true
			tcfg.ops[i] = so
			tw := newWorld(&tcfg)
			for _, h := range w.hist {
				tw.Apply(h)
			}
			curWorld = w
			for _, t := range w.allTargets() {
				if !w.c.HasTarget(t) {
					continue
				}
				a, _ := w.obs(t, false)
				curWorld = tw
				b, _ := tw.obs(t, false)
				curWorld = w
				if strings.Join(a, ";") != strings.Join(b, ";") {
					vs = append(vs, vio("multi-vs-singles", "%s: as one notification the cache holds %v, as singles in order %v", o, a, b))
				}
			}
			if fa, fb := fmt.Sprint(w.feed), fmt.Sprint(tw.feed); fa != fb {
				vs = append(vs, vio("multi-vs-singles", "%s: feed of the multi notification %v differs from the feed of its singles %v", o, w.feed, tw.feed))
			}
		}
	case "sync":
		w.c.Sync(o.target)
	case "connect":
		w.c.Connect(o.target)
	case "connecterr":
		w.c.ConnectError(o.target, errors.New("dial failed"))
	case "updmeta":
		w.c.UpdateMetadata()
		if w.refreshed == nil {
			w.refreshed = map[string]bool{}
		}
		for _, t := range w.allTargets() {
			if w.c.HasTarget(t) {
				w.refreshed[t] = true
			}
		}
	case "updsize":
		w.c.UpdateSize()
	case "reset":
		w.c.Reset(o.target)
		if tm != nil {
			tm.leaves = map[string]leafM{}
			tm.latest = 0
		}
	case "remove":
		w.c.Remove(o.target)
		delete(w.m, o.target)
		delete(w.refreshed, o.target) // a re-added target is a new incarnation
	case "add":
		if w.m[o.target] == nil { // only absent targets are added (a duplicate Add is outside the histories)
			w.c.Add(o.target)
			w.m[o.target] = newTargetM()
			if w.replica[o.target] == nil {
				w.replica[o.target] = map[string]repLeaf{}
			}
		}
	}
	if w.cfg.twin {
		return nil
	}
	if w.broken != "" && w.on("feed") {
		vs = append(vs, vio("feed-shape", "%s: %s", o, w.broken))
	}

	// ---- state vs model (C02) and replica vs cache (C03), every target
	for _, t := range w.allTargets() {
		m := w.m[t]
		if m == nil {
			if w.c.HasTarget(t) {
				vs = append(vs, vio("target-set", "after %s: target %s should be unknown", o, t))
			}
			if w.on("remove") {
				if _, err := w.obs(t, true); err == nil {
					vs = append(vs, vio("removed-target-queryable", "after %s: Query of removed target %s returns no error", o, t))
				}
				if err := w.c.GnmiUpdate(&pb.Notification{Timestamp: 1, Prefix: &pb.Path{Target: t}}); err == nil {
					vs = append(vs, vio("removed-target-updatable", "after %s: GnmiUpdate for removed target %s returns no error", o, t))
				}
			}
			if w.on("replica") && len(w.replica[t]) != 0 {
				vs = append(vs, vio("replica-vs-cache", "after %s: target %s is gone but the feed replica still holds %v", o, t, sortedKeys(w.replica[t])))
			}
			continue
		}
		if !w.c.HasTarget(t) {
			vs = append(vs, vio("target-set", "after %s: target %s should be known", o, t))
			continue
		}
		got, _ := w.obs(t, false)
		if w.on("state") {
			if want := w.modelObs(t); strings.Join(got, ";") != strings.Join(want, ";") {
				vs = append(vs, vio("state-vs-model", "after %s: target %s holds\n  %v\nmodel (newest accepted value per leaf):\n  %v\nbefore the operation the model held\n  %v", o, t, got, want, preModelObs))
			}
			if w.on("latest") {
				if l := w.c.GetTarget(t).VerifLatest(); l != m.latest {
					vs = append(vs, vio("latest-timestamp", "after %s: target %s latest accepted timestamp is %d, model %d", o, t, l, m.latest))
				}
			}
		}
		if w.on("replica") {
			all, _ := w.obs(t, true)
			rep := w.replica[t]
			var rl []string
			for _, k := range sortedKeys(rep) {
				rl = append(rl, k)
			}
			var cl []string
			cv := map[string]string{}
			for _, line := range all {
				k := line[:strings.Index(line, "@")]
				cl = append(cl, k)
				cv[k] = line
			}
			if strings.Join(rl, ";") != strings.Join(cl, ";") {
				vs = append(vs, vio("replica-vs-cache", "after %s: replaying the feed yields leaves %v for %s, the cache returns %v", o, rl, t, cl))
			} else {
				for _, k := range rl {
					r := rep[k]
					a := ""
					if r.atomic {
						a = "A"
					}
					line := fmt.Sprintf("%s@%d%s=%s", k, r.ts, a, r.val)
					if line == cv[k] {
						continue
					}
					// timestamps may lag only behind a suppression
					lm, inModel := m.leaves[k]
					sameVal := strings.HasSuffix(cv[k], "="+r.val)
					if sameVal && (isMeta(k) || (inModel && lm.tsStale)) && w.cfg.eventDriven {
						continue
					}
					vs = append(vs, vio("replica-vs-cache", "after %s: replaying the feed yields %s, the cache returns %s", o, line, cv[k]))
				}
			}
		}
		if w.on("invariant") {
			nonMeta := int64(len(got))
			lc := w.metaInt(t, metadata.LeafCount)
			if lc != nonMeta {
				vs = append(vs, vio("leafcount-vs-leaves", "after %s: %s targetLeaves=%d but %d non-metadata leaves are stored", o, t, lc, nonMeta))
			}
			if ad := w.metaInt(t, metadata.AddCount) - w.metaInt(t, metadata.DelCount); ad != lc {
				vs = append(vs, vio("leafcount-vs-add-del", "after %s: %s targetLeaves=%d, added-deleted=%d", o, t, lc, ad))
			}
		}
		if o.kind == "updmeta" && w.on("count") {
			// what a refresh exports is what the counters say: every integer
			// counter leaf under meta/ exists and carries the in-memory value
			for _, name := range []string{metadata.AddCount, metadata.DelCount, metadata.EmptyCount, metadata.LeafCount, metadata.UpdateCount, metadata.StaleCount, metadata.FutureCount, metadata.SuppressedCount} {
				var leafVal int64
				present := false
				w.c.Query(t, metadata.Path(name), func(_ []string, _ *ctree.Leaf, val interface{}) error {
					if n, ok := val.(*pb.Notification); ok && len(n.Update) == 1 {
						leafVal, present = n.Update[0].Val.GetIntVal(), true
					}
					return nil
				})
				if want := w.metaInt(t, name); !present || leafVal != want {
					vs = append(vs, vio("exported-counter-vs-counter", "after %s: %s exported leaf meta/%s = %d (present=%v), the counter is %d", o, t, name, leafVal, present, want))
				}
			}
		}
		if o.kind == "updmeta" && w.on("latestleaf") && m.latest > 0 {
			v := w.c.GetTarget(t)
			_ = v
			var leafVal int64 = -1
			w.c.Query(t, metadata.Path(metadata.LatestTimestamp), func(_ []string, _ *ctree.Leaf, val interface{}) error {
				leafVal = val.(*pb.Notification).Update[0].Val.GetIntVal()
				return nil
			})
			if leafVal != m.latest {
				vs = append(vs, vio("latest-timestamp-leaf", "after %s: %s meta/latestTimestamp=%d, greatest accepted timestamp is %d", o, t, leafVal, m.latest))
			}
		}
	}

	// ---- frame (C14)
	if w.on("frame") && o.target != "" && o.kind != "updmeta" && o.kind != "updsize" {
		for _, t := range w.allTargets() {
			if t == o.target {
				continue
			}
			s := snap{has: w.c.HasTarget(t)}
			if s.has {
				ob, _ := w.obs(t, true)
				s.obs, s.meta = strings.Join(ob, ";"), w.metaSnap(t)
			}
			if s != pre[t] {
				vs = append(vs, vio("frame", "%s changed what is stored or reported for target %s:\n  before %+v\n  after  %+v", o, t, pre[t], s))
			}
		}
	}
	if o.kind == "reset" && tm != nil && w.on("reset") {
		vs = append(vs, w.checkReset(o)...)
	}
	if o.kind == "remove" && w.on("remove") {
		n := 0
		for _, f := range w.feed {
			if f.kind == "delete" && f.target == o.target && f.key == "*" {
				n++
			}
		}
		if n != 1 {
			vs = append(vs, vio("remove-announcement", "%s: feed carried %d whole-target deletes, expected exactly one (feed: %v)", o, n, w.feed))
		}
	}
	return vs
}

// modelApply applies one submitted notification to the target model.
func (w *world) modelApply(tm *targetM, n *pb.Notification) (delta, string, int, []string) {
	var d delta
	errc := ""
	fed := 0
	var deleted []string
	switch {
	case n.Atomic:
		if len(n.Delete) > 0 {
			return d, "other", 0, nil
		}
		if len(n.Update) == 0 {
			d.empty++
			return d, "", 0, nil
		}
		idx := fullIndex(n.Prefix, nil)
		e, f, dd := tm.update(w, idx, n.Timestamp, valBytes(n), detBytes(n), true, int64(len(n.Update)))
		d.add(dd)
		if f {
			fed++
		}
		if e == "" && n.Timestamp > tm.latest {
			tm.latest = n.Timestamp
		}
		return d, e, fed, nil
	case len(n.Update)+len(n.Delete) == 0:
		d.empty++
		return d, "", 0, nil
	}
	single := len(n.Update)+len(n.Delete) == 1
	accepted := false
	// the latest accepted timestamp moves once per notification, after all of
	// its parts were judged against the previous one
	defer func() {
		if accepted && n.Timestamp > tm.latest {
			tm.latest = n.Timestamp
		}
	}()
	for _, u := range n.Update {
		part := n
		if !single {
			part = &pb.Notification{Timestamp: n.Timestamp, Prefix: n.Prefix, Update: []*pb.Update{u}}
		}
		idx := fullIndex(n.Prefix, u.Path)
		e, f, dd := tm.update(w, idx, n.Timestamp, detBytes(u.Val), detBytes(part), false, 1)
		d.add(dd)
		if f {
			fed++
		}
		if e != "" && errc == "" {
			errc = e
		}
		if e == "" {
			accepted = true
		}
	}
	for _, p := range n.Delete {
		q := fullIndex(n.Prefix, p)
		del := tm.remove(q, n.Timestamp)
		d.updated++
		d.deleted += int64(len(del))
		deleted = append(deleted, del...)
	}
	return d, errc, fed, deleted
}

// checkReset: after Reset(X) no non-meta leaf is left, the replica lost
// exactly X's non-meta leaves, and X's metadata equals that of a freshly
// added target after one UpdateMetadata (differential oracle).
func (w *world) checkReset(o op) []seqmc.Violation {
	var vs []seqmc.Violation
	if got, _ := w.obs(o.target, false); len(got) != 0 {
		vs = append(vs, vio("reset-leaves-left", "%s: non-metadata leaves left: %v", o, got))
	}
	for k := range w.replica[o.target] {
		if !isMeta(k) {
			vs = append(vs, vio("reset-not-announced", "%s: the feed replica still holds %s (deletes announced: %v)", o, k, w.feed))
			break
		}
	}
	fcfg := *w.cfg
	fcfg.twin = true
	fcfg.targets = []string{o.target}
	fw := newWorld(&fcfg)
	fw.c.UpdateMetadata()
	fresh := fw.metaSnap(o.target)
	fleaves := fw.metaLeaves(o.target)
	curWorld = w
	if got := w.metaSnap(o.target); got != fresh {
		vs = append(vs, vio("reset-metadata", "%s: metadata after Reset\n  %s\ndiffers from a freshly added target's\n  %s", o, got, fresh))
	}
	if got := w.metaLeaves(o.target); got != fleaves {
		vs = append(vs, vio("reset-metadata-leaves", "%s: bool/int metadata leaves after Reset\n  %s\ndiffer from a freshly added target's\n  %s", o, got, fleaves))
	}
	return vs
}

// metaLeaves renders the bool and int leaves under meta/ (string leaves are
// deliberately excluded, see DESIGN.md C14).
func (w *world) metaLeaves(target string) string {
	var out []string
	// entries the cache was told not to export (WithExcludedMeta) are not
	// regenerated by a refresh or a Reset by design: their leaves are what the
	// last explicit Sync / Connect wrote and are not judged here
	skip := map[string]bool{}
	for _, name := range w.cfg.excludedMeta {
		skip[strings.Join(metadata.Path(name), "/")] = true
	}
	w.c.Query(target, []string{metadata.Root}, func(p []string, _ *ctree.Leaf, v interface{}) error {
		if skip[strings.Join(p, "/")] {
			return nil
		}
		n := v.(*pb.Notification)
		switch x := n.Update[0].Val.Value.(type) {
		case *pb.TypedValue_BoolVal:
			out = append(out, fmt.Sprintf("%s=%v", strings.Join(p, "/"), x.BoolVal))
		case *pb.TypedValue_IntVal:
			out = append(out, fmt.Sprintf("%s=%v", strings.Join(p, "/"), x.IntVal))
		}
		return nil
	})
	sort.Strings(out)
	return strings.Join(out, ";")
}
