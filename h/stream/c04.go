package main

import (
	"fmt"
	"strings"

	pb "github.com/openconfig/gnmi/proto/gnmi"
	"github.com/openconfig/gnmi/zzverif/hutil"
	"github.com/openconfig/gnmi/zzverif/vrt"
	"github.com/openconfig/gnmi/zzverif/xplore"
)

type cfg04 struct {
	writers []writer
	subs    []subSpec
	reverse bool // default scheduler prefers the newest thread
	unlock  bool // scheduling point after every Unlock
	// cancelSub: 1-based index of a subscription whose client goes away (its
	// context is cancelled) at a moment the scheduler chooses; the others stay
	cancelSub int
	// refresher: another goroutine runs the periodic metadata refresh (and a
	// Sync) for all targets while the writers write, as the collector does
	refresher bool
}

var initial = map[string][]string{"t1": {"a/b", "x"}, "t2": {"a/b"}}

func scripts04(maxLen int, alpha []wop) [][]wop {
	var out [][]wop
	var rec func(cur []wop)
	rec = func(cur []wop) {
		if len(cur) > 0 {
			out = append(out, append([]wop{}, cur...))
		}
		if len(cur) == maxLen {
			return
		}
		for _, o := range alpha {
			rec(append(cur, o))
		}
	}
	rec(nil)
	return out
}

func scriptName(s []wop) string {
	var p []string
	for _, o := range s {
		p = append(p, o.String())
	}
	return strings.Join(p, ";")
}

func configs04(tier string) []xplore.Config {
	alpha := []wop{{"upd", "a/b"}, {"upd", "a/c"}, {"same", "a/b"}, {"del", "a/b"}, {"del", "a"}, {"reset", ""}, {"atomic", "a/k"}}
	stream := pb.SubscriptionList_STREAM
	subs := []subSpec{
		{target: "t1", paths: []string{"a"}, mode: stream},
		{target: "t1", paths: []string{"a/b"}, updatesOnly: true, mode: stream},
		{target: "*", paths: []string{"*"}, mode: stream},
		{target: "t1", paths: []string{"a/b", "a/c"}, mode: stream},
		{target: "t1", paths: []string{"a", "a"}, mode: stream}, // the same path twice in one list
	}
	var out []xplore.Config
	maxLen, bound := 2, 2
	if tier == "thorough" {
		maxLen = 3
		subs = append(subs, subSpec{target: "t1", paths: []string{"*"}, updatesOnly: true, mode: stream}, subSpec{target: "t1", paths: []string{"a", "x"}, mode: stream})
	}
	for _, sc := range scripts04(maxLen, alpha) {
		for _, sp := range subs {
			out = append(out, xplore.Config{Name: fmt.Sprintf("W(t1)=%s | %s", scriptName(sc), sp), Bound: bound,
				Data: cfg04{writers: []writer{{"t1", sc}}, subs: []subSpec{sp}}})
		}
	}
	// two writers (one per target) and an all-targets subscriber; two subscribers
	short := scripts04(1, alpha)
	for _, s1 := range short {
		for _, s2 := range scripts04(1, []wop{{"upd", "a/b"}, {"del", "a/b"}, {"reset", ""}, {"remove", ""}}) {
			out = append(out, xplore.Config{Name: fmt.Sprintf("W(t1)=%s W(t2)=%s | %s", scriptName(s1), scriptName(s2), subs[2]), Bound: bound,
				Data: cfg04{writers: []writer{{"t1", s1}, {"t2", s2}}, subs: []subSpec{subs[2]}}})
		}
		out = append(out, xplore.Config{Name: fmt.Sprintf("W(t1)=%s | %s + %s", scriptName(s1), subs[0], subs[3]), Bound: bound,
			Data: cfg04{writers: []writer{{"t1", s1}}, subs: []subSpec{subs[0], subs[3]}}})
		// identical paths: both clients sit in the same trie node
		out = append(out, xplore.Config{Name: fmt.Sprintf("W(t1)=%s | %s + %s", scriptName(s1), subs[0], subs[0]), Bound: bound,
			Data: cfg04{writers: []writer{{"t1", s1}}, subs: []subSpec{subs[0], subs[0]}}})
	}
	// a subscriber attaching at any point of a Reset; subscription on a/... so
	// that the regenerated metadata stays out of the queue and the full bound
	// is affordable in the quick tier too (name avoids the Reset rule below)
	for _, sc := range [][]wop{{{"reset", ""}}, {{"upd", "a/c"}, {"reset", ""}}} {
		out = append(out, xplore.Config{Name: fmt.Sprintf("attach during W(t1)=%s | %s", strings.ReplaceAll(scriptName(sc), "reset", "Reset"), subs[0]), Bound: bound,
			Data: cfg04{writers: []writer{{"t1", sc}}, subs: []subSpec{subs[0]}}})
	}
	// the periodic metadata refresh runs in its own goroutine next to the
	// target's update stream: two feeds into the server for one target at once
	// (a refresh regenerates a dozen metadata leaves, so a single script here)
	for _, sc := range [][]wop{{{"upd", "a/b"}}} {
		out = append(out, xplore.Config{Name: fmt.Sprintf("W(t1)=%s || metadata Refresh | %s", scriptName(sc), subs[0]), Bound: bound,
			Data: cfg04{writers: []writer{{"t1", sc}}, subs: []subSpec{subs[0]}, refresher: true}})
	}
	// two clients with nested paths, one of them leaves while the writer goes on
	// (whatever the leaving client's removal prunes, the other's registration stays)
	nestedA := subSpec{target: "t1", paths: []string{"a"}, mode: stream}
	nestedB := subSpec{target: "t1", paths: []string{"a/b"}, mode: stream}
	whole := subSpec{target: "t1", paths: []string{"*"}, mode: stream}
	for _, sc := range [][]wop{{{"upd", "a/b"}}, {{"upd", "a/b"}, {"upd", "a/c"}}, {{"del", "a"}, {"upd", "a/b"}}} {
		for _, pair := range [][2]subSpec{{nestedA, nestedB}, {whole, nestedB}} {
			for _, leave := range []int{1, 2} {
				out = append(out, xplore.Config{Name: fmt.Sprintf("W(t1)=%s | %s + %s, client %d leaves", scriptName(sc), pair[0], pair[1], leave), Bound: bound,
					Data: cfg04{writers: []writer{{"t1", sc}}, subs: []subSpec{pair[0], pair[1]}, cancelSub: leave}})
			}
		}
	}
	// decimal values that differ only beyond float32 resolution: each one is a
	// change and is delivered (or coalesced into a later, newer one)
	for _, sc := range [][]wop{{{"dec", "a/d"}, {"dec", "a/d"}}, {{"dec", "a/d"}, {"upd", "a/b"}, {"dec", "a/d"}}} {
		out = append(out, xplore.Config{Name: fmt.Sprintf("W(t1)=%s | %s (decimals beyond float32 resolution)", scriptName(sc), subs[0]), Bound: bound - 1,
			Data: cfg04{writers: []writer{{"t1", sc}}, subs: []subSpec{subs[0]}}})
	}
	// a server with an ACL: an all-targets subscriber that is denied t2 while t2
	// is being updated (every response for it is dropped unsent), then nothing
	// happens for longer than any time-out: the subscription stays up and keeps
	// delivering what the subscriber may see
	aclCfgs := []xplore.Config{{Name: "server WithACL denying t2 | stream *:[a] user=u | W(t2)=upd a/b;upd a/b, then idle past every time-out", Bound: bound,
		Data: cfg08{stall: "never", script: []wop{{"upd", "a/b"}, {"upd", "a/b"}}, acl: true}}}
	// a leaf whose value is in the deprecated Update.value encoding, written
	// twice or three times (the second write may find the first still pending in
	// a subscriber's queue: a coalesced response carries the newest value all the same)
	for _, sc := range [][]wop{{{"depr", "a/v"}, {"depr", "a/v"}}, {{"depr", "a/v"}, {"depr", "a/v"}, {"depr", "a/v"}}, {{"depr", "a/v"}, {"upd", "a/b"}, {"depr", "a/v"}}} {
		for _, sp := range subs[:2] {
			aclCfgs = append(aclCfgs, xplore.Config{Name: fmt.Sprintf("W(t1)=%s | %s (deprecated value encoding)", scriptName(sc), sp), Bound: bound,
				Data: cfg04{writers: []writer{{"t1", sc}}, subs: []subSpec{sp}}})
		}
	}
	// a delete that removes MANY leaves (five, six) of a container while a newer
	// leaf under the same path survives it: however the removals are announced,
	// a subscriber's replay keeps the survivor
	for _, n := range []int{2, 5, 6} {
		sc := []wop{{"updf", "a/z"}}
		for i := 1; i <= n; i++ {
			sc = append(sc, wop{"upd", fmt.Sprintf("a/m%d", i)})
		}
		sc = append(sc, wop{"del", "a"})
		for _, sp := range subs[:2] {
			aclCfgs = append(aclCfgs, xplore.Config{Name: fmt.Sprintf("W(t1)=%s | %s (a delete removing %d+1 leaves, one newer leaf survives)", scriptName(sc), sp, n), Bound: bound - 1,
				Data: cfg04{writers: []writer{{"t1", sc}}, subs: []subSpec{sp}}})
		}
	}
	// a target removed by one goroutine while another re-creates it and writes
	// to it (the configuration handler removing, a late manager goroutine
	// adding): whatever the order, a leaf the cache ends up holding is one the
	// subscribers' replay holds too - the whole-target delete of the old
	// incarnation is announced before anything of the new one
	aclCfgs = append(aclCfgs, xplore.Config{Name: "X=t1 W(t1)=remove || W'(t1)=add;upd a/b W(t2)=upd a/b (no leaf the re-added target holds may be missing from a replay)", Bound: bound,
		Data: cfg14{w1: []wop{{"remove", ""}}, w2: []wop{{"upd", "a/b"}}, w1b: []wop{{"add", ""}, {"upd", "a/b"}}, missingOnly: true}})
	// single-operation programs once more with a scheduling point after every
	// Unlock (the window between "found the queue empty under its lock" and
	// "started waiting for the wake-up")
	for _, o := range []wop{{"upd", "a/b"}, {"del", "a/b"}, {"atomic", "a/k"}} {
		out = append(out, xplore.Config{Name: fmt.Sprintf("W(t1)=%s | %s [unlock points]", o, subs[0]), Bound: bound,
			Data: cfg04{writers: []writer{{"t1", []wop{o}}}, subs: []subSpec{subs[0]}, unlock: true}})
	}
	// Reset regenerates a dozen metadata leaves and dominates the cost: one
	// deviation less for scripts containing it in the quick tier; the thorough
	// tier gives the cheap scripts one deviation more.
	// every program also under the reversed default scheduler
	n := len(out)
	for i := 0; i < n; i++ {
		c := out[i]
		d := c.Data.(cfg04)
		d.reverse = true
		c.Data = d
		c.Name += " [newest-first]"
		out = append(out, c)
	}
	for _, c := range aclCfgs {
		out = append(out, c)
		c.Reverse = true
		c.Name += " [newest-first]"
		out = append(out, c)
	}
	for i := range out {
		hasReset := strings.Contains(out[i].Name, "reset")
		switch {
		case tier != "thorough" && hasReset:
			out[i].Bound = 1
		case tier == "thorough" && !hasReset && strings.Count(out[i].Name, ";") < 2 && !strings.Contains(out[i].Name, "W(t2)") && !strings.Contains(out[i].Name, " + "):
			out[i].Bound = 3
		}
	}
	return out
}

// configs01: the relay core of the collector (cache feed -> Subscribe server
// -> one client) under schedules, for C01: a client that subscribes to a
// target (or to all targets) while that target's update/delete stream is being
// relayed must end up with the target's final state. Same oracle as C04, a
// subset of its programs (no Reset: C01 is about what the target streams).
func configs01(tier string) []xplore.Config {
	alpha := []wop{{"upd", "a/b"}, {"upd", "a/c"}, {"del", "a/b"}, {"del", "a"}, {"atomic", "a/k"}}
	stream := pb.SubscriptionList_STREAM
	subs := []subSpec{{target: "t1", paths: []string{"*"}, mode: stream}, {target: "*", paths: []string{"a"}, mode: stream}}
	bound, maxLen := 2, 2
	if tier == "thorough" {
		bound, maxLen = 3, 3
	}
	var out []xplore.Config
	for _, sc := range scripts04(maxLen, alpha) {
		for _, sp := range subs {
			for _, rev := range []bool{false, true} {
				name := fmt.Sprintf("relay W(t1)=%s | %s", scriptName(sc), sp)
				if rev {
					name += " [newest-first]"
				}
				out = append(out, xplore.Config{Name: name, Bound: bound, Data: cfg04{writers: []writer{{"t1", sc}}, subs: []subSpec{sp}, reverse: rev}})
			}
		}
	}
	// a subscription of several paths that carry their origin IN THE PATH (what
	// -proto / -proto_file / Query.SubReq can express and the query flags cannot),
	// the target streaming below both origins: each path is registered for
	// streaming under its own origin, exactly as the snapshot walk resolves it
	for _, sp := range []subSpec{{target: "t1", paths: []string{"o:a", "p:a"}, mode: stream}, {target: "t1", paths: []string{"a", "p:a"}, mode: stream}} {
		for _, sc := range scripts04(2, []wop{{"upd", "o:a/b"}, {"upd", "p:a/b"}, {"del", "p:a/b"}, {"upd", "a/b"}}) {
			for _, rev := range []bool{false, true} {
				name := fmt.Sprintf("relay W(t1)=%s | %s (origins in the paths)", scriptName(sc), sp)
				if rev {
					name += " [newest-first]"
				}
				out = append(out, xplore.Config{Name: name, Bound: bound - 1, Data: cfg04{writers: []writer{{"t1", sc}}, subs: []subSpec{sp}, reverse: rev}})
			}
		}
	}
	// a subscription naming two paths of which the first is a plain STRING prefix
	// of the second without being its ancestor (a, then ab - eth1, then eth10):
	// both are walked for the snapshot and both are streamed
	for _, sp := range []subSpec{{target: "t1", paths: []string{"a", "ab"}, mode: stream}, {target: "t1", paths: []string{"ab", "a"}, mode: stream}} {
		for _, sc := range [][]wop{{{"upd", "ab/x"}}, {{"upd", "ab/x"}, {"upd", "a/b"}}, {{"upd", "a/b"}, {"upd", "ab/x"}}} {
			for _, rev := range []bool{false, true} {
				name := fmt.Sprintf("relay W(t1)=%s | %s (sibling names, one a string prefix of the other)", scriptName(sc), sp)
				if rev {
					name += " [newest-first]"
				}
				out = append(out, xplore.Config{Name: name, Bound: bound - 1, Data: cfg04{writers: []writer{{"t1", sc}}, subs: []subSpec{sp}, reverse: rev}})
			}
		}
	}
	// a second client subscribed below the first one's path goes away while the
	// target keeps streaming: the remaining client must still get everything
	// (the first client sits at an ANCESTOR node of the second one's path: the
	// whole target as the empty path, as `gnmi_cli -q /` asks for it, or a/)
	leaf := subSpec{target: "t1", paths: []string{"a/b"}, mode: stream}
	for _, anc := range []subSpec{{target: "t1", paths: []string{""}, mode: stream}, {target: "t1", paths: []string{"a"}, mode: stream}} {
		for _, sc := range [][]wop{{{"upd", "a/b"}}, {{"upd", "a/b"}, {"del", "a/b"}}, {{"upd", "a/c"}, {"upd", "a/b"}}} {
			for _, rev := range []bool{false, true} {
				name := fmt.Sprintf("relay W(t1)=%s | %s + %s, the second client leaves", scriptName(sc), anc, leaf)
				if rev {
					name += " [newest-first]"
				}
				out = append(out, xplore.Config{Name: name, Bound: bound, Data: cfg04{writers: []writer{{"t1", sc}}, subs: []subSpec{anc, leaf}, cancelSub: 2, reverse: rev}})
			}
		}
	}
	return out
}

// C06 at the server's feed: every update the cache hands to Server.Update is
// offered under ITS OWN path, whichever other feed for the same target (the
// metadata refresh goroutine) is inside Server.Update at that moment. Same
// oracle as C04 (a leaf outside the subscription, or a subscribed leaf that
// never arrives, is a wrongly addressed offer).
func configs06(tier string) []xplore.Config {
	stream := pb.SubscriptionList_STREAM
	bound := 2
	var out []xplore.Config
	scs := [][]wop{{{"upd", "a/b"}}}
	if tier == "thorough" {
		bound = 3
		scs = append(scs, []wop{{"upd", "a/b"}, {"del", "a/b"}})
	}
	for _, sc := range scs {
		for _, sp := range []subSpec{{target: "t1", paths: []string{"a"}, mode: stream}, {target: "t1", paths: []string{"a/b"}, mode: stream}} {
			out = append(out, xplore.Config{Name: fmt.Sprintf("feed W(t1)=%s || metadata Refresh | %s", scriptName(sc), sp), Bound: bound,
				Data: cfg04{writers: []writer{{"t1", sc}}, subs: []subSpec{sp}, refresher: true}})
		}
	}
	n := len(out)
	for i := 0; i < n; i++ {
		c := out[i]
		d := c.Data.(cfg04)
		d.reverse = true
		c.Data = d
		c.Name += " [newest-first]"
		out = append(out, c)
	}
	return out
}

func setupInitial(w *world) {
	for _, t := range []string{"t1", "t2"} {
		for _, p := range initial[t] {
			w.noteHeld(t, p, 1)
			w.c.GnmiUpdate(&pb.Notification{Timestamp: 1, Prefix: &pb.Path{Target: t}, Update: []*pb.Update{{Path: mkPath(p), Val: ival(1)}}})
		}
	}
}

// touched reports whether the writer scripts may delete or reset leaf t|p.
func touched(ws []writer, t, p string) bool {
	for _, w := range ws {
		if w.target != t {
			continue
		}
		for _, o := range w.script {
			if o.kind == "reset" || o.kind == "remove" || (o.kind == "del" && (okey(o.path) == p || strings.HasPrefix(p, okey(o.path)+"/"))) {
				return true
			}
		}
	}
	return false
}

func run04(cfg xplore.Config, ch vrt.Chooser, trace bool) (xplore.Outcome, *vrt.Result) {
	if d8, ok := cfg.Data.(cfg08); ok {
		return run08acl(cfg, d8, ch, trace)
	}
	if _, ok := cfg.Data.(cfg14); ok {
		return run14x(cfg, ch, trace)
	}
	d := cfg.Data.(cfg04)
	var out xplore.Outcome
	res := vrt.Run(ch, vrt.Options{Trace: trace, Reverse: d.reverse, UnlockPoints: vrt.DefaultUnlockPoints || d.unlock}, func() {
		w := newWorld([]string{"t1", "t2"})
		setupInitial(w)
		w.wdone = make([]bool, len(d.writers))
		for i, wr := range d.writers {
			i, wr := i, wr
			vrt.GoNamed("writer-"+wr.target, func() {
				for _, o := range wr.script {
					w.apply(wr.target, o)
				}
				w.wdone[i] = true
			})
		}
		for i, sp := range d.subs {
			st := newStream(sp)
			w.streams = append(w.streams, st)
			vrt.GoNamed(fmt.Sprintf("sub%d", i), func() {
				st.status = w.srv.Subscribe(st)
				st.returned = true
				st.cancel()
			})
		}
		if d.cancelSub > 0 {
			vrt.GoNamed("client-leaves", func() { w.streams[d.cancelSub-1].cancel() })
		}
		if d.refresher {
			vrt.GoNamed("metadata-refresh", func() { w.c.UpdateMetadata() })
		}
		settle()
		// ---- phase 1: the system stopped changing
		for i, ok := range w.wdone {
			if !ok {
				viol(&out, "writer-blocked", "writer %d never finished: %v", i, vrt.ParkedInfo())
				return
			}
		}
		for i, st := range w.streams {
			if i == d.cancelSub-1 {
				continue // this client left: its stream ended, the others are judged
			}
			checkStream04(&out, w, d, i, st)
		}
		var obs []string
		for _, st := range w.streams {
			obs = append(obs, renderLog(st.log))
		}
		out.Obs = strings.Join(obs, " || ")
		out.Nontrivial = true
		// ---- wind down: the clients go away
		for _, st := range w.streams {
			st.cancel()
		}
		vrt.Idle()
		if !vrt.AllDone() {
			viol(&out, "deadlock", "after cancelling every stream some threads never finished: %v", vrt.ParkedInfo())
		}
	})
	if res.Aborted != "" {
		viol(&out, hutil.AbortClass(res.Aborted, res.Panic), "%s %s", res.Aborted, strings.Join(res.Parked, "; "))
	}
	return out, res
}

func checkStream04(out *xplore.Outcome, w *world, d cfg04, i int, st *fstream) {
	sp := st.spec
	if st.returned {
		viol(out, "stream-ended", "subscription %d (%s) ended with %v although nobody cancelled it; log: %s", i, sp, st.status, renderLog(st.log))
		return
	}
	// (1) exactly one sync
	if len(st.syncSeen) != 1 {
		viol(out, "sync-count", "subscription %d (%s) received %d sync responses; log: %s", i, sp, len(st.syncSeen), renderLog(st.log))
		return
	}
	if sp.updatesOnly && st.syncSeen[0] != 0 {
		viol(out, "sync-not-first", "updates_only subscription %d (%s): sync is response %d; log: %s", i, sp, st.syncSeen[0], renderLog(st.log))
	}
	// (2) leaves present at subscription time and never deleted come before the sync
	if !sp.updatesOnly {
		before := map[string]bool{}
		for _, r := range st.log[:st.syncSeen[0]] {
			if n := r.GetUpdate(); n != nil && len(n.Update) == 1 {
				before[n.GetPrefix().GetTarget()+"|"+strings.Join(fullIndex(n.Prefix, n.Update[0].Path), "/")] = true
			}
		}
		for t, ps := range initial {
			for _, p := range ps {
				if subscribed(sp, t, splitKey(p)) && !touched(d.writers, t, p) && !before[t+"|"+p] {
					viol(out, "snapshot-incomplete", "subscription %d (%s): leaf %s|%s was present for the whole run but is not delivered before the sync; log: %s", i, sp, t, p, renderLog(st.log))
				}
			}
		}
	}
	// (4)+(5) every update is a value the leaf really held, inside the subscription
	for _, r := range st.log {
		n := r.GetUpdate()
		if n == nil {
			continue
		}
		t := n.GetPrefix().GetTarget()
		if n.Atomic {
			idx := fullIndex(n.Prefix, nil)
			k := t + "|" + strings.Join(idx, "/")
			if !subscribed(sp, t, idx) {
				viol(out, "outside-subscription", "subscription %d (%s) received atomic %s", i, sp, k)
			}
			if !w.held[k][atomicVal(n)] {
				viol(out, "value-never-held", "subscription %d (%s) received %s=%s, which that container never held as a unit (%v): atomic notifications must not be split or mixed", i, sp, k, atomicVal(n), w.held[k])
			}
			continue
		}
		for _, u := range n.Update {
			idx := fullIndex(n.Prefix, u.Path)
			k := t + "|" + strings.Join(idx, "/")
			if !subscribed(sp, t, idx) {
				viol(out, "outside-subscription", "subscription %d (%s) received %s", i, sp, k)
			}
			if !isMetaKey(k) && !w.held[k][valOf(n)] {
				viol(out, "value-never-held", "subscription %d (%s) received %s=%s, which that leaf never held (%v)", i, sp, k, valOf(n), w.held[k])
			}
		}
		for _, dl := range n.Delete {
			if idx := fullIndex(n.Prefix, dl); !subscribed(sp, t, idx) {
				viol(out, "outside-subscription", "subscription %d (%s) received a delete of %s|%v", i, sp, t, idx)
			}
		}
	}
	// (3) convergence: replaying the responses yields the cache's matching content
	rep, bad := replay(st.log)
	if bad != "" {
		viol(out, "response-shape", "subscription %d (%s): %s", i, sp, bad)
		return
	}
	want := w.expected(sp)
	if sp.updatesOnly {
		// only leaves changed after the subscription are known to the client:
		// everything it knows must be current, and deleted leaves must be gone
		for k, v := range rep {
			if want[k] != v {
				viol(out, "not-converged", "updates_only subscription %d (%s): client holds %s=%s, cache holds %q; log: %s", i, sp, k, v, want[k], renderLog(st.log))
			}
		}
		return
	}
	if renderMap(rep) != renderMap(want) {
		viol(out, "not-converged", "subscription %d (%s): replaying the responses yields\n  %s\nthe cache's matching content is\n  %s\nlog: %s", i, sp, renderMap(rep), renderMap(want), renderLog(st.log))
	}
}
