package main

import (
	"fmt"
	"strings"

	"google.golang.org/grpc/codes"
	"google.golang.org/grpc/status"

	pb "github.com/openconfig/gnmi/proto/gnmi"
	"github.com/openconfig/gnmi/zzverif/hutil"
	"github.com/openconfig/gnmi/zzverif/vrt"
	"github.com/openconfig/gnmi/zzverif/xplore"
)

// C05 — ONCE and POLL return exactly the matching snapshot, then sync.

type leaf05 struct {
	target, origin, path string
	keyed                bool // last element carries key n=v
	val                  int64
	atomic               bool // an atomic container stored at path (leaves m, n below it)
	// keys2: the last element is a list entry with two keys whose VALUES sort
	// the other way round than their names: identifier=z, name=a (index: z, a)
	keys2 bool
}

var content05 = []leaf05{
	{"t1", "", "a/b", false, 1, false, false}, {"t1", "", "a/c", false, 2, false, false}, {"t1", "", "b", false, 3, false, false}, {"t1", "o", "a/b", false, 4, false, false},
	{"t1", "", "a/k", true, 5, false, false}, {"t1", "", "c/a/b", false, 6, false, false}, {"t2", "", "a/b", false, 7, false, false}, {"t2", "o", "b", false, 8, false, false},
	{"t1", "", "c/at", false, 9, true, false},
	{"t1", "", "c/p", false, 10, false, true},
	// sibling names of which one is a proper STRING prefix of the other (f/fg,
	// e/ef, h/hh): "covered by an earlier path" is a question about elements,
	// never about the joined strings
	{"t1", "", "e/f", false, 11, false, false}, {"t1", "", "e/fg", false, 12, false, false}, {"t1", "", "ef/x", false, 13, false, false},
	{"t1", "", "g/h/i", false, 14, false, false}, {"t1", "", "g/hh/i", false, 15, false, false},
}

func (l leaf05) index() []string {
	var out []string
	if l.origin != "" {
		out = append(out, l.origin)
	}
	out = append(out, strings.Split(l.path, "/")...)
	if l.keyed {
		out = append(out, "v")
	}
	if l.keys2 {
		out = append(out, "z", "a")
	}
	return out
}

type sub05 struct {
	target  string
	pOrigin string
	pElems  string
	paths   []string // "origin:elems"
	mode    pb.SubscriptionList_Mode
	polls   int
	writer  []wop
	// patient: the client lets time pass (every armed timer expires) between a
	// sync_response and its next trigger / its half-close
	patient bool
	// abandoned: before this call an EARLIER client asked for the same paths
	// and went away at a moment the scheduler chooses (possibly in the middle of
	// its snapshot walk); whatever that abandoned call left behind, the writer
	// and this call are not affected
	abandoned bool
	// pEnc / sEnc: "element" = the prefix / the subscription paths use the
	// deprecated string-list encoding of path elements instead of PathElem
	pEnc, sEnc string
	// between: the writer runs to completion BETWEEN the first sync and the
	// poll trigger (the stream is held open across it); the polled round must
	// then be exactly what the cache holds afterwards
	between bool
}

func (s sub05) String() string {
	pt := ""
	if s.patient {
		pt = " patient-client"
	}
	if len(s.writer) > 0 {
		pt += " || W(t1)=" + scriptName(s.writer)
	}
	if s.between {
		pt += " (the writer runs between the first sync and the poll)"
	}
	if s.abandoned {
		pt += " after an earlier client of the same paths went away mid-call"
	}
	if s.pEnc != "" || s.sEnc != "" {
		pt += fmt.Sprintf(" encodings prefix=%q paths=%q (\"\" = PathElem)", s.pEnc, s.sEnc)
	}
	return fmt.Sprintf("%s target=%s prefix=%s:%s paths=%v polls=%d%s", strings.ToLower(s.mode.String()), s.target, s.pOrigin, s.pElems, s.paths, s.polls, pt)
}

func (s sub05) request() *pb.SubscribeRequest {
	depr := func(p *pb.Path) {
		for _, e := range p.Elem {
			p.Element = append(p.Element, e.Name)
		}
		p.Elem = nil
	}
	pre := mkPath(s.pElems)
	pre.Target, pre.Origin = s.target, s.pOrigin
	if s.pEnc == "element" {
		depr(pre)
	}
	sl := &pb.SubscriptionList{Prefix: pre, Mode: s.mode}
	for _, p := range s.paths {
		o, e := "", p
		if i := strings.Index(p, ":"); i >= 0 {
			o, e = p[:i], p[i+1:]
		}
		pp := mkPath(e)
		pp.Origin = o
		if s.sEnc == "element" {
			depr(pp)
		}
		sl.Subscription = append(sl.Subscription, &pb.Subscription{Path: pp})
	}
	return &pb.SubscribeRequest{Request: &pb.SubscribeRequest_Subscribe{Subscribe: sl}}
}

// want computes the reference answer: "target|index" -> value, or illegal.
func (s sub05) want() (map[string]int64, bool) {
	out := map[string]int64{}
	for _, p := range s.paths {
		o, e := "", p
		if i := strings.Index(p, ":"); i >= 0 {
			o, e = p[:i], p[i+1:]
		}
		if s.pOrigin != "" && o != "" || o != "" && s.pElems != "" {
			return nil, true
		}
		var q []string
		if s.pOrigin != "" {
			q = append(q, s.pOrigin)
		} else if o != "" {
			q = append(q, o)
		}
		q = append(q, splitKey(s.pElems)...)
		q = append(q, splitKey(e)...)
		for _, l := range content05 {
			if s.target != "*" && l.target != s.target {
				continue
			}
			if matches(q, l.index()) {
				out[l.target+"|"+strings.Join(l.index(), "/")] = l.val
			}
		}
	}
	return out, false
}

func configs05(tier string) []xplore.Config {
	var out []xplore.Config
	elems := []string{"", "a", "b", "c", "*", "a/b", "a/*", "*/b", "*/*", "c/a", "a/k", "a/k/v", "a/k/*", "*/a/b", "c/at", "c/at/*", "c/at/m", "c/*", "c/p", "c/p/z/a", "c/p/*/a", "c/p/z/*", "c/p/a/*"}
	if tier == "thorough" {
		elems = append(elems, "a/b/c", "*/a/b", "c/*/b", "*/*/*", "a/*/*", "c/a/b")
	}
	var single []string
	for _, e := range elems {
		single = append(single, e, "o:"+e)
	}
	sb := 2
	if tier == "thorough" {
		sb = 3
	}
	add := func(s sub05, bound int) {
		out = append(out, xplore.Config{Name: s.String(), Bound: bound, Data: s})
	}
	for _, tg := range []string{"t1", "*"} {
		for _, po := range []string{"", "o"} {
			for _, pe := range []string{"", "a"} {
				for _, p := range single {
					add(sub05{target: tg, pOrigin: po, pElems: pe, paths: []string{p}, mode: pb.SubscriptionList_ONCE}, sb-1)
				}
			}
		}
		// two paths per list (overlapping and disjoint)
		for _, pair := range [][]string{{"a", "a/b"}, {"a/b", "b"}, {"*", "a"}, {"a/*", "*/b"}, {"o:a", "a"}, {"b", "b"}, {"c/*", "c/at"}, {"a/k", "a/*"},
			{"e/f", "e/fg"}, {"e/fg", "e/f"}, {"e", "ef"}, {"ef", "e"}, {"g/h", "g/hh"}, {"g/h/i", "g/hh/i"}, {"e/f", "e/fg", "ef"}, {"a", "a", "a/b"}} {
			add(sub05{target: tg, paths: pair, mode: pb.SubscriptionList_ONCE}, sb)
			for polls := 0; polls <= 2; polls++ {
				add(sub05{target: tg, paths: pair, mode: pb.SubscriptionList_POLL, polls: polls}, sb-polls/2)
			}
		}
		for _, p := range []string{"a", "*", "o:a/b", "a/k"} {
			for polls := 0; polls <= 2; polls++ {
				add(sub05{target: tg, paths: []string{p}, mode: pb.SubscriptionList_POLL, polls: polls}, sb-polls/2)
			}
		}
	}
	// a client that idles between sync_response and the next trigger for longer
	// than any time-out (no send is pending then, so nothing may expire)
	for _, p := range []string{"a", "b"} {
		for polls := 0; polls <= 2; polls++ {
			add(sub05{target: "t1", paths: []string{p}, mode: pb.SubscriptionList_POLL, polls: polls, patient: true}, sb-1)
		}
	}
	// concurrent writer
	wb := 2
	if tier == "thorough" {
		wb = 3
	}
	for _, sc := range scripts04(2, []wop{{"upd", "a/b"}, {"del", "a/b"}, {"upd", "a/z"}, {"del", "a"}}) {
		for _, p := range []string{"a", "*"} {
			add(sub05{target: "t1", paths: []string{p}, mode: pb.SubscriptionList_ONCE, writer: sc}, wb)
			add(sub05{target: "t1", paths: []string{p}, mode: pb.SubscriptionList_POLL, polls: 1, writer: sc}, wb-1)
		}
	}
	// prefix and subscription paths in different encodings of path elements
	// (PathElem vs the deprecated string list): the prefix's elements count
	for _, enc := range [][2]string{{"", "element"}, {"element", ""}, {"element", "element"}} {
		for _, pp := range [][2]string{{"a", "b"}, {"a", "*"}, {"c", "a/b"}, {"c", "*/b"}, {"", "a/b"}} {
			for _, md := range []pb.SubscriptionList_Mode{pb.SubscriptionList_ONCE, pb.SubscriptionList_POLL} {
				add(sub05{target: "t1", pElems: pp[0], paths: []string{pp[1]}, mode: md, polls: 1, pEnc: enc[0], sEnc: enc[1]}, sb-1)
			}
		}
	}
	// an earlier client that went away in the middle of its call, then a writer
	// creating a new leaf in the walked container, then this call
	for _, p := range [][]string{{"a"}, {"a/*"}, {"*"}, {"c/*"}} {
		add(sub05{target: "t1", paths: p, mode: pb.SubscriptionList_ONCE, writer: []wop{{"upd", "a/z"}}, abandoned: true}, wb-1)
	}
	// an all-targets call while one target is being REMOVED: the leaves of the
	// targets that stay are matched for the whole call and must all be returned
	for _, sc := range [][]wop{{{"remove", ""}}, {{"upd", "a/z"}, {"remove", ""}}} {
		for _, p := range []string{"a", "*"} {
			add(sub05{target: "*", paths: []string{p}, mode: pb.SubscriptionList_ONCE, writer: sc}, wb)
			add(sub05{target: "*", paths: []string{p}, mode: pb.SubscriptionList_POLL, polls: 1, writer: sc}, wb-1)
		}
	}
	// a POLL stream held open while its target is removed, added again and
	// refilled (the writer runs to completion between the first sync and the
	// poll): the polled round answers from the target as it is NOW
	for _, sc := range [][]wop{{{"remove", ""}, {"add", ""}, {"upd", "a/b"}}, {{"remove", ""}, {"add", ""}, {"upd", "a/z"}}, {{"reset", ""}, {"upd", "a/z"}}, {{"del", "a"}, {"upd", "a/z"}}} {
		for _, p := range []string{"a", "*"} {
			add(sub05{target: "t1", paths: []string{p}, mode: pb.SubscriptionList_POLL, polls: 1, writer: sc, between: true}, wb-1)
		}
	}
	return out
}

func run05(cfg xplore.Config, ch vrt.Chooser, trace bool) (xplore.Outcome, *vrt.Result) {
	s := cfg.Data.(sub05)
	var out xplore.Outcome
	res := vrt.Run(ch, vrt.Options{Reverse: cfg.Reverse, Trace: trace}, func() {
		w := newWorld([]string{"t1", "t2"})
		for _, l := range content05 {
			p := mkPath(l.path)
			if l.keyed {
				p.Elem[len(p.Elem)-1].Key = map[string]string{"n": "v"}
			}
			if l.keys2 {
				p.Elem[len(p.Elem)-1].Key = map[string]string{"identifier": "z", "name": "a"}
			}
			if l.atomic {
				pre := mkPath(l.path)
				pre.Target, pre.Origin = l.target, l.origin
				w.c.GnmiUpdate(&pb.Notification{Timestamp: 1, Atomic: true, Prefix: pre, Update: []*pb.Update{{Path: mkPath("m"), Val: ival(l.val)}, {Path: mkPath("n"), Val: ival(l.val)}}})
				w.noteHeld(l.target, strings.Join(l.index(), "/"), l.val)
				continue
			}
			w.c.GnmiUpdate(&pb.Notification{Timestamp: 1, Prefix: &pb.Path{Target: l.target, Origin: l.origin}, Update: []*pb.Update{{Path: p, Val: ival(l.val)}}})
			w.noteHeld(l.target, strings.Join(l.index(), "/"), l.val)
		}
		if s.abandoned {
			ea := s
			ea.mode, ea.polls = pb.SubscriptionList_POLL, 1
			a := newStream(subSpec{target: s.target, mode: pb.SubscriptionList_POLL})
			a.req = ea.request()
			vrt.GoNamed("earlier-rpc", func() {
				a.status = w.srv.Subscribe(a)
				a.returned = true
			})
			vrt.GoNamed("earlier-client-leaves", func() { a.cancel() })
			vrt.Idle()
			if !a.returned || !vrt.AllDone() {
				viol(&out, "rpc-did-not-end", "%s: the earlier client went away but its call did not end: %v", s, vrt.ParkedInfo())
				return
			}
		}
		st := newStream(subSpec{target: s.target, mode: s.mode})
		st.req = s.request()
		syncC := make(chan struct{}, 8)
		st.onSync = func() { vrt.Send(syncC, struct{}{}) }
		vrt.GoNamed("rpc", func() {
			st.status = w.srv.Subscribe(st)
			st.returned = true
			st.cancel()
		})
		idleC := make(chan struct{}, 1)
		clientIdle := false
		pause := func() {
			if s.patient {
				clientIdle = true
				vrt.Recv(idleC)
			}
		}
		firstSync := make(chan struct{})
		writerDone := make(chan struct{})
		if s.mode == pb.SubscriptionList_POLL {
			vrt.GoNamed("client", func() {
				for i := 0; i < s.polls; i++ {
					vrt.Recv(syncC)
					if s.between && i == 0 {
						vrt.Close(firstSync)
						vrt.Recv(writerDone)
					}
					pause()
					vrt.Send(st.pollC, struct{}{})
				}
				vrt.Recv(syncC)
				pause()
				vrt.Close(st.pollC) // EOF
			})
		}
		wdone := len(s.writer) == 0
		if len(s.writer) > 0 {
			vrt.GoNamed("writer", func() {
				if s.between {
					vrt.Recv(firstSync)
				}
				for _, o := range s.writer {
					w.apply("t1", o)
				}
				wdone = true
				if s.between {
					vrt.Close(writerDone)
				}
			})
		}
		for {
			vrt.Idle()
			if !clientIdle {
				break
			}
			// the patient client is waiting and nothing else can run: time passes
			clientIdle = false
			for vrt.FireAny() {
				vrt.Idle()
			}
			vrt.Send(idleC, struct{}{})
		}
		out.Obs = fmt.Sprintf("%v|%s", st.status, renderLog(st.log))
		out.Nontrivial = len(st.log) > 1
		if !vrt.AllDone() || !st.returned || !wdone {
			viol(&out, "rpc-did-not-end", "%s: the RPC did not end by itself (returned=%v): %v; log: %s", s, st.returned, vrt.ParkedInfo(), renderLog(st.log))
			st.cancel()
			vrt.Idle()
			return
		}
		want, illegal := s.want()
		if illegal {
			if st.status == nil || len(st.log) != 0 {
				viol(&out, "illegal-origin-accepted", "%s: conflicting origins must be rejected; status=%v log=%s", s, st.status, renderLog(st.log))
			}
			return
		}
		if st.status != nil {
			viol(&out, "status", "%s ended with %v (code %v); log: %s", s, st.status, status.Code(st.status), renderLog(st.log))
			return
		}
		rounds := 1
		if s.mode == pb.SubscriptionList_POLL {
			rounds = s.polls + 1
		}
		if len(st.syncSeen) != rounds {
			viol(&out, "sync-count", "%s: %d sync responses, expected %d; log: %s", s, len(st.syncSeen), rounds, renderLog(st.log))
			return
		}
		if st.syncSeen[rounds-1] != len(st.log)-1 {
			viol(&out, "responses-after-sync", "%s: responses after the last sync; log: %s", s, renderLog(st.log))
		}
		start := 0
		for r := 0; r < rounds; r++ {
			got := map[string]string{}
			for _, resp := range st.log[start:st.syncSeen[r]] {
				n := resp.GetUpdate()
				if n != nil && n.Atomic && len(n.Update) == 2 {
					// the atomic container arrives as one unit at its prefix
					got[n.GetPrefix().GetTarget()+"|"+strings.Join(fullIndex(n.Prefix, nil), "/")] = fmt.Sprint(n.Update[0].GetVal().GetIntVal())
					continue
				}
				if n == nil || len(n.Update) != 1 {
					viol(&out, "response-shape", "%s: unexpected response %v", s, resp)
					continue
				}
				k := n.GetPrefix().GetTarget() + "|" + strings.Join(fullIndex(n.Prefix, n.Update[0].Path), "/")
				// a leaf matched by two paths may legitimately be delivered twice
				// ("at least once"); the snapshot is compared as a set
				got[k] = valOf(n)
			}
			start = st.syncSeen[r] + 1
			if s.between {
				if r == 0 {
					continue // taken before the writer started: covered by the writer-less configurations
				}
				now := map[string]string{}
				for _, p := range s.paths {
					for k, v := range w.expected(subSpec{target: s.target, origin: s.pOrigin, paths: []string{p}}) {
						if strings.HasPrefix(v, "atomic{m=") { // rendered here by its first member, as in got
							v = v[len("atomic{m="):strings.Index(v, ",")]
						}
						now[k] = v
					}
				}
				if renderMap(got) != renderMap(now) {
					viol(&out, "poll-not-current", "%s: the poll issued after the writer had finished returned\n  %s\nthe target holds\n  %s", s, renderMap(got), renderMap(now))
				}
				continue
			}
			if len(s.writer) == 0 {
				wm := map[string]string{}
				for k, v := range want {
					wm[k] = fmt.Sprint(v)
				}
				if renderMap(got) != renderMap(wm) {
					viol(&out, "snapshot", "%s round %d returned\n  %s\nthe matching set is\n  %s", s, r, renderMap(got), renderMap(wm))
				}
				continue
			}
			// with a concurrent writer: every leaf matching for the whole call at
			// least once with a value it held; nothing that never matched
			for k, v := range got {
				if !w.held[k][v] {
					viol(&out, "value-never-held", "%s: received %s=%s which that leaf never held (%v)", s, k, v, w.held[k])
				}
			}
			for k := range want {
				p := k[strings.Index(k, "|")+1:]
				if !touched([]writer{{"t1", s.writer}}, "t1", p) || !strings.HasPrefix(k, "t1|") {
					if _, ok := got[k]; !ok {
						viol(&out, "snapshot-incomplete", "%s round %d: leaf %s matched for the whole call but was not returned; log: %s", s, r, k, renderLog(st.log))
					}
				}
			}
		}
		_ = codes.OK
	})
	if res.Aborted != "" {
		viol(&out, hutil.AbortClass(res.Aborted, res.Panic), "%s %s", res.Aborted, strings.Join(res.Parked, "; "))
	}
	return out, res
}
