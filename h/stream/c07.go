package main

import (
	"context"
	"errors"
	"fmt"
	"strings"

	"google.golang.org/grpc/codes"
	"google.golang.org/grpc/status"

	pb "github.com/openconfig/gnmi/proto/gnmi"
	"github.com/openconfig/gnmi/subscribe"
	"github.com/openconfig/gnmi/zzverif/hutil"
	"github.com/openconfig/gnmi/zzverif/vrt"
	"github.com/openconfig/gnmi/zzverif/xplore"
)

// C07 — subscribers never receive data for targets their ACL denies.

type acl struct {
	allowed map[string]bool
	fail    bool
}

type rpcACL struct{ a *acl }

// Check is a scheduling point: an ACL lookup takes time (it may be a call to a
// backend), and targets are updated from one goroutine each.
func (r rpcACL) Check(target string) bool { vrt.Yield(); return r.a.allowed[target] }

func (a *acl) NewRPCACL(ctx context.Context) (subscribe.RPCACL, error) {
	if a.fail {
		return nil, errors.New("no credentials")
	}
	return rpcACL{a}, nil
}
func (a *acl) Check(user, target string) bool { return a.allowed[target] }

type cfg07 struct {
	allowT1, allowT2, fail bool
	sub                    subSpec
	writers                []writer
}

func configs07(tier string) []xplore.Config {
	var out []xplore.Config
	bound := 2
	if tier == "thorough" {
		bound = 3
	}
	modes := []struct {
		m  pb.SubscriptionList_Mode
		uo bool
		p  int
	}{{pb.SubscriptionList_ONCE, false, 0}, {pb.SubscriptionList_POLL, false, 1}, {pb.SubscriptionList_STREAM, false, 0}, {pb.SubscriptionList_STREAM, true, 0}}
	wscripts := [][]writer{
		{{"t1", []wop{{"upd", "a/b"}}}, {"t2", []wop{{"upd", "a/b"}}}},
		{{"t1", []wop{{"del", "a/b"}}}, {"t2", []wop{{"del", "a"}}}},
		{{"t1", []wop{{"upd", "a/c"}}}, {"t2", []wop{{"remove", ""}}}},
		{{"t1", []wop{{"remove", ""}}}, {"t2", []wop{{"upd", "a/b"}, {"upd", "a/b"}}}},
		// a target that joins the collector AFTER the subscription was made (t3 is
		// always authorised): an all-targets subscription covers it from then on
		{{"t3", []wop{{"add", ""}, {"upd", "a/b"}, {"upd", "a/c"}}}, {"t1", []wop{{"upd", "a/b"}}}},
	}
	for _, a1 := range []bool{false, true} {
		for _, a2 := range []bool{false, true} {
			for _, fail := range []bool{false, true} {
				for _, md := range modes {
					for _, tg := range []string{"t1", "t2", "*"} {
						sp := subSpec{target: tg, paths: []string{"*"}, mode: md.m, updatesOnly: md.uo, polls: md.p, user: "u"}
						ws := [][]writer{nil}
						if md.m == pb.SubscriptionList_STREAM && !fail {
							ws = wscripts
						}
						for wi, w := range ws {
							if wi == 4 && tg != "*" {
								continue // the late-joining target only concerns all-targets subscriptions
							}
							out = append(out, xplore.Config{Name: fmt.Sprintf("acl{t1:%v t2:%v newRPCACLfails:%v} %s writers#%d", a1, a2, fail, sp, wi), Bound: bound,
								Data: cfg07{a1, a2, fail, sp, w}})
						}
					}
				}
			}
		}
	}
	// OVERLAPPING subscription paths (a and *, * and a/b): a leaf matched by two
	// paths enters the subscriber's queue twice during the initial walk and is
	// coalesced - authorisation is per response all the same
	for _, a1 := range []bool{false, true} {
		for _, ps := range [][]string{{"a", "*"}, {"*", "a/b"}, {"a", "a"}} {
			for _, uo := range []bool{false, true} {
				sp := subSpec{target: "*", paths: ps, mode: pb.SubscriptionList_STREAM, updatesOnly: uo, user: "u"}
				out = append(out, xplore.Config{Name: fmt.Sprintf("acl{t1:%v t2:%v} %s (overlapping paths) writers#0", a1, !a1, sp), Bound: bound,
					Data: cfg07{a1, !a1, false, sp, wscripts[0]}})
			}
		}
	}
	// authorisation cannot be established AND the request is not a well-formed
	// subscription for a known target: still Unauthenticated (nothing about the
	// request, not even whether the target exists, is revealed to a caller
	// without credentials)
	for _, md := range modes[:3] {
		for _, tg := range []string{"t9", ""} {
			sp := subSpec{target: tg, paths: []string{"*"}, mode: md.m, polls: md.p, user: "u"}
			out = append(out, xplore.Config{Name: fmt.Sprintf("acl{newRPCACLfails:true} %s (unknown or missing target)", sp), Bound: bound,
				Data: cfg07{true, true, true, sp, nil}})
		}
	}
	// two callers with different identities whose calls overlap (both arrive
	// from the same peer address: a proxy, a NAT, one client process acting for
	// several users): the per-call ACL is a function of the CALL's credentials
	for _, first := range []string{"admin", "guest"} {
		for _, second := range []string{"admin", "guest", ""} {
			if first == second {
				continue
			}
			for _, md := range []pb.SubscriptionList_Mode{pb.SubscriptionList_ONCE, pb.SubscriptionList_STREAM} {
				for _, tg := range []string{"t1", "*"} {
					d := cfg07two{first: first, second: subSpec{target: tg, paths: []string{"*"}, mode: md, user: second}}
					out = append(out, xplore.Config{Name: fmt.Sprintf("two callers: %s holds a STREAM on *; then %q calls %s; t1 is denied to guest; W(t1)=upd a/b W(t2)=upd a/b", first, second, d.second), Bound: bound - 1, Data: d})
				}
			}
		}
	}
	// many targets: an all-targets STREAM on a collector with six targets of which
	// one is denied (each position in turn), every target holding two leaves and
	// updated twice by one writer, round-robin and target by target: whatever an
	// implementation remembers about earlier verdicts, it holds for six targets
	for denied := 1; denied <= 6; denied++ {
		for _, order := range []string{"round-robin", "target by target"} {
			out = append(out, xplore.Config{Name: fmt.Sprintf("six targets, t%d denied, stream *:[*], one writer updating every target twice %s", denied, order), Bound: bound - 1, Data: cfg07many{denied: denied, order: order}})
		}
	}
	return out
}

type cfg07many struct {
	denied int
	order  string
}

func run07many(cfg xplore.Config, ch vrt.Chooser, trace bool) (xplore.Outcome, *vrt.Result) {
	d := cfg.Data.(cfg07many)
	var out xplore.Outcome
	res := vrt.Run(ch, vrt.Options{Reverse: cfg.Reverse, Trace: trace}, func() {
		names := []string{"t1", "t2", "t3", "t4", "t5", "t6"}
		allowed := map[string]bool{}
		for i, n := range names {
			allowed[n] = i+1 != d.denied
		}
		a := &acl{allowed: allowed}
		w := newWorld(names, subscribe.WithACL(a))
		for _, t := range names {
			for _, p := range []string{"a/b", "a/c"} {
				w.noteHeld(t, p, 1)
				w.c.GnmiUpdate(&pb.Notification{Timestamp: 1, Prefix: &pb.Path{Target: t}, Update: []*pb.Update{{Path: mkPath(p), Val: ival(1)}}})
			}
		}
		sp := subSpec{target: "*", paths: []string{"*"}, mode: pb.SubscriptionList_STREAM, user: "u"}
		st := newStream(sp)
		w.streams = []*fstream{st}
		vrt.GoNamed("rpc", func() {
			st.status = w.srv.Subscribe(st)
			st.returned = true
			st.cancel()
		})
		done := false
		vrt.GoNamed("writer", func() {
			if d.order == "round-robin" {
				for r := 0; r < 2; r++ {
					for _, t := range names {
						w.apply(t, wop{"upd", "a/b"})
					}
				}
			} else {
				for _, t := range names {
					w.apply(t, wop{"upd", "a/b"})
					w.apply(t, wop{"upd", "a/c"})
				}
			}
			done = true
		})
		settle()
		out.Obs = fmt.Sprintf("%v|%s", status.Code(st.status), renderLog(st.log))
		out.Nontrivial = true
		if !done {
			viol(&out, "writer-blocked", "the writer never finished: %v", vrt.ParkedInfo())
		}
		for _, r := range st.log {
			if n := r.GetUpdate(); n != nil {
				if t := n.GetPrefix().GetTarget(); !allowed[t] {
					viol(&out, "denied-target-data-sent", "%s: a response for denied target %q was sent: %s", cfg.Name, t, renderLog([]*pb.SubscribeResponse{r}))
					break
				}
			}
		}
		if st.returned {
			viol(&out, "stream-ended", "%s: stream ended with %v", cfg.Name, st.status)
		} else {
			want := w.expected(sp)
			for k := range want {
				if !allowed[k[:strings.Index(k, "|")]] {
					delete(want, k)
				}
			}
			rep, _ := replay(st.log)
			if renderMap(rep) != renderMap(want) {
				viol(&out, "authorised-data-missing", "%s: replaying the responses yields\n  %s\nauthorised matching content is\n  %s", cfg.Name, renderMap(rep), renderMap(want))
			}
		}
		st.cancel()
		vrt.Idle()
		if !vrt.AllDone() {
			viol(&out, "deadlock", "threads never finished after cancel: %v", vrt.ParkedInfo())
		}
	})
	if res.Aborted != "" {
		viol(&out, hutil.AbortClass(res.Aborted, res.Panic), "%s %s", res.Aborted, strings.Join(res.Parked, "; "))
	}
	return out, res
}

type cfg07two struct {
	first  string
	second subSpec
}

// idACL: the per-call ACL is built from the identity in the call's context.
type idACL struct{}

func (idACL) NewRPCACL(ctx context.Context) (subscribe.RPCACL, error) {
	u, _ := ctx.Value(userKey{}).(string)
	switch u {
	case "admin":
		return rpcACL{&acl{allowed: map[string]bool{"t1": true, "t2": true}}}, nil
	case "guest":
		return rpcACL{&acl{allowed: map[string]bool{"t2": true}}}, nil
	}
	return nil, errors.New("no credentials")
}
func (idACL) Check(user, target string) bool { return user == "admin" || target == "t2" }

func run07two(cfg xplore.Config, ch vrt.Chooser, trace bool) (xplore.Outcome, *vrt.Result) {
	d := cfg.Data.(cfg07two)
	var out xplore.Outcome
	res := vrt.Run(ch, vrt.Options{Reverse: cfg.Reverse, Trace: trace}, func() {
		w := newWorld([]string{"t1", "t2"}, subscribe.WithACL(idACL{}))
		setupInitial(w)
		allowed := func(user, t string) bool { return user == "admin" || (user == "guest" && t == "t2") }
		stA := newStream(subSpec{target: "*", paths: []string{"*"}, mode: pb.SubscriptionList_STREAM, user: d.first})
		stB := newStream(d.second)
		w.streams = []*fstream{stA, stB}
		aSync := make(chan struct{}, 8)
		stA.onSync = func() { vrt.Send(aSync, struct{}{}) }
		vrt.GoNamed("rpc-first", func() {
			stA.status = w.srv.Subscribe(stA)
			stA.returned = true
			stA.cancel()
		})
		vrt.GoNamed("rpc-second", func() {
			// the second call starts once the first has its snapshot
			switch vrt.Select(false, vrt.R(aSync), vrt.R(stA.ctx.Done())) {
			case 0:
				vrt.RecvNow(aSync)
			}
			stB.status = w.srv.Subscribe(stB)
			stB.returned = true
			stB.cancel()
		})
		w.wdone = make([]bool, 2)
		for i, t := range []string{"t1", "t2"} {
			i, t := i, t
			vrt.GoNamed("writer-"+t, func() {
				w.apply(t, wop{"upd", "a/b"})
				w.wdone[i] = true
			})
		}
		settle()
		out.Obs = fmt.Sprintf("A %v|%s || B %v|%s", status.Code(stA.status), renderLog(stA.log), status.Code(stB.status), renderLog(stB.log))
		out.Nontrivial = true
		for _, x := range []struct {
			st   *fstream
			user string
		}{{stA, d.first}, {stB, d.second.user}} {
			for _, r := range x.st.log {
				if n := r.GetUpdate(); n != nil {
					if t := n.GetPrefix().GetTarget(); !allowed(x.user, t) {
						viol(&out, "denied-target-data-sent", "%s: caller %q was sent a response for target %q, which its credentials deny: %s", cfg.Name, x.user, t, renderLog([]*pb.SubscribeResponse{r}))
					}
				}
			}
		}
		if stA.returned {
			viol(&out, "stream-ended", "%s: the first caller's stream ended with %v", cfg.Name, stA.status)
		}
		switch {
		case d.second.user == "":
			if status.Code(stB.status) != codes.Unauthenticated || len(stB.log) != 0 || !stB.returned {
				viol(&out, "unauthenticated-expected", "%s: the second call carries no credentials but ended=%v with %v after %d responses", cfg.Name, stB.returned, stB.status, len(stB.log))
			}
		case d.second.target != "*" && !allowed(d.second.user, d.second.target):
			if status.Code(stB.status) != codes.PermissionDenied || len(stB.log) != 0 || !stB.returned {
				viol(&out, "permission-denied-expected", "%s: the second caller asked for a target its credentials deny but the call ended=%v with %v after %d responses", cfg.Name, stB.returned, stB.status, len(stB.log))
			}
		default:
			// completeness: what its own credentials allow, it gets
			if stB.returned && stB.status != nil {
				viol(&out, "status", "%s: the second call ended with %v", cfg.Name, stB.status)
				break
			}
			want := w.expected(d.second)
			for k := range want {
				if !allowed(d.second.user, k[:strings.Index(k, "|")]) {
					delete(want, k)
				}
			}
			if d.second.mode == pb.SubscriptionList_STREAM {
				rep, _ := replay(stB.log)
				if renderMap(rep) != renderMap(want) {
					viol(&out, "authorised-data-missing", "%s: replaying the second caller's responses yields\n  %s\nits authorised matching content is\n  %s", cfg.Name, renderMap(rep), renderMap(want))
				}
			} else {
				seen := map[string]bool{}
				for _, r := range stB.log {
					if n := r.GetUpdate(); n != nil {
						seen[n.GetPrefix().GetTarget()] = true
					}
				}
				for k := range want {
					if t := k[:strings.Index(k, "|")]; !seen[t] {
						viol(&out, "authorised-data-missing", "%s: the second caller's snapshot has nothing for target %s, which its credentials allow", cfg.Name, t)
						break
					}
				}
			}
		}
		stA.cancel()
		stB.cancel()
		vrt.Idle()
		if !vrt.AllDone() {
			viol(&out, "deadlock", "threads never finished after cancel: %v", vrt.ParkedInfo())
		}
	})
	if res.Aborted != "" {
		viol(&out, hutil.AbortClass(res.Aborted, res.Panic), "%s %s", res.Aborted, strings.Join(res.Parked, "; "))
	}
	return out, res
}

func run07(cfg xplore.Config, ch vrt.Chooser, trace bool) (xplore.Outcome, *vrt.Result) {
	if _, ok := cfg.Data.(cfg07two); ok {
		return run07two(cfg, ch, trace)
	}
	if _, ok := cfg.Data.(cfg07many); ok {
		return run07many(cfg, ch, trace)
	}
	d := cfg.Data.(cfg07)
	var out xplore.Outcome
	res := vrt.Run(ch, vrt.Options{Reverse: cfg.Reverse, Trace: trace}, func() {
		a := &acl{allowed: map[string]bool{"t1": d.allowT1, "t2": d.allowT2, "t3": true}, fail: d.fail}
		w := newWorld([]string{"t1", "t2"}, subscribe.WithACL(a))
		setupInitial(w)
		st := newStream(d.sub)
		syncC := make(chan struct{}, 8)
		st.onSync = func() { vrt.Send(syncC, struct{}{}) }
		w.streams = []*fstream{st}
		vrt.GoNamed("rpc", func() {
			st.status = w.srv.Subscribe(st)
			st.returned = true
			st.cancel()
		})
		if d.sub.mode == pb.SubscriptionList_POLL {
			vrt.GoNamed("client", func() {
				for i := 0; i < d.sub.polls; i++ {
					switch vrt.Select(false, vrt.R(syncC), vrt.R(st.ctx.Done())) {
					case 0:
						vrt.RecvNow(syncC)
						vrt.Send(st.pollC, struct{}{})
					default:
						return
					}
				}
				switch vrt.Select(false, vrt.R(syncC), vrt.R(st.ctx.Done())) {
				case 0:
					vrt.RecvNow(syncC)
				}
				vrt.Close(st.pollC)
			})
		}
		w.wdone = make([]bool, len(d.writers))
		for i, wr := range d.writers {
			i, wr := i, wr
			vrt.GoNamed("writer-"+wr.target, func() {
				for _, o := range wr.script {
					w.apply(wr.target, o)
				}
				w.wdone[i] = true
			})
		}
		settle()
		out.Obs = fmt.Sprintf("%v|%s", status.Code(st.status), renderLog(st.log))
		out.Nontrivial = true
		for i, ok := range w.wdone {
			if !ok {
				viol(&out, "writer-blocked", "writer %d never finished: %v", i, vrt.ParkedInfo())
			}
		}
		// safety: nothing for a denied target was ever sent
		for _, r := range st.log {
			if n := r.GetUpdate(); n != nil {
				if t := n.GetPrefix().GetTarget(); !a.allowed[t] {
					viol(&out, "denied-target-data-sent", "%s: a response for denied target %q was sent: %s", cfg.Name, t, renderLog([]*pb.SubscribeResponse{r}))
				}
			}
		}
		removedOwn := false
		for _, wr := range d.writers {
			for _, o := range wr.script {
				if o.kind == "remove" && wr.target == d.sub.target {
					removedOwn = true
				}
			}
		}
		notFound := removedOwn && status.Code(st.status) == codes.NotFound && len(st.log) == 0 && st.returned
		switch {
		case d.fail:
			if status.Code(st.status) != codes.Unauthenticated || len(st.log) != 0 || !st.returned {
				viol(&out, "unauthenticated-expected", "%s: per-call ACL could not be created but the call ended with %v after %d responses", cfg.Name, st.status, len(st.log))
			}
		case d.sub.target != "*" && !a.allowed[d.sub.target]:
			if notFound {
				break // the target was removed before the call started: unknown target, no data
			}
			if status.Code(st.status) != codes.PermissionDenied || len(st.log) != 0 || !st.returned {
				viol(&out, "permission-denied-expected", "%s: single denied target but the call ended with %v after %d responses", cfg.Name, st.status, len(st.log))
			}
		default:
			// completeness for authorised targets
			want := w.expected(d.sub)
			for k := range want {
				if !a.allowed[k[:strings.Index(k, "|")]] {
					delete(want, k)
				}
			}
			switch d.sub.mode {
			case pb.SubscriptionList_STREAM:
				if removedOwn {
					break // how a stream on a removed target ends is C14's business
				}
				if st.returned {
					viol(&out, "stream-ended", "%s: stream ended with %v; log: %s", cfg.Name, st.status, renderLog(st.log))
					break
				}
				if len(st.syncSeen) != 1 {
					viol(&out, "sync-count", "%s: %d syncs; log: %s", cfg.Name, len(st.syncSeen), renderLog(st.log))
				}
				rep, _ := replay(st.log)
				if d.sub.updatesOnly {
					for k, v := range rep {
						if want[k] != v {
							viol(&out, "not-converged", "%s: client holds %s=%s, cache %q; log: %s", cfg.Name, k, v, want[k], renderLog(st.log))
						}
					}
				} else if renderMap(rep) != renderMap(want) {
					viol(&out, "authorised-data-missing", "%s: replaying the responses yields\n  %s\nauthorised matching content is\n  %s\nlog: %s", cfg.Name, renderMap(rep), renderMap(want), renderLog(st.log))
				}
			default:
				if !st.returned || st.status != nil {
					viol(&out, "status", "%s ended=%v with %v", cfg.Name, st.returned, st.status)
					break
				}
				rounds := d.sub.polls + 1
				if len(st.syncSeen) != rounds {
					viol(&out, "sync-count", "%s: %d syncs, expected %d", cfg.Name, len(st.syncSeen), rounds)
					break
				}
				got := map[string]string{}
				for _, r := range st.log[:st.syncSeen[0]] {
					if n := r.GetUpdate(); n != nil && len(n.Update) == 1 {
						got[n.GetPrefix().GetTarget()+"|"+strings.Join(fullIndex(n.Prefix, n.Update[0].Path), "/")] = valOf(n)
					}
				}
				if renderMap(got) != renderMap(want) {
					viol(&out, "authorised-data-missing", "%s: snapshot\n  %s\nauthorised matching content\n  %s", cfg.Name, renderMap(got), renderMap(want))
				}
			}
		}
		st.cancel()
		vrt.Idle()
		if !vrt.AllDone() {
			viol(&out, "deadlock", "threads never finished after cancel: %v", vrt.ParkedInfo())
		}
	})
	if res.Aborted != "" {
		viol(&out, hutil.AbortClass(res.Aborted, res.Panic), "%s %s", res.Aborted, strings.Join(res.Parked, "; "))
	}
	return out, res
}
