package main

import (
	"context"
	"errors"
	"fmt"
	"strings"

	"google.golang.org/grpc/codes"
	"google.golang.org/grpc/status"

	pb "github.com/openconfig/gnmi/proto/gnmi"
	"github.com/openconfig/gnmi/subscribe"
	"github.com/openconfig/gnmi/zzverif/hutil"
	"github.com/openconfig/gnmi/zzverif/vrt"
	"github.com/openconfig/gnmi/zzverif/xplore"
)

// C07 — subscribers never receive data for targets their ACL denies.

type acl struct {
	allowed map[string]bool
	fail    bool
}

type rpcACL struct{ a *acl }

// Check is a scheduling point: an ACL lookup takes time (it may be a call to a
// backend), and targets are updated from one goroutine each.
func (r rpcACL) Check(target string) bool { vrt.Yield(); return r.a.allowed[target] }

func (a *acl) NewRPCACL(ctx context.Context) (subscribe.RPCACL, error) {
	if a.fail {
		return nil, errors.New("no credentials")
	}
	return rpcACL{a}, nil
}
func (a *acl) Check(user, target string) bool { return a.allowed[target] }

type cfg07 struct {
	allowT1, allowT2, fail bool
	sub                    subSpec
	writers                []writer
}

func configs07(tier string) []xplore.Config {
	var out []xplore.Config
	bound := 2
	if tier == "thorough" {
		bound = 3
	}
	modes := []struct {
		m  pb.SubscriptionList_Mode
		uo bool
		p  int
	}{{pb.SubscriptionList_ONCE, false, 0}, {pb.SubscriptionList_POLL, false, 1}, {pb.SubscriptionList_STREAM, false, 0}, {pb.SubscriptionList_STREAM, true, 0}}
	wscripts := [][]writer{
		{{"t1", []wop{{"upd", "a/b"}}}, {"t2", []wop{{"upd", "a/b"}}}},
		{{"t1", []wop{{"del", "a/b"}}}, {"t2", []wop{{"del", "a"}}}},
		{{"t1", []wop{{"upd", "a/c"}}}, {"t2", []wop{{"remove", ""}}}},
		{{"t1", []wop{{"remove", ""}}}, {"t2", []wop{{"upd", "a/b"}, {"upd", "a/b"}}}},
		// a target that joins the collector AFTER the subscription was made (t3 is
		// always authorised): an all-targets subscription covers it from then on
		{{"t3", []wop{{"add", ""}, {"upd", "a/b"}, {"upd", "a/c"}}}, {"t1", []wop{{"upd", "a/b"}}}},
	}
	for _, a1 := range []bool{false, true} {
		for _, a2 := range []bool{false, true} {
			for _, fail := range []bool{false, true} {
				for _, md := range modes {
					for _, tg := range []string{"t1", "t2", "*"} {
						sp := subSpec{target: tg, paths: []string{"*"}, mode: md.m, updatesOnly: md.uo, polls: md.p, user: "u"}
						ws := [][]writer{nil}
						if md.m == pb.SubscriptionList_STREAM && !fail {
							ws = wscripts
						}
						for wi, w := range ws {
							if wi == 4 && tg != "*" {
								continue // the late-joining target only concerns all-targets subscriptions
							}
							out = append(out, xplore.Config{Name: fmt.Sprintf("acl{t1:%v t2:%v newRPCACLfails:%v} %s writers#%d", a1, a2, fail, sp, wi), Bound: bound,
								Data: cfg07{a1, a2, fail, sp, w}})
						}
					}
				}
			}
		}
	}
	// authorisation cannot be established AND the request is not a well-formed
	// subscription for a known target: still Unauthenticated (nothing about the
	// request, not even whether the target exists, is revealed to a caller
	// without credentials)
	for _, md := range modes[:3] {
		for _, tg := range []string{"t9", ""} {
			sp := subSpec{target: tg, paths: []string{"*"}, mode: md.m, polls: md.p, user: "u"}
			out = append(out, xplore.Config{Name: fmt.Sprintf("acl{newRPCACLfails:true} %s (unknown or missing target)", sp), Bound: bound,
				Data: cfg07{true, true, true, sp, nil}})
		}
	}
	return out
}

func run07(cfg xplore.Config, ch vrt.Chooser, trace bool) (xplore.Outcome, *vrt.Result) {
	d := cfg.Data.(cfg07)
	var out xplore.Outcome
	res := vrt.Run(ch, vrt.Options{Reverse: cfg.Reverse, Trace: trace}, func() {
		a := &acl{allowed: map[string]bool{"t1": d.allowT1, "t2": d.allowT2, "t3": true}, fail: d.fail}
		w := newWorld([]string{"t1", "t2"}, subscribe.WithACL(a))
		setupInitial(w)
		st := newStream(d.sub)
		syncC := make(chan struct{}, 8)
		st.onSync = func() { vrt.Send(syncC, struct{}{}) }
		w.streams = []*fstream{st}
		vrt.GoNamed("rpc", func() {
			st.status = w.srv.Subscribe(st)
			st.returned = true
			st.cancel()
		})
		if d.sub.mode == pb.SubscriptionList_POLL {
			vrt.GoNamed("client", func() {
				for i := 0; i < d.sub.polls; i++ {
					switch vrt.Select(false, vrt.R(syncC), vrt.R(st.ctx.Done())) {
					case 0:
						vrt.RecvNow(syncC)
						vrt.Send(st.pollC, struct{}{})
					default:
						return
					}
				}
				switch vrt.Select(false, vrt.R(syncC), vrt.R(st.ctx.Done())) {
				case 0:
					vrt.RecvNow(syncC)
				}
				vrt.Close(st.pollC)
			})
		}
		w.wdone = make([]bool, len(d.writers))
		for i, wr := range d.writers {
			i, wr := i, wr
			vrt.GoNamed("writer-"+wr.target, func() {
				for _, o := range wr.script {
					w.apply(wr.target, o)
				}
				w.wdone[i] = true
			})
		}
		settle()
		out.Obs = fmt.Sprintf("%v|%s", status.Code(st.status), renderLog(st.log))
		out.Nontrivial = true
		for i, ok := range w.wdone {
			if !ok {
				viol(&out, "writer-blocked", "writer %d never finished: %v", i, vrt.ParkedInfo())
			}
		}
		// safety: nothing for a denied target was ever sent
		for _, r := range st.log {
			if n := r.GetUpdate(); n != nil {
				if t := n.GetPrefix().GetTarget(); !a.allowed[t] {
					viol(&out, "denied-target-data-sent", "%s: a response for denied target %q was sent: %s", cfg.Name, t, renderLog([]*pb.SubscribeResponse{r}))
				}
			}
		}
		removedOwn := false
		for _, wr := range d.writers {
			for _, o := range wr.script {
				if o.kind == "remove" && wr.target == d.sub.target {
					removedOwn = true
				}
			}
		}
		notFound := removedOwn && status.Code(st.status) == codes.NotFound && len(st.log) == 0 && st.returned
		switch {
		case d.fail:
			if status.Code(st.status) != codes.Unauthenticated || len(st.log) != 0 || !st.returned {
				viol(&out, "unauthenticated-expected", "%s: per-call ACL could not be created but the call ended with %v after %d responses", cfg.Name, st.status, len(st.log))
			}
		case d.sub.target != "*" && !a.allowed[d.sub.target]:
			if notFound {
				break // the target was removed before the call started: unknown target, no data
			}
			if status.Code(st.status) != codes.PermissionDenied || len(st.log) != 0 || !st.returned {
				viol(&out, "permission-denied-expected", "%s: single denied target but the call ended with %v after %d responses", cfg.Name, st.status, len(st.log))
			}
		default:
			// completeness for authorised targets
			want := w.expected(d.sub)
			for k := range want {
				if !a.allowed[k[:strings.Index(k, "|")]] {
					delete(want, k)
				}
			}
			switch d.sub.mode {
			case pb.SubscriptionList_STREAM:
				if removedOwn {
					break // how a stream on a removed target ends is C14's business
				}
				if st.returned {
					viol(&out, "stream-ended", "%s: stream ended with %v; log: %s", cfg.Name, st.status, renderLog(st.log))
					break
				}
				if len(st.syncSeen) != 1 {
					viol(&out, "sync-count", "%s: %d syncs; log: %s", cfg.Name, len(st.syncSeen), renderLog(st.log))
				}
				rep, _ := replay(st.log)
				if d.sub.updatesOnly {
					for k, v := range rep {
						if want[k] != v {
							viol(&out, "not-converged", "%s: client holds %s=%s, cache %q; log: %s", cfg.Name, k, v, want[k], renderLog(st.log))
						}
					}
				} else if renderMap(rep) != renderMap(want) {
					viol(&out, "authorised-data-missing", "%s: replaying the responses yields\n  %s\nauthorised matching content is\n  %s\nlog: %s", cfg.Name, renderMap(rep), renderMap(want), renderLog(st.log))
				}
			default:
				if !st.returned || st.status != nil {
					viol(&out, "status", "%s ended=%v with %v", cfg.Name, st.returned, st.status)
					break
				}
				rounds := d.sub.polls + 1
				if len(st.syncSeen) != rounds {
					viol(&out, "sync-count", "%s: %d syncs, expected %d", cfg.Name, len(st.syncSeen), rounds)
					break
				}
				got := map[string]string{}
				for _, r := range st.log[:st.syncSeen[0]] {
					if n := r.GetUpdate(); n != nil && len(n.Update) == 1 {
						got[n.GetPrefix().GetTarget()+"|"+strings.Join(fullIndex(n.Prefix, n.Update[0].Path), "/")] = valOf(n)
					}
				}
				if renderMap(got) != renderMap(want) {
					viol(&out, "authorised-data-missing", "%s: snapshot\n  %s\nauthorised matching content\n  %s", cfg.Name, renderMap(got), renderMap(want))
				}
			}
		}
		st.cancel()
		vrt.Idle()
		if !vrt.AllDone() {
			viol(&out, "deadlock", "threads never finished after cancel: %v", vrt.ParkedInfo())
		}
	})
	if res.Aborted != "" {
		viol(&out, hutil.AbortClass(res.Aborted, res.Panic), "%s %s", res.Aborted, strings.Join(res.Parked, "; "))
	}
	return out, res
}
