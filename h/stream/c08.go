package main

import (
	"fmt"
	"strings"

	pb "github.com/openconfig/gnmi/proto/gnmi"
	"github.com/openconfig/gnmi/subscribe"
	"github.com/openconfig/gnmi/zzverif/hutil"
	"github.com/openconfig/gnmi/zzverif/vrt"
	"github.com/openconfig/gnmi/zzverif/xplore"
)

// C08 — a stalled subscriber cannot stall the collector or other subscribers.

type cfg08 struct {
	stall       string // never, transient, permanent, slow (every send takes 25 s of virtual time)
	updatesOnly bool
	script      []wop
	stats       bool
	// acl: subscriber A is an all-targets subscriber that is denied t2, the
	// writer updates t2 (every response for it is dropped), then everybody idles
	acl bool
	// amode: subscription mode of the stalled subscriber A (default STREAM)
	amode pb.SubscriptionList_Mode
	// late: a third subscriber starts (initial walk) while the writer is writing
	late bool
	// feeds2: a second feed goroutine (target t2's update stream) runs this
	// script at the same time as the first: the subscribers are all-targets
	// subscribers, so two goroutines insert into each queue at once
	feeds2 []wop
	// pollsStalled: subscriber A (POLL mode) keeps sending this many poll
	// triggers while its sends are stalled
	pollsStalled int
	// aPaths: subscriber A's paths (default [a], the same as B's): [a/b] puts the
	// stalled subscriber strictly BELOW the healthy one's path
	aPaths []string
}

func configs08(tier string) []xplore.Config {
	var out []xplore.Config
	scripts := [][]wop{
		{{"upd", "a/b"}, {"upd", "a/c"}, {"upd", "a/b"}, {"del", "a/c"}},
		{{"upd", "a/b"}, {"upd", "a/b"}, {"upd", "a/b"}},
		{{"upd", "a/c"}, {"del", "a"}, {"upd", "a/b"}},
		// a leaf CREATED while the subscriber is stalled and updated again before
		// the creation was dequeued: still one pending entry, newest value
		{{"upd", "a/c"}, {"upd", "a/c"}, {"upd", "a/c"}},
		{{"upd", "a/c"}, {"upd", "a/b"}, {"upd", "a/c"}, {"upd", "a/d"}},
	}
	bound := 1
	if tier == "thorough" {
		bound = 2
		scripts = append(scripts, []wop{{"upd", "a/b"}, {"upd", "a/c"}, {"upd", "a/d"}, {"upd", "a/b"}, {"del", "a/c"}, {"upd", "a/d"}})
	}
	// leaf-set size: a permanently stalled subscriber and 1500 distinct pending
	// leaves (default schedule only; the point is that no capacity anywhere
	// between the feed and the stalled sender makes the writer wait)
	var many []wop
	for i := 0; i < 1500; i++ {
		many = append(many, wop{"upd", fmt.Sprintf("a/l%d", i)})
	}
	out = append(out, xplore.Config{Name: "A stall=permanent updates_only=true | B normal | W=1500 distinct leaves", Bound: 0, Data: cfg08{stall: "permanent", updatesOnly: true, script: many}})
	out = append(out, xplore.Config{Name: "A stall=never on * with an ACL denying t2 | B normal | W(t2)=upd a/b;upd a/b then idle", Bound: bound + 1, Data: cfg08{stall: "never", script: []wop{{"upd", "a/b"}, {"upd", "a/b"}}, acl: true}})
	// accepting an update never waits on a subscriber - not on one that is just
	// starting either (its initial walk reads the leaves being updated)
	for _, st := range []string{"never", "permanent"} {
		out = append(out, xplore.Config{Name: fmt.Sprintf("A stall=%s | B normal | C subscribes while W=upd a/b;upd a/b;upd a/b", st), Bound: bound + 1, Data: cfg08{stall: st, script: scripts[1], late: true}})
	}
	// the same with notifications that carry SEVERAL paths (atomic groups): the
	// feed matches every path of one notification against the subscriptions while
	// a subscriber registers (or a timed-out one is removed)
	for _, st := range []string{"never", "permanent"} {
		out = append(out, xplore.Config{Name: fmt.Sprintf("A stall=%s | B normal | C subscribes while W=atomic a/k;upd a/b;atomic a/k", st), Bound: bound + 1, Data: cfg08{stall: st, script: []wop{{"atomic", "a/k"}, {"upd", "a/b"}, {"atomic", "a/k"}}, late: true}})
	}
	// two targets streaming at once into all-targets subscribers (two feed
	// goroutines per queue): the healthy subscriber keeps receiving from both
	// while the other one is stalled
	for _, st := range []string{"never", "permanent"} {
		out = append(out, xplore.Config{Name: fmt.Sprintf("A(*) stall=%s | B(*) normal | W(t1)=upd a/b;upd a/c || W(t2)=upd a/b;upd a/c (two feeds)", st), Bound: bound, Data: cfg08{stall: st, script: []wop{{"upd", "a/b"}, {"upd", "a/c"}}, feeds2: []wop{{"upd", "a/b"}, {"upd", "a/c"}}}})
	}
	// a POLL subscriber that stops reading but keeps polling: every poll walks
	// the cache again, and whatever that adds to the backlog coalesces with
	// what is already pending - the markers included
	out = append(out, xplore.Config{Name: "A mode=POLL stall=permanent polling 3x while stalled | B normal | W=upd a/b;upd a/b;upd a/b", Bound: bound, Data: cfg08{stall: "permanent", script: scripts[1], amode: pb.SubscriptionList_POLL, pollsStalled: 3}})
	// a target that flaps: update, Reset, refill, Reset again while subscriber A
	// is stalled (and then released): what A ends up with is what the cache holds
	for _, st := range []string{"never", "transient"} {
		for _, sc := range [][]wop{{{"upd", "a/c"}, {"reset", ""}, {"upd", "a/c"}, {"reset", ""}}, {{"reset", ""}, {"upd", "a/b"}, {"reset", ""}, {"upd", "a/c"}}} {
			out = append(out, xplore.Config{Name: fmt.Sprintf("A stall=%s updates_only=false | B normal | W=%s (flapping target)", st, scriptName(sc)), Bound: bound, Data: cfg08{stall: st, script: sc}})
		}
	}
	// the stalled subscriber's path lies strictly below the healthy one's
	for _, uo := range []bool{false, true} {
		out = append(out, xplore.Config{Name: fmt.Sprintf("A on t1:[a/b] stall=permanent updates_only=%v | B on t1:[a] normal | W=upd a/b;upd a/b;upd a/b", uo), Bound: bound, Data: cfg08{stall: "permanent", updatesOnly: uo, script: scripts[1], aPaths: []string{"a/b"}}})
	}
	// the send time-out ends a stalled subscription in every mode
	for _, md := range []pb.SubscriptionList_Mode{pb.SubscriptionList_ONCE, pb.SubscriptionList_POLL} {
		out = append(out, xplore.Config{Name: fmt.Sprintf("A mode=%v stall=permanent | B normal | W=upd a/b;upd a/b;upd a/b", md), Bound: bound, Data: cfg08{stall: "permanent", script: scripts[1], amode: md}})
	}
	for _, st := range []string{"never", "transient", "permanent", "slow"} {
		for _, uo := range []bool{true, false} {
			for si, sc := range scripts {
				b := bound
				if si == 0 && tier != "thorough" {
					b = 2
				}
				out = append(out, xplore.Config{Name: fmt.Sprintf("A stall=%s updates_only=%v | B normal | W=%s", st, uo, scriptName(sc)), Bound: b, Data: cfg08{stall: st, updatesOnly: uo, script: sc, stats: (tier == "thorough" && si == 0) || (st == "permanent" && si == 1)}})
			}
		}
	}
	return out
}

// run08acl: a subscriber that never stalls is never terminated - also when the
// last thing its sender handled was a response the ACL dropped and then nothing
// happens for longer than the send time-out.
func run08acl(cfg xplore.Config, d cfg08, ch vrt.Chooser, trace bool) (xplore.Outcome, *vrt.Result) {
	var out xplore.Outcome
	res := vrt.Run(ch, vrt.Options{Reverse: cfg.Reverse, Trace: trace}, func() {
		a := &acl{allowed: map[string]bool{"t1": true, "t2": false}}
		w := newWorld([]string{"t1", "t2"}, subscribe.WithACL(a))
		setupInitial(w)
		sa := newStream(subSpec{target: "*", paths: []string{"a"}, mode: pb.SubscriptionList_STREAM, user: "u"})
		w.streams = []*fstream{sa}
		vrt.GoNamed("subA", func() {
			sa.status = w.srv.Subscribe(sa)
			sa.returned = true
			sa.cancel()
		})
		wdone := false
		vrt.GoNamed("writer-t2", func() {
			for _, o := range d.script {
				w.apply("t2", o)
			}
			wdone = true
		})
		settle() // quiescence, then every timer still armed expires: time passes, nothing is being sent
		out.Nontrivial = true
		out.Obs = fmt.Sprintf("A:%v %s", sa.status, renderLog(sa.log))
		if !wdone {
			viol(&out, "writer-blocked", "the writer is blocked: %v", vrt.ParkedInfo())
		}
		if sa.returned {
			viol(&out, "stream-ended", "A never stalled, yet its subscription ended with %v after idling; log: %s", sa.status, renderLog(sa.log))
		}
		for _, r := range sa.log {
			if n := r.GetUpdate(); n != nil && n.GetPrefix().GetTarget() == "t2" {
				viol(&out, "denied-target-data-sent", "a response for the denied target t2 was sent: %s", renderLog([]*pb.SubscribeResponse{r}))
			}
		}
		sa.cancel()
		vrt.Idle()
		if !vrt.AllDone() {
			viol(&out, "deadlock", "threads never finished after cancel: %v", vrt.ParkedInfo())
		}
	})
	if res.Aborted != "" {
		viol(&out, hutil.AbortClass(res.Aborted, res.Panic), "%s %s", res.Aborted, strings.Join(res.Parked, "; "))
	}
	return out, res
}

// run08feeds: two update streams (t1, t2) feeding all-targets subscribers.
func run08feeds(cfg xplore.Config, d cfg08, ch vrt.Chooser, trace bool) (xplore.Outcome, *vrt.Result) {
	var out xplore.Outcome
	res := vrt.Run(ch, vrt.Options{Reverse: cfg.Reverse, Trace: trace, EarlyTimers: true}, func() {
		w := newWorld([]string{"t1", "t2"})
		setupInitial(w)
		stall := d.stall
		if stall == "never" {
			stall = ""
		}
		a := newStream(subSpec{target: "*", paths: []string{"a"}, mode: pb.SubscriptionList_STREAM, stall: stall})
		b := newStream(subSpec{target: "*", paths: []string{"a"}, mode: pb.SubscriptionList_STREAM})
		w.streams = []*fstream{a, b}
		for i, st := range w.streams {
			st := st
			vrt.GoNamed(fmt.Sprintf("sub%c", 'A'+i), func() {
				st.status = w.srv.Subscribe(st)
				st.returned = true
				st.cancel()
			})
		}
		vrt.Idle()
		if b.returned || len(b.syncSeen) != 1 {
			viol(&out, "setup", "B did not reach the streaming state: returned=%v status=%v log=%s", b.returned, b.status, renderLog(b.log))
			return
		}
		ws := []writer{{"t1", d.script}, {"t2", d.feeds2}}
		done := make([]bool, len(ws))
		for i, wr := range ws {
			i, wr := i, wr
			vrt.GoNamed("feed-"+wr.target, func() {
				for _, o := range wr.script {
					w.apply(wr.target, o)
				}
				done[i] = true
			})
		}
		vrt.Idle()
		out.Nontrivial = true
		out.Obs = fmt.Sprintf("A:%v %s | B: %s", a.status, renderLog(a.log), renderLog(b.log))
		for i, ok := range done {
			if !ok {
				viol(&out, "writer-blocked", "feed %d is blocked while subscriber A is %s: %v", i, d.stall, vrt.ParkedInfo())
				return
			}
		}
		if b.returned {
			viol(&out, "other-subscriber-ended", "B ended with %v", b.status)
		} else {
			checkStream04(&out, w, cfg04{writers: ws}, 1, b)
		}
		if d.stall == "never" {
			if a.returned {
				viol(&out, "stream-ended", "A never stalled, yet ended with %v", a.status)
			} else {
				checkStream04(&out, w, cfg04{writers: ws}, 0, a)
			}
		}
		if a.gate != nil {
			a.gate.Open()
		}
		for _, st := range w.streams {
			st.cancel()
		}
		vrt.Idle()
		if !vrt.AllDone() {
			viol(&out, "deadlock", "threads never finished after cancel: %v", vrt.ParkedInfo())
		}
	})
	if res.Aborted != "" {
		viol(&out, hutil.AbortClass(res.Aborted, res.Panic), "%s %s", res.Aborted, strings.Join(res.Parked, "; "))
	}
	return out, res
}

func run08(cfg xplore.Config, ch vrt.Chooser, trace bool) (xplore.Outcome, *vrt.Result) {
	d := cfg.Data.(cfg08)
	if d.acl {
		return run08acl(cfg, d, ch, trace)
	}
	if len(d.feeds2) > 0 {
		return run08feeds(cfg, d, ch, trace)
	}
	var out xplore.Outcome
	maxSteps := 0
	if len(d.script) > 100 {
		maxSteps = 2000000
	}
	res := vrt.Run(ch, vrt.Options{Reverse: cfg.Reverse, Trace: trace && maxSteps == 0, EarlyTimers: d.stall != "slow", MaxSteps: maxSteps}, func() {
		var opts []subscribe.Option
		if d.stats {
			opts = append(opts, subscribe.WithStats())
		}
		w := newWorld([]string{"t1", "t2"}, opts...)
		setupInitial(w)
		stall := d.stall
		if stall == "never" {
			stall = ""
		}
		aPaths := d.aPaths
		if len(aPaths) == 0 {
			aPaths = []string{"a"}
		}
		a := newStream(subSpec{target: "t1", paths: aPaths, mode: d.amode, updatesOnly: d.updatesOnly, stall: stall})
		b := newStream(subSpec{target: "t1", paths: []string{"a"}, mode: pb.SubscriptionList_STREAM})
		w.streams = []*fstream{a, b}
		for i, st := range w.streams {
			st := st
			vrt.GoNamed(fmt.Sprintf("sub%c", 'A'+i), func() {
				st.status = w.srv.Subscribe(st)
				st.returned = true
				st.cancel()
			})
		}
		vrt.Idle() // both registered; A's sender is parked in Send (gate) or in Next
		timedOut := func(st *fstream) bool {
			return st.returned && st.status != nil && strings.Contains(st.status.Error(), "timed out")
		}
		if b.returned || len(b.syncSeen) != 1 {
			viol(&out, "setup", "B did not reach the streaming state: returned=%v status=%v log=%s", b.returned, b.status, renderLog(b.log))
			return
		}
		for i := 0; i < d.pollsStalled; i++ {
			vrt.Send(a.pollC, struct{}{})
			vrt.Idle()
		}
		wdone := false
		vrt.GoNamed("writer", func() {
			for _, o := range d.script {
				w.apply("t1", o)
			}
			wdone = true
		})
		if d.stall == "transient" {
			vrt.GoNamed("releaser", func() { a.gate.Open() })
		}
		if d.late {
			c := newStream(subSpec{target: "t1", paths: []string{"a"}, mode: pb.SubscriptionList_STREAM})
			w.streams = append(w.streams, c)
			vrt.GoNamed("subC", func() {
				c.status = w.srv.Subscribe(c)
				c.returned = true
				c.cancel()
			})
		}
		vrt.Idle()
		out.Nontrivial = true
		// (1) accepting updates never waits on a subscriber
		if !wdone {
			viol(&out, "writer-blocked", "the writer is blocked while subscriber A's send is stalled: %v", vrt.ParkedInfo())
			return
		}
		// (1b) the other subscriber keeps receiving
		if b.returned {
			viol(&out, "other-subscriber-ended", "B ended with %v while A was stalled", b.status)
		} else {
			checkStream04(&out, w, cfg04{writers: []writer{{"t1", d.script}}}, 1, b)
			if len(d.script) < 100 {
				bc := map[string]int{}
				for _, o := range d.script {
					if o.kind == "upd" {
						bc["t1|"+o.path]++
					}
				}
				checkDups(&out, false, b, bc)
			}
		}
		updCount := map[string]int{}
		for _, o := range d.script {
			if o.kind == "upd" {
				updCount["t1|"+o.path]++
			}
		}
		switch d.stall {
		case "never", "slow":
			// slow: durations are modelled exactly (no early expiry): a subscriber
			// whose every send completes within the time-out is never terminated,
			// however long its backlog takes to drain
			if a.returned {
				viol(&out, "stream-ended", "A (%s) ended with %v", d.stall, a.status)
			} else {
				checkStream04(&out, w, cfg04{writers: []writer{{"t1", d.script}}}, 0, a)
				checkDups(&out, d.updatesOnly, a, updCount)
			}
		case "transient":
			if timedOut(a) {
				break // the send stayed blocked beyond the (virtual) timeout: allowed outcome
			}
			if a.returned {
				viol(&out, "stream-ended", "A (transient stall) ended with %v", a.status)
				break
			}
			checkStream04(&out, w, cfg04{writers: []writer{{"t1", d.script}}}, 0, a)
			checkDups(&out, d.updatesOnly, a, updCount)
		case "permanent":
			if !timedOut(a) {
				if a.returned {
					viol(&out, "stalled-stream-status", "A (permanently stalled) ended with %v instead of the send time-out", a.status)
					break
				}
				if !a.inSend {
					viol(&out, "setup", "A is not blocked in Send: %v", vrt.ParkedInfo())
					break
				}
				// (3) time passes: the only timer that can be armed is A's send
				// timer (it may already have fired as an early-expiry deviation
				// whose effect has not propagated yet)
				if n := vrt.ArmedTimers(); n > 1 {
					viol(&out, "send-timer", "%d timers armed while A's send is blocked, expected at most its send timer", n)
					break
				}
				vrt.FireAny()
				vrt.Idle()
				if !timedOut(a) {
					viol(&out, "no-timeout", "A's send stayed blocked past the timeout but the subscription did not end with the time-out error (returned=%v status=%v)", a.returned, a.status)
					break
				}
			}
			if b.returned {
				viol(&out, "other-subscriber-ended", "B ended with %v after A timed out", b.status)
			} else if len(d.script) < 100 {
				// the stalled subscription is gone (its registration removed): the
				// healthy one keeps receiving - one more update, sequentially
				nb := len(b.log)
				w.apply("t1", wop{"upd", "a/b"})
				vrt.Idle()
				want := fmt.Sprintf("a/b=%d", w.val)
				if got := renderLog(b.log[nb:]); !strings.Contains(got, want) {
					viol(&out, "other-subscriber-cut-off", "after A's subscription was ended by the send time-out, an update %s was accepted but B (subscribed to t1:[a], still open) received %q", want, got)
				}
			}
			// (2) backlog bound, measured by releasing the blocked sender
			before := len(a.log)
			a.gate.Open()
			vrt.Idle()
			leaves := map[string]bool{}
			dels := 0
			for _, o := range d.script {
				switch o.kind {
				case "upd", "atomic": // an atomic group is one pending entry
					leaves[o.path] = true
				case "del":
					dels += 2 // at most the leaves below it
				}
			}
			if !d.updatesOnly {
				leaves["a/b"] = true
			}
			max := len(leaves) + dels + 1 + 1
			if got := len(a.log) - before; got > max {
				viol(&out, "backlog-unbounded", "the stalled subscriber's backlog held %d entries; bound is %d (one per distinct pending leaf + one per delete + sync + in-flight); log: %s", got, max, renderLog(a.log))
			}
			if d.pollsStalled > 0 {
				syncs := 0
				for _, r := range a.log[before:] {
					if r.GetSyncResponse() {
						syncs++
					}
				}
				if syncs > 2 {
					viol(&out, "backlog-unbounded", "the stalled POLL subscriber polled %d times; its drained backlog holds %d sync markers (they coalesce: at most the one in flight and one pending); log: %s", d.pollsStalled, syncs, renderLog(a.log[before:]))
				}
			}
			// the same bound, exactly: the first response logged after the release
			// is the one that was in flight; behind it the backlog holds ONE entry
			// per pending leaf - two update responses for one leaf need a delete
			// of it in between (a re-created leaf is a new leaf) - and, the writer
			// being done, a leaf that was never deleted is sent with its final value
			if len(a.log) > before+1 {
				pendingSince := map[string]int{}
				for i, r := range a.log[before+1:] {
					n := r.GetUpdate()
					if n == nil {
						continue
					}
					for _, dp := range n.Delete {
						dk := strings.Join(fullIndex(n.Prefix, dp), "/")
						for k := range pendingSince {
							if k == dk || strings.HasPrefix(k, dk+"/") || dk == "" {
								delete(pendingSince, k)
							}
						}
					}
					if len(n.Update) != 1 || n.Atomic {
						continue
					}
					k := strings.Join(fullIndex(n.Prefix, n.Update[0].Path), "/")
					if j, dup := pendingSince[k]; dup {
						viol(&out, "backlog-duplicate-entry", "the drained backlog holds two entries for the one pending leaf %s (responses %d and %d after the release, no delete in between): log: %s", k, j, i, renderLog(a.log[before:]))
						break
					}
					pendingSince[k] = i
					if !touched([]writer{{"t1", d.script}}, "t1", k) {
						if fin := w.cur["t1|"+k]; fin != 0 && valOf(n) != fmt.Sprint(fin) {
							viol(&out, "stale-value-after-stall", "after the stall leaf %s was sent with value %s although its newest value is %d (writer finished before the release); log: %s", k, valOf(n), fin, renderLog(a.log[before:]))
							break
						}
					}
				}
			}
		}
		out.Obs = fmt.Sprintf("A:%v %s | B: %s", a.status, renderLog(a.log), renderLog(b.log))
		if a.gate != nil {
			a.gate.Open()
		}
		for _, st := range w.streams {
			st.cancel()
		}
		vrt.Idle()
		if !vrt.AllDone() {
			viol(&out, "deadlock", "threads never finished after cancel: %v", vrt.ParkedInfo())
		}
	})
	if res.Aborted != "" {
		viol(&out, hutil.AbortClass(res.Aborted, res.Panic), "%s %s", res.Aborted, strings.Join(res.Parked, "; "))
	}
	return out, res
}

// checkDups: for an updates_only subscriber registered before the writer
// started, the sum of (1 + duplicates) over a leaf's update responses equals
// the number of updates the writer made to it, and the last response carries
// the newest value.
func checkDups(out *xplore.Outcome, updatesOnly bool, st *fstream, updCount map[string]int) {
	sum := map[string]int{}
	last := map[string]string{}
	for _, r := range st.log {
		n := r.GetUpdate()
		if n == nil || len(n.Update) != 1 {
			continue
		}
		k := n.GetPrefix().GetTarget() + "|" + strings.Join(fullIndex(n.Prefix, n.Update[0].Path), "/")
		sum[k] += 1 + int(n.Update[0].Duplicates)
		last[k] = valOf(n)
	}
	for k, want := range updCount {
		w := want
		if !updatesOnly && k == "t1|a/b" {
			w++ // the walk inserted the initial leaf once
		}
		if sum[k] != w {
			viol(out, "duplicate-count", "leaf %s: responses carry 1+duplicates summing to %d, the feed inserted it %d times; log: %s", k, sum[k], w, renderLog(st.log))
		}
	}
}
