package main

import (
	"context"
	"fmt"
	"strings"

	"google.golang.org/protobuf/proto"

	pb "github.com/openconfig/gnmi/proto/gnmi"
	"github.com/openconfig/gnmi/subscribe"
	"github.com/openconfig/gnmi/zzverif/hutil"
	"github.com/openconfig/gnmi/zzverif/vrt"
	"github.com/openconfig/gnmi/zzverif/xplore"
)

// C12 (Subscribe handler part) — every SubscribeRequest of a finite grammar
// against several cache states, each RPC run under the scheduler; every
// goroutine the handler starts is a thread whose panic is recorded.

type cfg12 struct {
	first  string // subscribe, poll, empty
	prefix string // nil, notarget, unknown, t1, star
	mode   int32
	paths  string // nil, nilpath, empty, a, star, a/star, originpath, both-origins, two
	uo     bool
	second string // none, poll, nonpoll, eof
	state  string // empty, small, atomic, metaonly
	stats  bool   // server created WithStats()
	// acl: server created WithACL whose per-call ACL is a VALUE of a type that
	// cannot be hashed or compared ("map": a struct holding a map; "func": a
	// function adapter) and allows everything - legal implementations of the
	// RPCACL interface
	acl string
}

type mapRPCACL struct{ allow map[string]bool }

func (m mapRPCACL) Check(target string) bool { return m.allow[target] }

type funcRPCACL func(string) bool

func (f funcRPCACL) Check(target string) bool { return f(target) }

type valueACL struct{ kind string }

func (v valueACL) NewRPCACL(ctx context.Context) (subscribe.RPCACL, error) {
	if v.kind == "func" {
		return funcRPCACL(func(string) bool { return true }), nil
	}
	return mapRPCACL{allow: map[string]bool{"t1": true, "t2": true}}, nil
}
func (v valueACL) Check(user, target string) bool { return true }

func (c cfg12) String() string {
	st := ""
	if c.stats {
		st = " server=WithStats"
	}
	if c.acl != "" {
		st += " server=WithACL(" + c.acl + "-valued per-call ACL)"
	}
	return fmt.Sprintf("first=%s prefix=%s mode=%d paths=%s updates_only=%v second=%s cache=%s%s", c.first, c.prefix, c.mode, c.paths, c.uo, c.second, c.state, st)
}

func configs12(tier string) []xplore.Config {
	var out []xplore.Config
	bound := 1
	for _, state := range []string{"empty", "small", "atomic", "metaonly"} {
		for _, first := range []string{"subscribe", "poll", "empty"} {
			for _, prefix := range []string{"nil", "notarget", "unknown", "t1", "star"} {
				for _, mode := range []int32{0, 1, 2, 7} { // STREAM ONCE POLL invalid
					for _, paths := range []string{"nil", "nilpath", "empty", "a", "star", "a/star", "originpath", "both-origins", "two"} {
						for _, uo := range []bool{false, true} {
							for _, second := range []string{"none", "poll", "nonpoll", "eof"} {
								if first != "subscribe" && (prefix != "t1" || paths != "a" || uo || second != "none" || mode != 0) {
									continue
								}
								if second != "none" && mode != 2 {
									continue // later messages are only read in POLL mode
								}
								if tier != "thorough" && state != "small" && (paths == "two" || paths == "a/star" || prefix == "notarget") {
									continue
								}
								c := cfg12{first, prefix, mode, paths, uo, second, state, false, ""}
								out = append(out, xplore.Config{Name: c.String(), Bound: bound, Data: c})
								// the same request against a server with an ACL whose per-call
								// object is a value of an unhashable type
								if state == "small" && first == "subscribe" && (prefix == "t1" || prefix == "star") && (paths == "a" || paths == "two") && second == "none" {
									for _, k := range []string{"map", "func"} {
										ca := c
										ca.acl = k
										out = append(out, xplore.Config{Name: ca.String(), Bound: bound, Data: ca})
									}
								}
								// the same request against a server that keeps statistics
								// (any int32 is a valid wire value of the mode enum)
								if state == "small" && (paths == "a" || paths == "star") && !uo {
									c.stats = true
									out = append(out, xplore.Config{Name: c.String(), Bound: bound, Data: c})
									if mode == 7 {
										for _, m := range []int32{-1, 3, 1 << 30} {
											c.mode = m
											out = append(out, xplore.Config{Name: c.String(), Bound: bound, Data: c})
										}
									}
								}
							}
						}
					}
				}
			}
		}
	}
	return out
}

func (c cfg12) request() *pb.SubscribeRequest {
	switch c.first {
	case "poll":
		return &pb.SubscribeRequest{Request: &pb.SubscribeRequest_Poll{Poll: &pb.Poll{}}}
	case "empty":
		return &pb.SubscribeRequest{}
	}
	sl := &pb.SubscriptionList{Mode: pb.SubscriptionList_Mode(c.mode), UpdatesOnly: c.uo}
	switch c.prefix {
	case "notarget":
		sl.Prefix = &pb.Path{}
	case "unknown":
		sl.Prefix = &pb.Path{Target: "nosuch"}
	case "t1":
		sl.Prefix = &pb.Path{Target: "t1"}
	case "star":
		sl.Prefix = &pb.Path{Target: "*"}
	}
	switch c.paths {
	case "nilpath":
		sl.Subscription = []*pb.Subscription{{}}
	case "empty":
		sl.Subscription = []*pb.Subscription{{Path: &pb.Path{}}}
	case "a":
		sl.Subscription = []*pb.Subscription{{Path: mkPath("a")}}
	case "star":
		sl.Subscription = []*pb.Subscription{{Path: mkPath("*")}}
	case "a/star":
		sl.Subscription = []*pb.Subscription{{Path: mkPath("a/*")}}
	case "originpath":
		p := mkPath("a")
		p.Origin = "o"
		sl.Subscription = []*pb.Subscription{{Path: p}}
	case "both-origins":
		p := mkPath("a")
		p.Origin = "o"
		if sl.Prefix != nil {
			sl.Prefix.Origin = "o2"
		}
		sl.Subscription = []*pb.Subscription{{Path: p}}
	case "two":
		sl.Subscription = []*pb.Subscription{{Path: mkPath("a/b")}, {}, {Path: mkPath("*")}}
	}
	r := &pb.SubscribeRequest{Request: &pb.SubscribeRequest_Subscribe{Subscribe: sl}}
	b, err := proto.Marshal(r)
	if err != nil {
		panic(err)
	}
	w := &pb.SubscribeRequest{}
	if err := proto.Unmarshal(b, w); err != nil {
		panic(err)
	}
	return w
}

func run12(cfg xplore.Config, ch vrt.Chooser, trace bool) (xplore.Outcome, *vrt.Result) {
	c := cfg.Data.(cfg12)
	var out xplore.Outcome
	res := vrt.Run(ch, vrt.Options{Reverse: cfg.Reverse, Trace: trace}, func() {
		var sopts []subscribe.Option
		if c.stats {
			sopts = append(sopts, subscribe.WithStats())
		}
		if c.acl != "" {
			sopts = append(sopts, subscribe.WithACL(valueACL{c.acl}))
		}
		w := newWorld([]string{"t1", "t2"}, sopts...)
		switch c.state {
		case "small":
			setupInitial(w)
		case "atomic":
			w.c.GnmiUpdate(&pb.Notification{Timestamp: 1, Atomic: true, Prefix: &pb.Path{Target: "t1", Elem: mkPath("a").Elem}, Update: []*pb.Update{{Path: mkPath("m"), Val: ival(1)}, {Path: mkPath("n"), Val: ival(2)}}})
		case "metaonly":
			w.c.Sync("t1")
			w.c.UpdateMetadata()
		}
		st := newStream(subSpec{target: "t1", mode: pb.SubscriptionList_Mode(c.mode)})
		st.req = c.request()
		switch c.second {
		case "poll":
			st.pollC <- struct{}{}
		case "nonpoll":
			st.second = &pb.SubscribeRequest{Request: &pb.SubscribeRequest_Subscribe{Subscribe: &pb.SubscriptionList{}}}
			st.pollC <- struct{}{}
		case "eof":
			close(st.pollC)
		}
		vrt.GoNamed("rpc", func() {
			st.status = w.srv.Subscribe(st)
			st.returned = true
			st.cancel()
		})
		vrt.GoNamed("writer", func() { w.apply("t1", wop{"upd", "a/b"}) })
		vrt.Idle()
		out.Obs = fmt.Sprintf("%v|%d responses", st.status, len(st.log))
		out.Nontrivial = st.status != nil
		// the client goes away
		st.cancel()
		vrt.Idle()
		if !vrt.AllDone() {
			viol(&out, "handler-goroutines-leaked", "%s: after the stream was cancelled some handler goroutines never finished: %v", c, vrt.ParkedInfo())
		}
	})
	if res.Aborted != "" {
		cl := hutil.AbortClass(res.Aborted, res.Panic)
		if cl == "panic" {
			// class = panic site inside the repository
			site := "?"
			for _, l := range strings.Split(res.Panic, "\n") {
				l = strings.TrimSpace(l)
				if strings.HasPrefix(l, "github.com/openconfig/gnmi/") && !strings.Contains(l, "/zzverif/") {
					site = strings.TrimPrefix(l, "github.com/openconfig/gnmi/")
					if k := strings.Index(site, "("); k > 0 && strings.HasSuffix(site, ")") {
						site = site[:strings.LastIndex(site, "(")]
					}
					if k := strings.Index(site, ".func"); k > 0 {
						site = site[:k]
					}
					break
				}
			}
			cl = "panic:Server.Subscribe@" + site
		}
		viol(&out, cl, "%s: %s %s", c, res.Aborted, strings.Join(res.Parked, "; "))
	}
	return out, res
}
