package main

import (
	"fmt"
	"strings"

	"google.golang.org/grpc/codes"
	"google.golang.org/grpc/status"

	pb "github.com/openconfig/gnmi/proto/gnmi"
	"github.com/openconfig/gnmi/zzverif/hutil"
	"github.com/openconfig/gnmi/zzverif/vrt"
	"github.com/openconfig/gnmi/zzverif/xplore"
)

// C14 (stream part) — removing a target ends single-target subscriptions to
// it cleanly, all-targets subscriptions keep receiving the other targets.

type cfg14 struct {
	w1, w2      []wop
	updatesOnly bool
	w1b         []wop // a second goroutine operating on t1 (Reset racing Remove/Add)
	// missingOnly: only leaves the cache holds but the subscriber lacks count
	// (an update that raced the Remove from another goroutine may legitimately
	// be announced after the target delete and survive in the subscriber)
	missingOnly bool
	// probe: once everything is quiet, ONE more update for t1 is issued
	// sequentially: a removed target refuses it and nothing is announced, a
	// re-added target stores it where queries and subscribers find it
	probe bool
	// nestedLeaver: another client subscribed strictly BELOW the single-target
	// subscriber's path (t1:[a/b] below t1:[a]) goes away first, at a moment the
	// scheduler chooses; whatever its departure prunes, the remaining
	// subscribers are still told when the target is removed
	nestedLeaver bool
}

func configs14(tier string) []xplore.Config {
	var out []xplore.Config
	bound := 2
	if tier == "thorough" {
		bound = 3
	}
	for _, uo := range []bool{false, true} {
		for _, w1 := range [][]wop{{{"remove", ""}}, {{"upd", "a/b"}, {"remove", ""}}, {{"del", "a"}, {"remove", ""}}} {
			for _, w2 := range [][]wop{{{"upd", "a/b"}}, {{"upd", "a/c"}, {"del", "a/b"}}} {
				out = append(out, xplore.Config{Name: fmt.Sprintf("X=t1 updates_only=%v W(t1)=%s W(t2)=%s", uo, scriptName(w1), scriptName(w2)), Bound: bound, Data: cfg14{w1: w1, w2: w2, updatesOnly: uo}})
			}
		}
	}
	// lifecycle calls on one target from two goroutines: a Reset racing the
	// Remove (and re-Add) of the same target must serialise
	// (no update in the second script: an update racing a Reset of the same
	// target from another goroutine has no defined feed order - the cache writes
	// the tree and then notifies - and the collector never does that: Reset and
	// updates of a target come from its one manager goroutine)
	for _, w1b := range [][]wop{{{"remove", ""}}, {{"remove", ""}, {"add", ""}}} {
		out = append(out, xplore.Config{Name: fmt.Sprintf("X=t1 W(t1)=reset || W'(t1)=%s W(t2)=upd a/b", scriptName(w1b)), Bound: bound - 1, Data: cfg14{w1: []wop{{"reset", ""}}, w2: []wop{{"upd", "a/b"}}, w1b: w1b}})
	}
	// Remove racing a re-Add followed by an update from another goroutine: if
	// the re-added target ends up holding the leaf, the whole-target delete of
	// the old incarnation must have been announced before that update
	out = append(out, xplore.Config{Name: "X=t1 W(t1)=remove || W'(t1)=add;upd a/b W(t2)=upd a/b (no leaf of the re-added target may be missing)", Bound: bound, Data: cfg14{w1: []wop{{"remove", ""}}, w2: []wop{{"upd", "a/b"}}, w1b: []wop{{"add", ""}, {"upd", "a/b"}}, missingOnly: true}})
	// the collector's periodic metadata refresh (it walks every target and
	// announces changed meta leaves) racing the Remove of a target: nothing is
	// announced for the removed target after its whole-target delete
	out = append(out, xplore.Config{Name: "X=t1 refresh=UpdateMetadata || W'(t1)=remove W(t2)=upd a/b (periodic metadata refresh racing the Remove)", Bound: bound - 1, Data: cfg14{w1: []wop{{"refresh", ""}}, w2: []wop{{"upd", "a/b"}}, w1b: []wop{{"remove", ""}}}})
	for _, uo := range []bool{false, true} {
		out = append(out, xplore.Config{Name: fmt.Sprintf("X=t1 updates_only=%v W(t1)=remove W(t2)=upd a/b, a client subscribed below X's path leaves first", uo), Bound: bound - 1, Data: cfg14{w1: []wop{{"remove", ""}}, w2: []wop{{"upd", "a/b"}}, updatesOnly: uo, nestedLeaver: true}})
	}
	// an update for t1 still in flight (inside the change feed) while another
	// goroutine removes (and re-adds) t1, then - everything quiet - one more
	// update for t1: whatever the in-flight update left behind anywhere (a
	// remembered target, a cached handle), the cache and its subscribers agree
	for _, w1b := range [][]wop{{{"remove", ""}}, {{"remove", ""}, {"add", ""}}} {
		out = append(out, xplore.Config{Name: fmt.Sprintf("X=t1 W(t1)=upd a/b || W'(t1)=%s W(t2)=upd a/b, then a sequential update of t1", scriptName(w1b)), Bound: bound, Data: cfg14{w1: []wop{{"upd", "a/b"}}, w2: []wop{{"upd", "a/b"}}, w1b: w1b, missingOnly: true, probe: true}})
	}
	// a target that flaps - update, Reset, refill, Reset again - while one
	// subscriber is slow (stalled, then released) and one is not: the deletes a
	// Reset announces cover, for every subscriber, what was announced before them
	for _, st := range []string{"never", "transient"} {
		for _, sc := range [][]wop{{{"upd", "a/c"}, {"reset", ""}, {"upd", "a/c"}, {"reset", ""}}, {{"reset", ""}, {"upd", "a/b"}, {"reset", ""}, {"upd", "a/c"}}} {
			out = append(out, xplore.Config{Name: fmt.Sprintf("A stall=%s | B normal | W(t1)=%s (flapping target)", st, scriptName(sc)), Bound: 1, Data: cfg08{stall: st, script: sc}})
		}
	}
	// a subscriber attaching at any point of a Reset (before, between the
	// per-root steps, after): the deletes announced to the feed must cover
	// whatever its walk showed it. Subscriptions on a/... only, so that the
	// metadata leaves a Reset regenerates stay out of the queues.
	for _, sc := range [][]wop{{{"reset", ""}}, {{"upd", "a/c"}, {"reset", ""}}, {{"reset", ""}, {"upd", "a/b"}}} {
		for _, sp := range []subSpec{{target: "t1", paths: []string{"a"}, mode: pb.SubscriptionList_STREAM}, {target: "*", paths: []string{"a"}, mode: pb.SubscriptionList_STREAM}} {
			out = append(out, xplore.Config{Name: fmt.Sprintf("attach during W(t1)=%s | %s", scriptName(sc), sp), Bound: bound,
				Data: cfg04{writers: []writer{{"t1", sc}}, subs: []subSpec{sp}}})
		}
	}
	return out
}

// configs03: the change feed under concurrent lifecycle calls on one target
// (C03's statement quantifies over Reset and Remove calls; the collector issues
// them from different goroutines - the target's manager goroutine resets, the
// configuration handler removes). The feed, as an all-targets subscriber on
// every path sees it, must replay to what the cache holds.
func configs03(tier string) []xplore.Config {
	var out []xplore.Config
	bound := 2
	if tier == "thorough" {
		bound = 3
	}
	for _, w1b := range [][]wop{{{"remove", ""}}, {{"remove", ""}, {"add", ""}}} {
		out = append(out, xplore.Config{Name: fmt.Sprintf("feed: W(t1)=reset || W'(t1)=%s W(t2)=upd a/b", scriptName(w1b)), Bound: bound - 1, Data: cfg14{w1: []wop{{"reset", ""}}, w2: []wop{{"upd", "a/b"}}, w1b: w1b}})
	}
	return out
}

func firstPath(n *pb.Notification) *pb.Path {
	if len(n.Update) > 0 {
		return n.Update[0].Path
	}
	if len(n.Delete) > 0 {
		return n.Delete[0]
	}
	return nil
}

func run14(cfg xplore.Config, ch vrt.Chooser, trace bool) (xplore.Outcome, *vrt.Result) {
	if _, ok := cfg.Data.(cfg08); ok {
		return run08(cfg, ch, trace)
	}
	if d, ok := cfg.Data.(cfg04); ok {
		d.reverse = cfg.Reverse
		cfg.Data = d
		return run04(cfg, ch, trace)
	}
	return run14x(cfg, ch, trace)
}

func run14x(cfg xplore.Config, ch vrt.Chooser, trace bool) (xplore.Outcome, *vrt.Result) {
	d := cfg.Data.(cfg14)
	var out xplore.Outcome
	res := vrt.Run(ch, vrt.Options{Reverse: cfg.Reverse, Trace: trace}, func() {
		w := newWorld([]string{"t1", "t2"})
		setupInitial(w)
		x := newStream(subSpec{target: "t1", paths: []string{"a"}, mode: pb.SubscriptionList_STREAM, updatesOnly: d.updatesOnly})
		allPaths := []string{"a"}
		if len(d.w1b) > 0 {
			allPaths = []string{"*"} // also sees the metadata leaves a Reset regenerates
		}
		all := newStream(subSpec{target: "*", paths: allPaths, mode: pb.SubscriptionList_STREAM})
		w.streams = []*fstream{x, all}
		for i, st := range w.streams {
			st := st
			vrt.GoNamed(fmt.Sprintf("sub%d", i), func() {
				st.status = w.srv.Subscribe(st)
				st.returned = true
				st.cancel()
			})
		}
		if d.nestedLeaver {
			y := newStream(subSpec{target: "t1", paths: []string{"a/b"}, mode: pb.SubscriptionList_STREAM})
			vrt.GoNamed("subY", func() {
				y.status = w.srv.Subscribe(y)
				y.returned = true
			})
			vrt.GoNamed("Y-leaves", func() { y.cancel() })
			vrt.Idle() // Y has come and gone before the target is removed
		}
		done := [2]bool{}
		for i, sc := range [][]wop{d.w1, d.w2} {
			i, sc := i, sc
			t := []string{"t1", "t2"}[i]
			vrt.GoNamed("writer-"+t, func() {
				for _, o := range sc {
					w.apply(t, o)
				}
				done[i] = true
			})
		}
		doneB := len(d.w1b) == 0
		if len(d.w1b) > 0 {
			vrt.GoNamed("writer-t1-b", func() {
				for _, o := range d.w1b {
					w.apply("t1", o)
				}
				doneB = true
			})
		}
		settle()
		out.Nontrivial = true
		out.Obs = fmt.Sprintf("X:%v %s | *: %s", x.status, renderLog(x.log), renderLog(all.log))
		if len(d.w1b) > 0 {
			// only the all-targets subscriber is judged here: what it holds for
			// t1 after replay must be what the cache holds for t1
			if !done[0] || !done[1] || !doneB {
				viol(&out, "writer-blocked", "writers blocked: %v", vrt.ParkedInfo())
				return
			}
			if all.returned {
				viol(&out, "all-targets-stream-ended", "the all-targets subscription ended with %v", all.status)
			} else {
				rep, _ := replay(all.log)
				want := w.expected(all.spec)
				if d.missingOnly {
					for k, v := range want {
						if strings.HasPrefix(k, "t1|") && !strings.HasPrefix(k, "t1|meta/") && rep[k] != v {
							viol(&out, "delete-announced-after-readd", "Remove racing %s: the cache holds %s=%s for the re-added target but replaying the all-targets subscriber's responses yields %q (the old incarnation's whole-target delete was announced after the new one's update); log: %s", scriptName(d.w1b), k, v, rep[k], renderLog(all.log))
						}
					}
				} else if renderMap(rep) != renderMap(want) {
					viol(&out, "lifecycle-race-not-converged", "Reset racing %s on the same target: replaying the all-targets subscriber's responses yields\n  %s\nthe cache holds\n  %s\nlog: %s", scriptName(d.w1b), renderMap(rep), renderMap(want), renderLog(all.log))
				}
			}
			if d.probe && !all.returned {
				before := len(all.log)
				w.ts += 10
				w.val++
				pv := w.val
				perr := w.c.GnmiUpdate(&pb.Notification{Timestamp: w.ts, Prefix: &pb.Path{Target: "t1"}, Update: []*pb.Update{{Path: mkPath("a/z"), Val: ival(pv)}}})
				settle()
				announced := ""
				for _, r := range all.log[before:] {
					if n := r.GetUpdate(); n != nil && n.GetPrefix().GetTarget() == "t1" && !isMetaKey("t1|"+strings.Join(fullIndex(n.Prefix, firstPath(n)), "/")) {
						announced += renderLog([]*pb.SubscribeResponse{r})
					}
				}
				stored := w.expected(subSpec{target: "*", paths: []string{"a/z"}})["t1|a/z"]
				if !w.c.HasTarget("t1") {
					if perr == nil || announced != "" || stored != "" {
						viol(&out, "update-for-removed-target", "t1 was removed (HasTarget=false); a later update for it returned %v, was announced as %q and is stored as %q - a removed target is unknown to updates", perr, announced, stored)
					}
				} else if perr != nil || stored != fmt.Sprint(pv) || !strings.Contains(announced, fmt.Sprintf("a/z=%d", pv)) {
					viol(&out, "update-for-readded-target", "t1 was removed and added again; a later update a/z=%d returned %v, queries find %q, the all-targets subscriber was sent %q", pv, perr, stored, announced)
				}
			}
			for _, st := range w.streams {
				st.cancel()
			}
			vrt.Idle()
			if !vrt.AllDone() {
				viol(&out, "deadlock", "threads never finished after cancel: %v", vrt.ParkedInfo())
			}
			return
		}
		if !done[0] || !done[1] {
			viol(&out, "writer-blocked", "writers blocked: %v", vrt.ParkedInfo())
			return
		}
		// the single-target subscription ends: cleanly after the target delete, or
		// it was refused because the target was already gone
		switch {
		case !x.returned:
			viol(&out, "single-target-stream-survives-remove", "target t1 was removed but the single-target subscription neither ended nor was refused; log: %s", renderLog(x.log))
		case x.status == nil:
			n := len(x.log)
			last := ""
			if n > 0 {
				last = renderLog(x.log[n-1:])
			}
			if !strings.HasPrefix(last, "D(t1|*)") {
				viol(&out, "stream-ended-without-target-delete", "the single-target subscription ended cleanly but its last response is %q, not the whole-target delete; log: %s", last, renderLog(x.log))
			}
		case status.Code(x.status) == codes.NotFound && len(x.log) == 0:
		default:
			viol(&out, "single-target-stream-status", "the single-target subscription ended with %v; log: %s", x.status, renderLog(x.log))
		}
		// the all-targets subscription keeps going and converges on what is left
		if all.returned {
			viol(&out, "all-targets-stream-ended", "the all-targets subscription ended with %v", all.status)
		} else {
			checkStream04(&out, w, cfg04{writers: []writer{{"t1", d.w1}, {"t2", d.w2}}}, 1, all)
		}
		for _, st := range w.streams {
			st.cancel()
		}
		vrt.Idle()
		if !vrt.AllDone() {
			viol(&out, "deadlock", "threads never finished after cancel: %v", vrt.ParkedInfo())
		}
	})
	if res.Aborted != "" {
		viol(&out, hutil.AbortClass(res.Aborted, res.Panic), "%s %s", res.Aborted, strings.Join(res.Parked, "; "))
	}
	return out, res
}
