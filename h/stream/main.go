// stream — schedule exploration of the Subscribe server wired to the real
// cache (C04, C05, C07, C08, stream part of C14, handler part of C12). One
// binary; the property is selected with -prop.
package main

import (
	"flag"

	"github.com/openconfig/gnmi/zzverif/vrt"
	"github.com/openconfig/gnmi/zzverif/xplore"
)

var prop = flag.String("prop", "C04", "property")

type harness struct{}

func (harness) Property() string { return *prop }

func (harness) Configs(tier string) []xplore.Config {
	switch *prop {
	case "C04":
		return configs04(tier)
	case "C01":
		return configs01(tier)
	case "C06":
		return configs06(tier)
	case "C05":
		return xplore.WithReverse(configs05(tier))
	case "C07":
		return xplore.WithReverse(configs07(tier))
	case "C08":
		return xplore.WithReverse(configs08(tier))
	case "C14":
		return xplore.WithReverse(configs14(tier))
	case "C03":
		return xplore.WithReverse(configs03(tier))
	case "C12":
		return configs12(tier)
	}
	panic("unknown property " + *prop)
}

func (harness) Run(cfg xplore.Config, ch vrt.Chooser, trace bool) (xplore.Outcome, *vrt.Result) {
	switch *prop {
	case "C04", "C01", "C06":
		return run04(cfg, ch, trace)
	case "C05":
		return run05(cfg, ch, trace)
	case "C07":
		return run07(cfg, ch, trace)
	case "C08":
		return run08(cfg, ch, trace)
	case "C14", "C03":
		return run14(cfg, ch, trace)
	case "C12":
		return run12(cfg, ch, trace)
	}
	panic("unknown property " + *prop)
}

func main() { xplore.Main(harness{}) }
