package main

import (
	"context"
	"fmt"
	"io"
	"net"
	"sort"
	"strings"
	"time"

	"google.golang.org/grpc/metadata"
	"google.golang.org/grpc/peer"

	"github.com/openconfig/gnmi/cache"
	"github.com/openconfig/gnmi/ctree"
	gpath "github.com/openconfig/gnmi/path"
	pb "github.com/openconfig/gnmi/proto/gnmi"
	"github.com/openconfig/gnmi/subscribe"
	"github.com/openconfig/gnmi/zzverif/vcontext"
	"github.com/openconfig/gnmi/zzverif/vrt"
	"github.com/openconfig/gnmi/zzverif/xplore"
)

// ---- writer operations

type wop struct {
	kind string // upd, same, del, reset, remove, atomic
	path string // "a/b"
}

func (o wop) String() string {
	if o.path == "" {
		return o.kind
	}
	return o.kind + " " + o.path
}

type writer struct {
	target string
	script []wop
}

type subSpec struct {
	target      string
	origin      string
	paths       []string
	updatesOnly bool
	mode        pb.SubscriptionList_Mode
	polls       int    // POLL: number of poll triggers before EOF
	user        string // ACL identity
	stall       string // "", transient, permanent (C08)
}

func (s subSpec) String() string {
	m := strings.ToLower(s.mode.String())
	uo := ""
	if s.updatesOnly {
		uo = " updates_only"
	}
	st := ""
	if s.stall != "" {
		st = " stall=" + s.stall
	}
	if s.polls > 0 {
		st += fmt.Sprintf(" polls=%d", s.polls)
	}
	if s.user != "" {
		st += " user=" + s.user
	}
	return fmt.Sprintf("%s %s:[%s]%s%s", m, s.target, strings.Join(s.paths, ","), uo, st)
}

// orig splits "o:a/b" into origin "o" and elements "a/b" (no colon: no origin).
func orig(p string) (string, string) {
	if i := strings.Index(p, ":"); i >= 0 {
		return p[:i], p[i+1:]
	}
	return "", p
}

// okey is the index form of a path that may carry an origin: "o:a/b" -> "o/a/b".
func okey(p string) string {
	o, e := orig(p)
	if o == "" {
		return e
	}
	if e == "" {
		return o
	}
	return o + "/" + e
}

func mkPath(p string) *pb.Path {
	out := &pb.Path{}
	if o, e := orig(p); o != "" {
		out.Origin, p = o, e
	}
	if p == "" {
		return out
	}
	for _, e := range strings.Split(p, "/") {
		out.Elem = append(out.Elem, &pb.PathElem{Name: e})
	}
	return out
}

func ival(v int64) *pb.TypedValue { return &pb.TypedValue{Value: &pb.TypedValue_IntVal{IntVal: v}} }

// ---- in-memory stream

type fstream struct {
	pb.GNMI_SubscribeServer
	spec     subSpec
	ctx      context.Context
	cancel   func()
	req      *pb.SubscribeRequest
	recvs    int
	pollC    chan struct{}
	log      []*pb.SubscribeResponse
	gate     *vrt.Gate
	inSend   bool
	returned bool
	status   error
	startSt  int64
	syncSeen []int // indexes of sync responses in log
	onSync   func()
	second   *pb.SubscribeRequest // what a later Recv returns instead of a poll trigger
}

func (s *fstream) Context() context.Context { return s.ctx }
func (s *fstream) Recv() (*pb.SubscribeRequest, error) {
	s.recvs++
	if s.recvs == 1 {
		return s.req, nil
	}
	switch vrt.Select(false, vrt.R(s.pollC), vrt.R(s.ctx.Done())) {
	case 0:
		if _, ok := vrt.RecvNow2(s.pollC); !ok {
			return nil, io.EOF
		}
		if s.second != nil {
			return s.second, nil
		}
		return &pb.SubscribeRequest{Request: &pb.SubscribeRequest_Poll{Poll: &pb.Poll{}}}, nil
	default:
		vrt.RecvNow(s.ctx.Done())
		return nil, s.ctx.Err()
	}
}
func (s *fstream) Send(r *pb.SubscribeResponse) error {
	if s.spec.stall == "slow" {
		// every send of this subscriber takes 25 s of virtual time: slow, but
		// well inside the server's one-minute send time-out
		vrt.Elapse(25 * time.Second)
	}
	if s.gate != nil {
		s.inSend = true
		s.gate.Wait()
		s.inSend = false
	}
	s.log = append(s.log, r)
	if r.GetSyncResponse() {
		s.syncSeen = append(s.syncSeen, len(s.log)-1)
		if s.onSync != nil {
			s.onSync()
		}
	}
	return nil
}
func (s *fstream) SetHeader(metadata.MD) error  { return nil }
func (s *fstream) SendHeader(metadata.MD) error { return nil }
func (s *fstream) SetTrailer(metadata.MD)       {}

func newStream(sp subSpec) *fstream {
	ctx, cancel := vcontext.WithCancel(vcontext.Background())
	ctx = peer.NewContext(ctx, &peer.Peer{Addr: &net.TCPAddr{IP: net.IPv4(10, 0, 0, 1), Port: 1000}})
	if sp.user != "" {
		ctx = context.WithValue(ctx, userKey{}, sp.user)
	}
	sl := &pb.SubscriptionList{Prefix: &pb.Path{Target: sp.target, Origin: sp.origin}, Mode: sp.mode, UpdatesOnly: sp.updatesOnly}
	for _, p := range sp.paths {
		sl.Subscription = append(sl.Subscription, &pb.Subscription{Path: mkPath(p)})
	}
	st := &fstream{spec: sp, ctx: ctx, cancel: cancel, pollC: make(chan struct{}, 4),
		req: &pb.SubscribeRequest{Request: &pb.SubscribeRequest_Subscribe{Subscribe: sl}}}
	if sp.stall != "" && sp.stall != "slow" {
		st.gate = &vrt.Gate{}
	}
	return st
}

type userKey struct{}

// ---- world

type world struct {
	c       *cache.Cache
	srv     *subscribe.Server
	streams []*fstream
	held    map[string]map[string]bool // "target|path" -> values ever stored there
	wdone   []bool
	ts      int64
	val     int64
	cur     map[string]int64 // "target|path" -> current value written by the harness
	decN    int64
}

func newWorld(targets []string, opts ...subscribe.Option) *world {
	w := &world{held: map[string]map[string]bool{}, cur: map[string]int64{}, ts: 100, val: 100}
	w.c = cache.New(targets)
	srv, err := subscribe.NewServer(w.c, opts...)
	if err != nil {
		panic(err)
	}
	w.srv = srv
	w.c.SetClient(srv.Update)
	return w
}

func (w *world) noteHeld(target, path string, v int64) {
	k := target + "|" + path
	if w.held[k] == nil {
		w.held[k] = map[string]bool{}
	}
	w.held[k][fmt.Sprint(v)] = true
	w.cur[k] = v
}

// apply performs one writer operation on the real cache.
func (w *world) apply(target string, o wop) {
	w.ts += 10
	switch o.kind {
	case "updf":
		// an update far ahead of the writer's clock (a leaf stamped by the device,
		// not the collector): later deletes with ordinary timestamps spare it
		w.val++
		w.noteHeld(target, okey(o.path), w.val)
		og, el := orig(o.path)
		w.c.GnmiUpdate(&pb.Notification{Timestamp: w.ts + 100000, Prefix: &pb.Path{Target: target, Origin: og}, Update: []*pb.Update{{Path: mkPath(el), Val: ival(w.val)}}})
	case "depr":
		// a leaf whose value travels in the DEPRECATED Update.value field (old
		// devices): stored and relayed verbatim
		w.val++
		og, el := orig(o.path)
		k := target + "|" + okey(o.path)
		if w.held[k] == nil {
			w.held[k] = map[string]bool{}
		}
		w.held[k][fmt.Sprintf("deprecated:\"v%d\"", w.val)] = true
		w.c.GnmiUpdate(&pb.Notification{Timestamp: w.ts, Prefix: &pb.Path{Target: target, Origin: og}, Update: []*pb.Update{{Path: mkPath(el), Value: &pb.Value{Type: pb.Encoding_JSON, Value: []byte(fmt.Sprintf("\"v%d\"", w.val))}}}})
	case "upd", "same":
		v := w.cur[target+"|"+okey(o.path)]
		if o.kind == "upd" || v == 0 {
			w.val++
			v = w.val
		}
		w.noteHeld(target, okey(o.path), v)
		// an origin goes into the PREFIX (where the collector puts it)
		og, el := orig(o.path)
		w.c.GnmiUpdate(&pb.Notification{Timestamp: w.ts, Prefix: &pb.Path{Target: target, Origin: og}, Update: []*pb.Update{{Path: mkPath(el), Val: ival(v)}}})
	case "dec":
		// decimals that differ from one another only beyond float32 resolution
		w.decN++
		digits := int64(16777215) + w.decN // 16777216, 16777217 (the same float32), 16777218, ...
		w.noteHeld(target, okey(o.path), digits)
		og, el := orig(o.path)
		w.c.GnmiUpdate(&pb.Notification{Timestamp: w.ts, Prefix: &pb.Path{Target: target, Origin: og}, Update: []*pb.Update{{Path: mkPath(el), Val: &pb.TypedValue{Value: &pb.TypedValue_DecimalVal{DecimalVal: &pb.Decimal64{Digits: digits, Precision: 0}}}}}})
	case "atomic":
		w.val++
		pre := mkPath(o.path)
		pre.Target = target
		n := &pb.Notification{Timestamp: w.ts, Atomic: true, Prefix: pre, Update: []*pb.Update{{Path: mkPath("m"), Val: ival(w.val)}, {Path: mkPath("n"), Val: ival(w.val)}}}
		k := target + "|" + o.path
		if w.held[k] == nil {
			w.held[k] = map[string]bool{}
		}
		w.held[k][atomicVal(n)] = true
		w.c.GnmiUpdate(n)
	case "del":
		og, el := orig(o.path)
		w.c.GnmiUpdate(&pb.Notification{Timestamp: w.ts, Prefix: &pb.Path{Target: target, Origin: og}, Delete: []*pb.Path{mkPath(el)}})
	case "reset":
		w.c.Reset(target)
	case "remove":
		w.c.Remove(target)
	case "add":
		w.c.Add(target)
	case "sync":
		w.c.Sync(target)
	case "refresh":
		// the collector's periodic metadata refresh (all targets)
		w.c.UpdateMetadata()
	}
}

func refIndex(p *pb.Path) []string {
	var out []string
	if p == nil {
		return out
	}
	if len(p.Elem) == 0 {
		return append(out, p.Element...)
	}
	for _, e := range p.Elem {
		out = append(out, e.Name)
		ks := make([]string, 0, len(e.Key))
		for k := range e.Key {
			ks = append(ks, k)
		}
		sort.Strings(ks)
		for _, k := range ks {
			out = append(out, e.Key[k])
		}
	}
	return out
}

func fullIndex(prefix, path *pb.Path) []string {
	var out []string
	if o := prefix.GetOrigin(); o != "" {
		out = append(out, o)
	}
	out = append(out, refIndex(prefix)...)
	return append(out, refIndex(path)...)
}

func rel(q, p []string) bool {
	n := len(q)
	if len(p) < n {
		n = len(p)
	}
	for i := 0; i < n; i++ {
		if q[i] != "*" && p[i] != "*" && q[i] != p[i] {
			return false
		}
	}
	return true
}

func matches(q, l []string) bool {
	n := len(q)
	if len(l) < n {
		n = len(l)
	}
	for i := 0; i < n; i++ {
		if q[i] != "*" && q[i] != l[i] {
			return false
		}
	}
	if len(q) <= len(l) {
		return true
	}
	return len(q) == len(l)+1 && q[len(q)-1] == "*"
}

func splitKey(k string) []string {
	if k == "" {
		return nil
	}
	return strings.Split(k, "/")
}

func isPrefixOf(p, q []string) bool {
	if len(p) > len(q) {
		return false
	}
	for i := range p {
		if p[i] != q[i] {
			return false
		}
	}
	return true
}

func atomicVal(n *pb.Notification) string {
	var parts []string
	for _, u := range n.Update {
		parts = append(parts, strings.Join(refIndex(u.Path), "/")+"="+fmt.Sprint(u.GetVal().GetIntVal()))
	}
	return "atomic{" + strings.Join(parts, ",") + "}"
}

func valOf(n *pb.Notification) string {
	if len(n.Update) == 0 {
		return ""
	}
	if n.Atomic {
		return atomicVal(n)
	}
	if iv, ok := n.Update[0].GetVal().GetValue().(*pb.TypedValue_IntVal); ok {
		return fmt.Sprint(iv.IntVal)
	}
	if dv, ok := n.Update[0].GetVal().GetValue().(*pb.TypedValue_DecimalVal); ok && dv.DecimalVal.GetPrecision() == 0 {
		return fmt.Sprint(dv.DecimalVal.GetDigits())
	}
	if dv := n.Update[0].GetValue(); dv != nil && n.Update[0].GetVal() == nil { //lint:ignore SA1019 the deprecated field is the point
		return "deprecated:" + string(dv.GetValue())
	}
	return n.Update[0].GetVal().String()
}

// expected returns what Cache.Query selects for the subscription right now:
// "target|path" -> value.
func (w *world) expected(sp subSpec) map[string]string {
	out := map[string]string{}
	for _, p := range sp.paths {
		full, err := gpath.CompletePath(&pb.Path{Origin: sp.origin}, mkPath(p))
		if err != nil {
			continue
		}
		w.c.Query(sp.target, full, func(ip []string, _ *ctree.Leaf, v interface{}) error {
			n := v.(*pb.Notification)
			out[n.GetPrefix().GetTarget()+"|"+strings.Join(ip, "/")] = valOf(n)
			return nil
		})
	}
	return out
}

// replay folds a response log into a replica: "target|path" -> value.
func replay(log []*pb.SubscribeResponse) (map[string]string, string) {
	rep := map[string]string{}
	for i, r := range log {
		n := r.GetUpdate()
		if n == nil {
			continue
		}
		t := n.GetPrefix().GetTarget()
		switch {
		case n.Atomic && len(n.Update) > 0 && len(n.Delete) == 0:
			// an atomic notification replaces the subtree at its prefix as one unit
			idx := fullIndex(n.Prefix, nil)
			for k := range rep {
				kt, kp := k[:strings.Index(k, "|")], k[strings.Index(k, "|")+1:]
				if kt == t && isPrefixOf(idx, splitKey(kp)) {
					delete(rep, k)
				}
			}
			rep[t+"|"+strings.Join(idx, "/")] = atomicVal(n)
		case len(n.Update) == 1 && len(n.Delete) == 0:
			rep[t+"|"+strings.Join(fullIndex(n.Prefix, n.Update[0].Path), "/")] = valOf(n)
		case len(n.Delete) == 1 && len(n.Update) == 0:
			q := fullIndex(n.Prefix, n.Delete[0])
			for k := range rep {
				kt, kp := k[:strings.Index(k, "|")], k[strings.Index(k, "|")+1:]
				if (kt == t || t == "*") && matches(q, splitKey(kp)) {
					delete(rep, k)
				}
			}
		default:
			return rep, fmt.Sprintf("response %d carries %d updates and %d deletes", i, len(n.Update), len(n.Delete))
		}
	}
	return rep, ""
}

func renderMap(m map[string]string) string {
	ks := make([]string, 0, len(m))
	for k := range m {
		ks = append(ks, k)
	}
	sort.Strings(ks)
	var b strings.Builder
	for _, k := range ks {
		fmt.Fprintf(&b, "%s=%s ", k, m[k])
	}
	return b.String()
}

func renderLog(log []*pb.SubscribeResponse) string {
	var b strings.Builder
	for _, r := range log {
		switch {
		case r.GetSyncResponse():
			b.WriteString("SYNC ")
		case r.GetUpdate() != nil:
			n := r.GetUpdate()
			t := n.GetPrefix().GetTarget()
			for _, u := range n.Update {
				fmt.Fprintf(&b, "U(%s|%s=%s", t, strings.Join(fullIndex(n.Prefix, u.Path), "/"), valOf(n))
				if u.Duplicates > 0 {
					fmt.Fprintf(&b, " dup=%d", u.Duplicates)
				}
				b.WriteString(") ")
			}
			for _, d := range n.Delete {
				fmt.Fprintf(&b, "D(%s|%s) ", t, strings.Join(fullIndex(n.Prefix, d), "/"))
			}
		default:
			b.WriteString("? ")
		}
	}
	return b.String()
}

func isMetaKey(k string) bool {
	p := k[strings.Index(k, "|")+1:]
	return p == "meta" || strings.HasPrefix(p, "meta/")
}

// subscribed reports whether a response path belongs to the subscription.
func subscribed(sp subSpec, target string, idx []string) bool {
	if sp.target != "*" && target != sp.target && target != "*" {
		return false
	}
	for _, p := range sp.paths {
		q := splitKey(okey(p))
		if sp.origin != "" {
			q = append([]string{sp.origin}, q...)
		}
		if rel(q, idx) {
			return true
		}
	}
	return false
}

// settle lets every timer that is still armed at quiescence expire (virtual
// time passes while nothing happens) and runs the system to quiescence again.
// No send is in progress at that point, so on correct code no timer is armed
// and this is a no-op; a send time-out left armed by an earlier response
// (for instance one the ACL dropped) ends the call here, where the stream
// oracles see it.
func settle() {
	vrt.Idle()
	for vrt.FireAny() {
		vrt.Idle()
	}
}

func viol(out *xplore.Outcome, class, format string, a ...interface{}) {
	out.Violations = append(out.Violations, xplore.Violation{Class: class, Msg: fmt.Sprintf(format, a...)})
}
