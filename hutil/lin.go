// Package hutil holds helpers shared by harnesses: a brute-force
// linearizability checker and small formatting utilities.
package hutil

import (
	"fmt"
	"sort"
	"strings"
)

// State is an immutable model state.
type State interface {
	Key() string
}

// LOp is one recorded operation (or point event: Inv == Ret).
type LOp struct {
	Inv, Ret int64
	Thread   int
	Name     string
	// Step returns the model states the operation may lead to from s given
	// its recorded result (none = the result is impossible at this point).
	Step func(s State) []State
}

// Linearize reports whether some total order of ops that respects real time
// (a before b whenever a.Ret < b.Inv) and program order is a behaviour of the
// model. Ops that never returned must be given Ret = MaxInt64 by the caller
// if they are to be optional (not supported here: all ops are complete).
func Linearize(ops []LOp, init State) bool {
	n := len(ops)
	if n > 30 {
		panic("hutil.Linearize: history too long")
	}
	seen := map[string]bool{}
	full := uint32(1)<<uint(n) - 1
	var rec func(done uint32, s State) bool
	rec = func(done uint32, s State) bool {
		if done == full {
			return true
		}
		k := fmt.Sprintf("%x|%s", done, s.Key())
		if seen[k] {
			return false
		}
		seen[k] = true
		// minimal return time among pending ops: an op may go next only if it
		// was invoked before every pending op returned.
		var minRet int64 = 1<<62 - 1
		for j := 0; j < n; j++ {
			if done&(1<<uint(j)) == 0 && ops[j].Ret < minRet {
				minRet = ops[j].Ret
			}
		}
		for i := 0; i < n; i++ {
			if done&(1<<uint(i)) != 0 {
				continue
			}
			if ops[i].Inv > minRet {
				continue
			}
			for _, ns := range ops[i].Step(s) {
				if rec(done|1<<uint(i), ns) {
					return true
				}
			}
		}
		return false
	}
	return rec(0, init)
}

// RenderOps prints a history sorted by invocation.
func RenderOps(ops []LOp) string {
	o := append([]LOp{}, ops...)
	sort.Slice(o, func(i, j int) bool { return o[i].Inv < o[j].Inv })
	var b strings.Builder
	for _, x := range o {
		fmt.Fprintf(&b, "[%d,%d]T%d %s  ", x.Inv, x.Ret, x.Thread, x.Name)
	}
	return b.String()
}

// AbortClass maps a vrt abort reason to a violation class.
func AbortClass(aborted, panicMsg string) string {
	switch {
	case panicMsg != "":
		return "panic"
	case strings.HasPrefix(aborted, "deadlock"):
		return "deadlock"
	case strings.HasPrefix(aborted, "steplimit"):
		return "steplimit"
	}
	return "abort"
}
