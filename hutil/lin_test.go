package hutil

import (
	"fmt"
	"testing"

	"github.com/anishathalye/porcupine"
)

// The brute-force checker used by the concurrent harnesses (C06, C10, C11) is
// cross-checked here against porcupine on EVERY history of a small family:
// all interleavings of the call/return events of 2 threads x 2 operations and
// of 3 threads x 1 operation on a two-valued register with a
// compare-and-set, and every assignment of operations and results.

type reg int

func (r reg) Key() string { return fmt.Sprint(int(r)) }

type regOp struct {
	kind string // w, r, cas
	arg  int    // value written / read / cas new value (cas expects 0 -> arg)
	ok   bool   // cas result
}

func (o regOp) step(s int) (bool, int) {
	switch o.kind {
	case "w":
		return true, o.arg
	case "r":
		return s == o.arg, s
	default: // cas(0 -> 1)
		if s == 0 {
			return o.ok, 1
		}
		return !o.ok, s
	}
}

var regAlphabet = []regOp{{"w", 0, false}, {"w", 1, false}, {"r", 0, false}, {"r", 1, false}, {"cas", 1, true}, {"cas", 1, false}}

var regModel = porcupine.Model{
	Init: func() interface{} { return 0 },
	Step: func(state, input, output interface{}) (bool, interface{}) {
		ok, ns := input.(regOp).step(state.(int))
		return ok, ns
	},
}

// interleavings enumerates every order of the call/return events of threads
// with ops[i] operations each; emit receives, per thread and operation, the
// call and return stamps (all distinct).
func interleavings(ops []int, emit func(stamps [][][2]int64)) {
	n := len(ops)
	pos := make([]int, n) // events consumed per thread (2 per op)
	st := make([][][2]int64, n)
	for i := range st {
		st[i] = make([][2]int64, ops[i])
	}
	var rec func(t int64)
	rec = func(t int64) {
		done := true
		for i := 0; i < n; i++ {
			if pos[i] < 2*ops[i] {
				done = false
				o, e := pos[i]/2, pos[i]%2
				st[i][o][e] = t
				pos[i]++
				rec(t + 1)
				pos[i]--
			}
		}
		if done {
			emit(st)
		}
	}
	rec(1)
}

func TestLinearizeAgreesWithPorcupine(t *testing.T) {
	var histories, linearizable int
	for _, shape := range [][]int{{2, 2}, {1, 1, 1}, {2, 1}, {3, 1}} {
		total := 0
		for _, k := range shape {
			total += k
		}
		interleavings(shape, func(st [][][2]int64) {
			// every assignment of alphabet entries to the operations
			idx := make([]int, total)
			for {
				var lops []LOp
				var pops []porcupine.Operation
				j := 0
				for th := range st {
					for o := range st[th] {
						op := regAlphabet[idx[j]]
						j++
						lops = append(lops, LOp{Inv: st[th][o][0], Ret: st[th][o][1], Thread: th, Name: fmt.Sprint(op), Step: func(s State) []State {
							ok, ns := op.step(int(s.(reg)))
							if !ok {
								return nil
							}
							return []State{reg(ns)}
						}})
						pops = append(pops, porcupine.Operation{ClientId: th, Input: op, Call: st[th][o][0], Return: st[th][o][1]})
					}
				}
				got := Linearize(lops, reg(0))
				want := porcupine.CheckOperations(regModel, pops)
				histories++
				if want {
					linearizable++
				}
				if got != want {
					t.Fatalf("Linearize=%v porcupine=%v on %s", got, want, RenderOps(lops))
				}
				// next assignment
				c := 0
				for c < total {
					idx[c]++
					if idx[c] < len(regAlphabet) {
						break
					}
					idx[c] = 0
					c++
				}
				if c == total {
					break
				}
			}
		})
	}
	if linearizable == 0 || linearizable == histories {
		t.Fatalf("vacuous: %d of %d histories linearizable", linearizable, histories)
	}
	t.Logf("%d histories, %d linearizable, verdicts identical", histories, linearizable)
}
