// toy is the self-test subject of seqmc (see seqmc_test.go): two bounded
// counters with a known reachable state count, and - with -bug - a defect that
// needs a specific three-operation history.
package main

import (
	"flag"
	"fmt"

	"github.com/openconfig/gnmi/zzverif/seqmc"
)

var bug = flag.Bool("bug", false, "plant the defect")

const limit = 4

type sys struct {
	a, b   int // "implementation"
	ma, mb int // model
	lastA  bool
}

func (s *sys) Apply(op int) []seqmc.Violation {
	switch op {
	case 0: // incA
		if s.a < limit {
			s.a++
		}
		if s.ma < limit {
			s.ma++
		}
		s.lastA = true
	case 1: // incB
		if s.b < limit {
			s.b++
			// the defect: incB right after incA at a == 2 also bumps a
			if *bug && s.lastA && s.a == 2 {
				s.a++
			}
		}
		if s.mb < limit {
			s.mb++
		}
		s.lastA = false
	case 2: // reset
		s.a, s.b, s.ma, s.mb, s.lastA = 0, 0, 0, 0, false
	}
	if s.a != s.ma || s.b != s.mb {
		return []seqmc.Violation{{Class: "state-vs-model", Msg: fmt.Sprintf("impl (%d,%d) model (%d,%d)", s.a, s.b, s.ma, s.mb)}}
	}
	return nil
}

func (s *sys) Key() string { return fmt.Sprintf("%d,%d,%v", s.a, s.b, s.lastA && *bug) }

type harness struct{}

func (harness) Property() string { return "TOY" }
func (harness) Specs(string) []seqmc.Spec {
	return []seqmc.Spec{
		{Name: "counters", Ops: []string{"incA", "incB", "reset"}, New: func() seqmc.Sys { return &sys{} }, Depth: 20},
		{Name: "enumeration", N: 10, Run: func(i int) (string, bool, []seqmc.Violation) {
			if *bug && i == 7 {
				return fmt.Sprint(i), true, []seqmc.Violation{{Class: "input-7", Msg: "planted"}}
			}
			return fmt.Sprint(i), true, nil
		}},
	}
}

func main() { seqmc.Main(harness{}) }
