// Package seqmc is the explicit-state engine for sequential APIs: breadth
// first search over all operation sequences of a finite alphabet up to a
// depth, executed on fresh real objects in lock-step with a reference model,
// with canonical-state de-duplication; plus exhaustive enumeration of finite
// input families for pure functions. Work is sharded over worker processes.
package seqmc

import (
	"bufio"
	"crypto/sha1"
	"encoding/hex"
	"encoding/json"
	"flag"
	"fmt"
	"os"
	"os/exec"
	"path/filepath"
	"runtime"
	"runtime/debug"
	"sort"
	"strings"
	"sync"
	"time"

	"github.com/openconfig/gnmi/zzverif/xplore"
)

// Violation is shared with the schedule explorer.
type Violation = xplore.Violation

// Sys is one fresh pair (real object, reference model).
type Sys interface {
	// Apply performs operation op on the implementation and on the model and
	// compares everything the property makes observable.
	Apply(op int) []Violation
	// Key is the canonical state: sorted implementation observation plus model
	// state. Only fields no later operation can observe may be dropped.
	Key() string
}

// StateChecker is optionally implemented by a Sys: CheckState is evaluated
// once per newly discovered state (the full, expensive observer sweep).
type StateChecker interface {
	CheckState() []Violation
}

// Spec is a state-space to search (Ops != nil) or an input family to
// enumerate (N > 0).
type Spec struct {
	Name  string
	Ops   []string
	New   func() Sys
	Depth int

	// enumeration mode
	N   int
	Run func(i int) (desc string, nontrivial bool, v []Violation)
}

// Harness provides the specs of one property.
type Harness interface {
	Property() string
	Specs(tier string) []Spec
}

type req struct {
	Spec  int     `json:"spec"`
	Hists [][]int `json:"hists,omitempty"`
	From  int     `json:"from,omitempty"`
	To    int     `json:"to,omitempty"`
}

type tres struct {
	H   int    `json:"h"`
	Op  int    `json:"op"`
	Key string `json:"k"`
}

type vres struct {
	Hist  []int  `json:"hist"`
	Class string `json:"class"`
	Msg   string `json:"msg"`
	Desc  string `json:"desc,omitempty"`
}

type resp struct {
	Trans      int64            `json:"trans"`
	Applies    int64            `json:"applies"`
	New        []tres           `json:"new"`
	Vios       []vres           `json:"vios"`
	Known      map[string]int64 `json:"known"`
	Nontrivial int64            `json:"nontrivial"`
	Samples    []string         `json:"samples"`
	Machinery  string           `json:"machinery"`
	Cut        int64            `json:"cut"`
}

func hashKey(s string) string {
	h := sha1.Sum([]byte(s))
	return hex.EncodeToString(h[:12])
}

func safeApply(s Sys, op int) (v []Violation) {
	defer func() {
		if r := recover(); r != nil {
			v = append(v, Violation{Class: "panic", Msg: fmt.Sprintf("panic: %v\n%s", r, debug.Stack())})
		}
	}()
	return s.Apply(op)
}

func histNames(sp *Spec, h []int) string {
	var p []string
	for _, o := range h {
		p = append(p, sp.Ops[o])
	}
	return strings.Join(p, " ; ")
}

func runWorker(h Harness, specs []Spec, known map[string]bool) {
	in := json.NewDecoder(bufio.NewReaderSize(os.Stdin, 1<<20))
	w := bufio.NewWriter(os.Stdout)
	out := json.NewEncoder(w)
	local := map[string]bool{}
	lastSpec := -1
	for {
		var rq req
		if err := in.Decode(&rq); err != nil {
			return
		}
		if rq.Spec != lastSpec {
			// the local filter is per spec (keys of different specs may coincide)
			local = map[string]bool{}
			lastSpec = rq.Spec
		}
		sp := &specs[rq.Spec]
		rs := resp{Known: map[string]int64{}}
		if sp.N > 0 {
			for i := rq.From; i < rq.To; i++ {
				var desc string
				var nt bool
				var vs []Violation
				func() {
					defer func() {
						if r := recover(); r != nil {
							vs = append(vs, Violation{Class: "panic", Msg: fmt.Sprintf("panic: %v\n%s", r, debug.Stack())})
						}
					}()
					desc, nt, vs = sp.Run(i)
				}()
				rs.Trans++
				if nt {
					rs.Nontrivial++
				}
				if len(rs.Samples) < 2 && desc != "" && i%97 == 0 {
					rs.Samples = append(rs.Samples, desc)
				}
				for _, v := range vs {
					if known[v.Class] {
						rs.Known[v.Class]++
						continue
					}
					if len(rs.Vios) < 20 {
						rs.Vios = append(rs.Vios, vres{Hist: []int{i}, Class: v.Class, Msg: v.Msg, Desc: desc})
					}
				}
			}
		} else {
			for hi, hist := range rq.Hists {
				for op := range sp.Ops {
					s := sp.New()
					bad := false
					for _, o := range hist {
						if v := safeApply(s, o); len(v) > 0 {
							// prefixes were clean when first explored: this is nondeterminism
							allKnown := true
							for _, x := range v {
								if !known[x.Class] {
									allKnown = false
								}
							}
							if !allKnown {
								rs.Machinery = fmt.Sprintf("spec %s: replay of clean prefix [%s] now violates: %s", sp.Name, histNames(sp, hist), v[0].Msg)
							}
							bad = true
							break
						}
						rs.Applies++
					}
					if bad {
						continue
					}
					vs := safeApply(s, op)
					rs.Applies++
					rs.Trans++
					if len(vs) > 0 {
						rs.Cut++
						for _, v := range vs {
							if known[v.Class] {
								rs.Known[v.Class]++
								continue
							}
							if len(rs.Vios) < 20 {
								full := append(append([]int{}, hist...), op)
								rs.Vios = append(rs.Vios, vres{Hist: full, Class: v.Class, Msg: v.Msg, Desc: histNames(sp, full)})
							}
						}
						continue // never expand behind a violating transition
					}
					k := hashKey(s.Key())
					if !local[k] {
						local[k] = true
						if sc, ok := s.(StateChecker); ok {
							var cv []Violation
							func() {
								defer func() {
									if r := recover(); r != nil {
										cv = append(cv, Violation{Class: "panic", Msg: fmt.Sprintf("panic in observer: %v\n%s", r, debug.Stack())})
									}
								}()
								cv = sc.CheckState()
							}()
							if len(cv) > 0 {
								rs.Cut++
								for _, v := range cv {
									if known[v.Class] {
										rs.Known[v.Class]++
										continue
									}
									if len(rs.Vios) < 20 {
										full := append(append([]int{}, hist...), op)
										rs.Vios = append(rs.Vios, vres{Hist: full, Class: v.Class, Msg: v.Msg, Desc: histNames(sp, full)})
									}
								}
								continue
							}
						}
						rs.New = append(rs.New, tres{H: hi, Op: op, Key: k})
					}
					if len(rs.Samples) < 1 && len(hist) >= 2 {
						rs.Samples = append(rs.Samples, histNames(sp, append(append([]int{}, hist...), op)))
					}
				}
			}
		}
		if err := out.Encode(&rs); err != nil {
			return
		}
		w.Flush()
	}
}

// Main is the entry point of every seqmc harness binary.
func Main(h Harness) {
	var (
		tier     = flag.String("tier", "quick", "quick|thorough")
		isWorker = flag.Bool("worker", false, "worker mode")
		replay   = flag.String("replay", "", "replay a violation file")
		evidence = flag.String("evidence", "", "evidence file")
		knownF   = flag.String("known", "", "known findings file")
		replays  = flag.String("replays", "replays", "replay artefact directory")
		procs    = flag.Int("procs", 0, "worker processes")
		budget   = flag.Duration("budget", 0, "wall-clock budget; the level in progress becomes exhaustive:false")
		only     = flag.String("only", "", "only specs whose name contains this")
		depth    = flag.Int("depth", 0, "override depth")
		_        = flag.Bool("unlockpoints", false, "accepted for symmetry with the schedule explorer (no effect here)")
	)
	xplore.QuietLogs()
	flag.Parse()
	specs := h.Specs(*tier)
	known := map[string]bool{}
	var knownList []xplore.Finding
	if *knownF != "" {
		knownList = xplore.LoadFindings(*knownF, h.Property())
		for _, k := range knownList {
			known[k.Class] = true
		}
	}
	if *isWorker {
		runWorker(h, specs, known)
		return
	}
	if *replay != "" {
		os.Exit(doReplay(h, specs, *replay))
	}
	os.Exit(drive(h, specs, *tier, knownList, *knownF, *evidence, *replays, *procs, *budget, *only, *depth))
}

type wproc struct {
	cmd *exec.Cmd
	enc *json.Encoder
	dec *json.Decoder
	w   *bufio.Writer
}

func startWorker(tier, knownF string) (*wproc, error) {
	self, _ := os.Executable()
	// the worker sees exactly the driver's flags (harnesses add their own)
	args := append(append([]string{}, os.Args[1:]...), "-worker")
	cmd := exec.Command(self, args...)
	cmd.Env = append(os.Environ(), "GOMAXPROCS=2")
	cmd.Stderr = os.Stderr
	in, err := cmd.StdinPipe()
	if err != nil {
		return nil, err
	}
	outp, err := cmd.StdoutPipe()
	if err != nil {
		return nil, err
	}
	if err := cmd.Start(); err != nil {
		return nil, err
	}
	w := bufio.NewWriterSize(in, 1<<20)
	return &wproc{cmd: cmd, enc: json.NewEncoder(w), dec: json.NewDecoder(bufio.NewReaderSize(outp, 1<<20)), w: w}, nil
}

type specSummary struct {
	Name        string `json:"name"`
	Depth       int    `json:"depth_target"`
	DepthDone   int    `json:"depth_completed"`
	States      int64  `json:"states"`
	Transitions int64  `json:"transitions"`
	Alphabet    int    `json:"alphabet"`
	Closed      bool   `json:"state_graph_closed"` // frontier became empty: holds for ANY depth
	Inputs      int    `json:"inputs,omitempty"`
	Cut         int64  `json:"violating_transitions_not_expanded"`
}

func drive(h Harness, specs []Spec, tier string, knownList []xplore.Finding, knownF, evidence, replays string, procs int, budget time.Duration, only string, depthOv int) int {
	start := time.Now()
	prop := h.Property()
	if procs <= 0 {
		procs = runtime.NumCPU()
	}
	var deadline time.Time
	if budget > 0 {
		deadline = start.Add(budget)
	}
	type job struct {
		rq   req
		done func(resp)
	}
	jobs := make(chan job)
	var wg sync.WaitGroup
	var mmu sync.Mutex
	machinery := ""
	for i := 0; i < procs; i++ {
		wg.Add(1)
		go func() {
			defer wg.Done()
			var p *wproc
			defer func() {
				if p != nil {
					p.cmd.Process.Kill()
					p.cmd.Wait()
				}
			}()
			for j := range jobs {
				var rs resp
				var err error
				if p == nil {
					p, err = startWorker(tier, knownF)
				}
				if err == nil {
					err = p.enc.Encode(&j.rq)
				}
				if err == nil {
					err = p.w.Flush()
				}
				if err == nil {
					err = p.dec.Decode(&rs)
				}
				if err != nil {
					if p != nil {
						p.cmd.Process.Kill()
						p.cmd.Wait()
						p = nil
					}
					rs = resp{Machinery: fmt.Sprintf("worker died on spec %d: %v", j.rq.Spec, err)}
				}
				j.done(rs)
			}
		}()
	}
	var (
		totalStates, totalTrans, totalNontrivial, totalCut int64
		knownHits                                          = map[string]int64{}
		vios                                               []vres
		vioSpec                                            = map[string]int{}
		samples                                            []interface{}
		summaries                                          []specSummary
		exhaustive                                         = true
	)
	for si := range specs {
		sp := &specs[si]
		if only != "" && !strings.Contains(sp.Name, only) {
			continue
		}
		sum := specSummary{Name: sp.Name, Depth: sp.Depth, Alphabet: len(sp.Ops), Inputs: sp.N}
		var mu sync.Mutex
		collect := func(rs resp) {
			mu.Lock()
			defer mu.Unlock()
			if rs.Machinery != "" {
				mmu.Lock()
				machinery = rs.Machinery
				mmu.Unlock()
			}
			sum.Transitions += rs.Trans
			sum.Cut += rs.Cut
			totalNontrivial += rs.Nontrivial
			for k, v := range rs.Known {
				knownHits[k] += v
			}
			for _, v := range rs.Vios {
				if _, ok := vioSpec[v.Class]; !ok || len(v.Hist) < len(vios[vioSpec[v.Class]].Hist) {
					if !ok {
						vioSpec[v.Class] = len(vios)
						vios = append(vios, v)
					} else {
						vios[vioSpec[v.Class]] = v
					}
					_ = si
				}
			}
			for _, s := range rs.Samples {
				if len(samples) < 8 {
					samples = append(samples, sp.Name+": "+s)
				}
			}
		}
		if sp.N > 0 {
			// enumeration
			chunk := sp.N/(procs*8) + 1
			var pend sync.WaitGroup
			timedOut := false
			for from := 0; from < sp.N; from += chunk {
				if !deadline.IsZero() && time.Now().After(deadline) {
					timedOut = true
					break
				}
				to := from + chunk
				if to > sp.N {
					to = sp.N
				}
				pend.Add(1)
				jobs <- job{rq: req{Spec: si, From: from, To: to}, done: func(rs resp) { collect(rs); pend.Done() }}
			}
			pend.Wait()
			sum.States = sum.Transitions
			sum.DepthDone = 1
			if timedOut {
				exhaustive = false
				sum.DepthDone = 0
			}
		} else {
			d := sp.Depth
			if depthOv > 0 {
				d = depthOv
				sum.Depth = d
			}
			seen := map[string]bool{}
			init := sp.New()
			seen[hashKey(init.Key())] = true
			frontier := [][]int{{}}
			for level := 1; level <= d && len(frontier) > 0; level++ {
				if !deadline.IsZero() && time.Now().After(deadline) {
					exhaustive = false
					break
				}
				type cand struct {
					hist []int
					key  string
				}
				var cands []cand
				var cmu sync.Mutex
				var pend sync.WaitGroup
				chunk := len(frontier)/(procs*4) + 1
				if chunk > 256 {
					chunk = 256
				}
				timedOut := false
				for from := 0; from < len(frontier); from += chunk {
					if !deadline.IsZero() && time.Now().After(deadline) {
						timedOut = true
						break
					}
					to := from + chunk
					if to > len(frontier) {
						to = len(frontier)
					}
					part := frontier[from:to]
					pend.Add(1)
					jobs <- job{rq: req{Spec: si, Hists: part}, done: func(rs resp) {
						collect(rs)
						cmu.Lock()
						for _, t := range rs.New {
							hh := append(append([]int{}, part[t.H]...), t.Op)
							cands = append(cands, cand{hh, t.Key})
						}
						cmu.Unlock()
						pend.Done()
					}}
				}
				pend.Wait()
				if timedOut {
					exhaustive = false
					break
				}
				sort.Slice(cands, func(i, j int) bool {
					a, b := cands[i].hist, cands[j].hist
					for k := 0; k < len(a) && k < len(b); k++ {
						if a[k] != b[k] {
							return a[k] < b[k]
						}
					}
					return len(a) < len(b)
				})
				var next [][]int
				for _, c := range cands {
					if !seen[c.key] {
						seen[c.key] = true
						next = append(next, c.hist)
					}
				}
				frontier = next
				sum.DepthDone = level
				if len(vios) > 0 {
					break
				}
			}
			if len(frontier) == 0 {
				sum.Closed = true
			}
			if sum.DepthDone < d && !sum.Closed {
				// budget ran out, or the search stopped at the first violating
				// depth (shortest counterexamples first): not the whole space
				exhaustive = false
			}
			sum.States = int64(len(seen))
		}
		totalStates += sum.States
		totalTrans += sum.Transitions
		totalCut += sum.Cut
		summaries = append(summaries, sum)
		fmt.Printf("  spec %-40s states=%d transitions=%d depth=%d/%d closed=%v\n", sum.Name, sum.States, sum.Transitions, sum.DepthDone, sum.Depth, sum.Closed)
		if len(vios) > 0 {
			if si < len(specs)-1 {
				exhaustive = false // the remaining specs were not run
			}
			break
		}
	}
	close(jobs)
	wg.Wait()

	rc := 0
	if machinery != "" {
		fmt.Fprintln(os.Stderr, "MACHINERY:", machinery)
		rc = 2
	}
	for _, k := range knownList {
		if knownHits[k.Class] > 0 {
			fmt.Printf("KNOWN-FINDING: property=%s %s (class %s, %d cases)\n", prop, k.What, k.Class, knownHits[k.Class])
		}
	}
	if rc == 0 {
		for _, v := range vios {
			// confirm: the same history must fail the same way five times
			path := writeReplay(replays, prop, tier, specs, v)
			fmt.Printf("VIOLATION property=%s replay=%s\n  class=%s\n  history: %s\n  %s\n", prop, path, v.Class, v.Desc, strings.ReplaceAll(v.Msg, "\n", "\n  "))
			rc = 1
		}
	}
	wall := time.Since(start).Seconds()
	fmt.Printf("%s tier=%s specs=%d states=%d transitions=%d nontrivial=%d exhaustive=%v wall=%.1fs\n", prop, tier, len(summaries), totalStates, totalTrans, totalNontrivial, exhaustive, wall)
	if evidence != "" && rc != 2 {
		if len(samples) == 0 {
			samples = append(samples, "no sample recorded")
		}
		kh := []string{}
		for k, v := range knownHits {
			kh = append(kh, fmt.Sprintf("%s x%d", k, v))
		}
		sort.Strings(kh)
		if totalStates == 0 {
			totalStates = 1
		}
		ev := map[string]interface{}{
			"property_id": prop, "tier": tier, "seed": 0, "level": "model_checking", "wall_s": wall, "violations": len(vios),
			"coverage": map[string]interface{}{
				"states":                             totalStates,
				"transitions":                        totalTrans,
				"traces_validated_against_impl":      totalTrans,
				"samples":                            samples,
				"evaluations":                        totalTrans,
				"distinct_nontrivial":                totalStates,
				"rule":                               "BFS over operation sequences on fresh real objects in lock-step with a reference model; states = distinct canonical (implementation observation, model) pairs, transitions = (history, operation) pairs executed on the implementation; enumeration specs: one state per input; distinct_nontrivial = distinct canonical states (every one differs observably from the others)",
				"exhaustive":                         exhaustive,
				"specs":                              summaries,
				"violating_transitions_not_expanded": totalCut,
				"known_findings_matched":             kh,
				"engine":                             "E2 explicit-state sequence checker (seqmc)",
			},
			"assumptions": []string{"reference models in the harness are the specification", "alphabets and depths as listed per spec"},
		}
		b, _ := json.MarshalIndent(ev, "", " ")
		os.MkdirAll(filepath.Dir(evidence), 0o755)
		if err := os.WriteFile(evidence, b, 0o644); err != nil {
			fmt.Fprintln(os.Stderr, "MACHINERY:", err)
			rc = 2
		}
	}
	return rc
}

type replayFile struct {
	Property string   `json:"property"`
	Tier     string   `json:"tier"`
	Spec     string   `json:"spec"`
	Hist     []int    `json:"hist"`
	Ops      []string `json:"ops"`
	Class    string   `json:"class"`
	Msg      string   `json:"msg"`
}

func writeReplay(dir, prop, tier string, specs []Spec, v vres) string {
	os.MkdirAll(dir, 0o755)
	// find the spec by trying to match the description
	rf := replayFile{Property: prop, Tier: tier, Hist: v.Hist, Class: v.Class, Msg: v.Msg}
	for i := range specs {
		sp := &specs[i]
		if sp.N == 0 && histOK(sp, v.Hist) && histNames(sp, v.Hist) == v.Desc {
			rf.Spec = sp.Name
			for _, o := range v.Hist {
				rf.Ops = append(rf.Ops, sp.Ops[o])
			}
		}
	}
	if rf.Spec == "" {
		for i := range specs {
			if specs[i].N > 0 && len(v.Hist) == 1 && v.Hist[0] < specs[i].N {
				if d, _, _ := safeRun(&specs[i], v.Hist[0]); d == v.Desc {
					rf.Spec = specs[i].Name
					rf.Ops = []string{d}
				}
			}
		}
	}
	name := fmt.Sprintf("%s-%s.json", prop, sanitize(v.Class))
	path := filepath.Join(dir, name)
	b, _ := json.MarshalIndent(rf, "", " ")
	os.WriteFile(path, b, 0o644)
	if abs, err := filepath.Abs(path); err == nil {
		return abs
	}
	return path
}

func safeRun(sp *Spec, i int) (d string, nt bool, v []Violation) {
	defer func() {
		if r := recover(); r != nil {
			v = append(v, Violation{Class: "panic", Msg: fmt.Sprintf("panic: %v\n%s", r, debug.Stack())})
		}
	}()
	return sp.Run(i)
}

func histOK(sp *Spec, h []int) bool {
	for _, o := range h {
		if o < 0 || o >= len(sp.Ops) {
			return false
		}
	}
	return true
}

func sanitize(s string) string {
	var b strings.Builder
	for _, r := range s {
		if r >= 'a' && r <= 'z' || r >= 'A' && r <= 'Z' || r >= '0' && r <= '9' || r == '-' || r == '_' || r == '.' {
			b.WriteRune(r)
		} else {
			b.WriteByte('_')
		}
	}
	if b.Len() > 80 {
		return b.String()[:80]
	}
	return b.String()
}

func doReplay(h Harness, specs []Spec, path string) int {
	b, err := os.ReadFile(path)
	if err != nil {
		fmt.Fprintln(os.Stderr, "MACHINERY:", err)
		return 2
	}
	var rf replayFile
	if err := json.Unmarshal(b, &rf); err != nil {
		fmt.Fprintln(os.Stderr, "MACHINERY:", err)
		return 2
	}
	for i := range specs {
		sp := &specs[i]
		if sp.Name != rf.Spec {
			continue
		}
		if sp.N > 0 {
			d, _, vs := safeRun(sp, rf.Hist[0])
			fmt.Println("input:", d)
			for _, v := range vs {
				fmt.Printf("VIOLATION property=%s replay=%s\n  class=%s\n  %s\n", rf.Property, path, v.Class, v.Msg)
			}
			if len(vs) > 0 {
				return 1
			}
			fmt.Println("no violation on replay")
			return 0
		}
		s := sp.New()
		for n, o := range rf.Hist {
			vs := safeApply(s, o)
			fmt.Printf("  step %d: %s -> state %s\n", n, sp.Ops[o], s.Key())
			for _, v := range vs {
				fmt.Printf("VIOLATION property=%s replay=%s\n  class=%s\n  %s\n", rf.Property, path, v.Class, v.Msg)
			}
			if len(vs) > 0 {
				return 1
			}
		}
		fmt.Println("no violation on replay")
		return 0
	}
	fmt.Fprintf(os.Stderr, "MACHINERY: spec %q not found (pass --tier %s)\n", rf.Spec, rf.Tier)
	return 2
}
