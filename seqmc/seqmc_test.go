package seqmc

import (
	"encoding/json"
	"os"
	"os/exec"
	"path/filepath"
	"strings"
	"testing"
)

// The explicit-state engine is exercised end to end (driver, worker
// processes, evidence, replay files) on a toy with a known state graph: two
// counters 0..4 reachable in every combination = 25 states, closed; with the
// planted defect the shortest violating history has 3 operations.
func TestToyStateGraph(t *testing.T) {
	dir := t.TempDir()
	bin := filepath.Join(dir, "toy")
	if out, err := exec.Command("go", "build", "-o", bin, "./internal/toy").CombinedOutput(); err != nil {
		t.Fatalf("build: %v\n%s", err, out)
	}
	run := func(args ...string) (int, string, map[string]interface{}) {
		ev := filepath.Join(dir, "ev.json")
		os.Remove(ev)
		cmd := exec.Command(bin, append([]string{"-evidence", ev, "-replays", filepath.Join(dir, "replays"), "-procs", "3"}, args...)...)
		out, err := cmd.CombinedOutput()
		code := 0
		if ee, ok := err.(*exec.ExitError); ok {
			code = ee.ExitCode()
		} else if err != nil {
			t.Fatalf("run: %v", err)
		}
		var m map[string]interface{}
		if b, err := os.ReadFile(ev); err == nil {
			json.Unmarshal(b, &m)
		}
		return code, string(out), m
	}
	code, out, ev := run()
	if code != 0 || strings.Contains(out, "VIOLATION") {
		t.Fatalf("clean toy: exit %d\n%s", code, out)
	}
	if !strings.Contains(out, "states=25 ") || !strings.Contains(out, "closed=true") {
		t.Errorf("clean toy: want 25 states and a closed graph:\n%s", out)
	}
	if cov, _ := ev["coverage"].(map[string]interface{}); cov == nil || cov["exhaustive"] != true || cov["states"] != float64(35) {
		t.Errorf("evidence: %v", ev)
	}
	code, out, _ = run("-bug")
	if code != 1 || !strings.Contains(out, "VIOLATION property=TOY") {
		t.Fatalf("buggy toy: exit %d\n%s", code, out)
	}
	// shortest counterexample first; the search stops at the first violating
	// depth and says so (exhaustive=false)
	for _, want := range []string{"state-vs-model", "incA ; incA ; incB", "depth=3/20", "exhaustive=false"} {
		if !strings.Contains(out, want) {
			t.Errorf("buggy toy: output lacks %q:\n%s", want, out)
		}
	}
	// enumeration specs: the one violating input is reported by its class
	code, eout, _ := run("-bug", "-only", "enumeration")
	if code != 1 || !strings.Contains(eout, "class=input-7") {
		t.Errorf("buggy enumeration: exit %d\n%s", code, eout)
	}
	// the replay file reproduces the violation without the search
	m := regexpFind(out, "replay=", "\n")
	if m == "" {
		t.Fatalf("no replay path in\n%s", out)
	}
	rc := exec.Command(bin, "-bug", "-replay", strings.TrimSpace(m))
	rout, err := rc.CombinedOutput()
	if ee, ok := err.(*exec.ExitError); !ok || ee.ExitCode() != 1 {
		t.Errorf("replay of %s: want exit 1, got %v\n%s", m, err, rout)
	}
	rc = exec.Command(bin, "-replay", strings.TrimSpace(m))
	if rout, err := rc.CombinedOutput(); err != nil {
		t.Errorf("replay on the clean toy must pass: %v\n%s", err, rout)
	}
}

func regexpFind(s, after, until string) string {
	i := strings.Index(s, after)
	if i < 0 {
		return ""
	}
	s = s[i+len(after):]
	if j := strings.Index(s, until); j >= 0 {
		s = s[:j]
	}
	return s
}
