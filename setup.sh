#!/bin/sh
# Builds the framework offline from files on disk and warms the Go build cache.
set -e
cd "$(dirname "$0")"
export GOFLAGS=-mod=mod GOPROXY=off GOSUMDB=off GOTOOLCHAIN=local
mkdir -p bin evidence replays
go build -o bin/vinstr ./cmd/vinstr
go vet ./vrt ./xplore >/dev/null 2>&1 || true
echo "setup ok"
