import json, os, glob, subprocess, sys
wave = sys.argv[1]
props = [json.loads(l) for l in open('/verif/properties.jsonl')]
for p in props:
    pid = p['id']
    tag = pid + wave
    wt = '/tmp/wt-' + tag
    out = '/tmp/seed-out/' + tag
    os.makedirs(out, exist_ok=True)
    if not os.path.exists(wt):
        subprocess.check_call(['git','-C','/repo','worktree','add','--detach','-q',wt,'HEAD'])
    earlier = []
    for d in sorted(glob.glob('/verif/seeded/%s-*' % pid)):
        m = json.load(open(d + '/meta.json'))
        files = subprocess.run("grep '^+++ ' %s/patch.diff | sed 's#+++ b/##'" % d, shell=True, capture_output=True, text=True).stdout.split()
        earlier.append("- (%s) %s" % (", ".join(files), m['needs_to_manifest']))
    over = p['quantifier']['over']
    focus = ''
    if wave >= 'w11':
        if 'schedules' in over or 'fault_sequences' in over:
            focus = "FOCUS FOR THIS ATTEMPT: the property quantifies over schedules / fault timings. Prefer a change whose breakage needs a particular INTERLEAVING of goroutines or a fault/cancellation/time-out landing at a particular moment (a narrowed or split critical section, a check-then-act window, a flag read outside its lock, a wake-up that can be lost, a goroutine that outlives its owner, a timer that is stopped or reset at the wrong moment) - something a sequential test of the same operations would never show. Your demonstration may force the interleaving with hooks, callbacks or channels that exist in the code or in your test's fakes."
        else:
            focus = "FOCUS FOR THIS ATTEMPT: prefer a change that needs a MULTI-STEP history (three or more operations in a particular order, e.g. state left behind by an earlier rejected / no-op / repeated operation), or two code sites that each look fine alone but disagree, or an object that is reused or shared between calls (aliasing, caching, memoisation keyed too coarsely) - rather than a single unusual input."
    if wave >= 'w12':
        if 'schedules' in over or 'fault_sequences' in over:
            focus = "FOCUS FOR THIS ATTEMPT: prefer one of these categories, whichever fits the code best: (a) a deadlock, lost wake-up or goroutine that never ends which needs a specific interleaving of THREE parties (e.g. two clients and a writer, a closer and a reconnect and a timer); (b) an error / cancellation / time-out path that forgets to undo something (a registration, a reference count, a flag, a timer) so that the NEXT operation misbehaves; (c) a cache or memo introduced as an optimisation that a concurrent or later mutation does not invalidate. The breakage must need the specific interleaving or fault - a sequential happy-path test of the same operations must not show it."
        else:
            focus = "FOCUS FOR THIS ATTEMPT: prefer one of these categories, whichever fits the code best: (a) a cache / memo / fast path filled by a READ-ONLY operation (query, walk, lookup, conversion, validation) that a later mutation does not invalidate, so that the breakage needs read -> mutate -> read; (b) an error or rejection path that leaves partial state behind (half-applied update, counter already bumped, entry already inserted) which only a LATER operation exposes; (c) a boundary between two representations of the same thing (path encodings, origin in prefix vs path, typed value arms, map vs list) where two code sites normalise differently."
    if wave >= 'w13':
        focus = "FOCUS FOR THIS ATTEMPT: prefer a change whose breakage needs a NON-DEFAULT option, configuration field or mode to be in use together with an otherwise ordinary operation sequence - an Option passed to a constructor (cache, subscribe server, manager, client), a field of a Config / Query / Target / SubscriptionList / fake-target configuration that is usually left at its zero value, a particular encoding or subscription mode, a flag of a command - so that everything behaves correctly with the defaults and in the existing tests. First list the options/fields/modes the anchored code supports and pick one that the existing tests barely exercise. The change itself should still be small and plausible."
    if wave >= 'w14':
        focus = "FOCUS FOR THIS ATTEMPT: look at the list of earlier attempts below and note which FILES they touched. Put your change into a file NONE of them touched - a helper or glue package that the anchored code depends on or that wires it into the running system (for example, depending on the property: path/, value/, errlist/, metadata/, latency/, coalesce/, match/, ctree/, connection/, target/, collector/, cmd/gnmi_collector/, cmd/gnmi_cli/, cli/, client/ (cache.go, query.go, notification handling), client/gnmi/, testing/fake/gnmi/ (agent, client), proto helpers) - so that the property breaks through a dependency or through the wiring rather than at the anchored site itself. Any mechanism is fine (interleaving, multi-step history, unusual input, option), as long as ordinary use and the existing tests do not expose it."
    if wave >= 'w15':
        if 'schedules' in over or 'fault_sequences' in over:
            focus = "FOCUS FOR THIS ATTEMPT: the property quantifies over schedules / fault timings. Produce a change whose breakage needs a particular INTERLEAVING of goroutines or a fault / cancellation / time-out landing at a particular moment - something a sequential test of the same operations would never show - and that involves a code path, lock, channel, timer or callback that NONE of the earlier attempts listed below involved (read them carefully; many windows have been used already: pick an unused one, e.g. a different pair of racing operations, a different error path, a second instance of an object, a re-entrant callback, shutdown while starting up). Your demonstration may force the interleaving with hooks, callbacks or channels that exist in the code or in your test's fakes."
        else:
            focus = "FOCUS FOR THIS ATTEMPT: produce a change that needs a history of FOUR OR MORE operations to manifest (state left behind by an earlier rejected / no-op / repeated / undone operation, a counter or flag that only goes wrong on the second cycle, something that works once and fails after remove-and-re-add, reset-and-refill, or close-and-reopen), in a mechanism NONE of the earlier attempts listed below used. Read them carefully and pick an unused one."
    if wave >= 'w16':
        focus = "FOCUS FOR THIS ATTEMPT: produce a change whose breakage needs a SIZE or COUNT threshold to be crossed - it behaves correctly with one or two of something and goes wrong only with THREE TO SIX of them (subscribers, targets, paths in one subscription, updates in one notification, list keys, path elements, queued items, pending duplicates, reconnect attempts, holders of one connection, values in a generator, elements past a preallocated capacity, a counter reaching a small constant, the third repetition of a cycle) - for example a slice that aliases once it grows past its initial capacity, an index that is off by one only from the third element on, a fast path for 'small' inputs whose boundary is wrong, a fixed-size buffer or channel capacity, a loop that stops one short. Keep the threshold SMALL (3 to 6) so that a short test can cross it, and use a mechanism NONE of the earlier attempts listed below used."
    if wave >= 'w17':
        focus = "FOCUS FOR THIS ATTEMPT: produce a change whose breakage needs the CONJUNCTION of TWO DIFFERENT kinds of condition at once, each of which alone leaves the behaviour correct: pick two from (1) a non-default option / configuration field / mode / encoding in use, (2) a size or count of three to six of something (subscribers, targets, paths, updates in one notification, keys, queued items, attempts, holders), (3) a particular interleaving of goroutines or a fault / cancellation / time-out at a particular moment, (4) a history of four or more operations (remove-and-re-add, reset-and-refill, close-and-reopen, a rejected operation earlier), (5) an unusual but legal input shape (empty element, wildcard in an odd position, deprecated encoding, origin, atomic, zero or extreme timestamp). Say in your notes which two you combined and show in your demonstration that each one alone does NOT expose the change. Use a mechanism NONE of the earlier attempts listed below used."
    prop_text = json.dumps({k: p[k] for k in ('id','title','statement','quantifier','why_tests_cant','anchors') if k in p}, indent=1)
    txt = f"""You are helping to evaluate a verification framework for the Go repository openconfig/gnmi (reference gNMI implementation: client library, CLI, caching collector with a timestamped path-tree cache and a Subscribe server). You have your OWN scratch git worktree of the repository at {wt} (a detached checkout of the current HEAD). Work ONLY inside {wt} and write your results to {out}/ . Never touch /repo or /verif and do not read anything under /verif.

Environment: no network. In every shell call first run: export GOFLAGS=-mod=mod GOPROXY=off GOSUMDB=off GOTOOLCHAIN=local . NEVER use `git stash` (the stash is shared by every worktree of the repository and other people work in sibling worktrees): to run something without your change use `git diff > /tmp/seed-out/.../wip.diff; git checkout -- .; ...; git apply wip.diff`. If a go command modifies go.sum in the worktree, run `git checkout go.sum` before producing the patch.

Here is ONE semantic property that the repository is supposed to satisfy (JSON record):

{prop_text}

YOUR TASK: write a realistic change to the non-test Go source of openconfig/gnmi (in your worktree) that BREAKS this property, while (1) the repository still compiles (`go build ./...`), (2) the complete existing test suite still passes, unedited (`go test -vet=off -count=1 ./...` - run it; if a test fails only sporadically also on the unchanged tree, e.g. subscribe.TestGNMICoalescedDupCount under load, re-run it to make sure it is not your change), and (3) you can demonstrate the breakage with a NEW test file (or small program) that FAILS with your change and PASSES without it (run both ways; it must be deterministic or close to it: if it needs an interleaving, force it with channels/hooks that exist in the code, callbacks, or by looping enough that it fails reliably; say how reliably).

The change must look like something a developer could plausibly commit (an optimisation, a refactoring, a 'simplification', a caching shortcut, a narrowed lock, a reordered pair of statements, an off-by-one in a boundary, a forgotten case of a new code path, two sites that each look fine alone but disagree), NOT sabotage with an obvious marker. It must need something SPECIFIC to manifest - a particular interleaving of goroutines, a fault/error at a particular point, a multi-step sequence of operations, an unusual-but-legal input shape or configuration, a particular relation between timestamps/values, reuse of one object twice - rather than something ordinary use would expose at once. Subtle is better than blatant; a change that needs the conjunction of two conditions is better still. Do not edit, delete or skip existing tests. Do not add build tags. Keep the change small (typically 1-30 changed lines).

{focus}

Earlier independent attempts on this same property already produced the changes below (file touched, and what the breakage needs in order to manifest). Produce something DIFFERENT: a different mechanism AND a different code site or clause of the property, ideally a different category of defect and an input/schedule dimension none of them used:
{chr(10).join(earlier) if earlier else '- (none yet)'}

Deliverables, all in {out}/ :
- patch1.diff : `git -C {wt} diff` of your change to the non-test sources only (must apply with `git apply` to a clean checkout of HEAD; do not include the demonstration test in it).
- demo1_test.go : the demonstration, as a Go test file. Its FIRST line must be a comment of exactly this form:  // Package directory: <dir>/   Run: go test -count=1 -run '<TestName>' ./<dir>/     (it will be copied into that package directory as zz_demo1_test.go and run with exactly that command from the repository root; it may be in the package itself (internal test) or in <pkg>_test). It must not depend on files outside the repository.
- notes1.md : 10-30 lines: what the change is, why it looks plausible, which clause of the property it breaks, exactly what is needed for it to manifest (inputs / sequence / interleaving / fault), why the existing tests do not notice, and the outputs you observed (suite pass with change; demo fail with / pass without).

When you are done: make sure {wt} is left with `git checkout -- . && git clean -fdq` applied (clean), and reply with a SHORT summary (5-10 lines): files touched, mechanism, what it needs to manifest, and confirmation of the three runs. If after a serious effort you cannot find such a change, say so and explain why instead of delivering a weak one.
"""
    open('/tmp/seedprompts/%s.txt' % tag, 'w').write(txt)
print('ok')
