#!/usr/bin/env python3
"""Regenerates /verif/MANIFEST.json from tools/claims.json (+ validates against the schema)."""
import json, os, sys
V = os.path.dirname(os.path.dirname(os.path.abspath(__file__)))
claims = json.load(open(os.path.join(V, "tools", "claims.json")))
props = [json.loads(l)["id"] for l in open(os.path.join(V, "properties.jsonl"))]
checks, na = [], []
for pid in props:
    c = claims.get(pid)
    if not c or c.get("na"):
        na.append({"property_id": pid, "reason": (c or {}).get("na", "check not built yet in this revision of /verif (planned, see DESIGN.md section 6)")})
        continue
    checks.append({
        "property_id": pid,
        "quick_cmd": "./check %s --tier quick" % pid,
        "thorough_cmd": "./check %s --tier thorough" % pid,
        "evidence_file": "/verif/evidence/%s.json" % pid,
        "replay_cmd_template": "./check %s --replay {path}" % pid,
        "engine": c["engine"],
        "level_claimed": {"category": "model_checking", "text": c["text"], "design_ref": c.get("design_ref", "DESIGN.md section 6, " + pid)},
        "level_note": c["note"],
        "technique": c["technique"],
    })
m = {
    "version": 1,
    "setup_cmd": "cd /verif && ./setup.sh",
    "hooks": {
        "guard": "verif",
        "enable": "no source hooks are committed to /repo: every check rebuilds the packages under test from /repo's current working tree through `go build -overlay` with the synchronisation operations rewritten by cmd/vinstr (see DESIGN.md 2.1); the guard name is reserved and unused",
        "baseline_off_cmd": "cd /repo && GOFLAGS=-mod=mod go test -json -vet=off -count=1 -timeout 25m ./...",
        "source_commits": [],
        "add_only": True,
    },
    "engines": [
        {"name": "E1-xplore", "path": "/verif/vrt /verif/xplore /verif/cmd/vinstr", "serves_properties": [p for p in props if claims.get(p, {}).get("engine", "").startswith("E1")], "kind_free_text": "stateless deviation-bounded DFS over schedules / environment answers of the real code under a cooperative scheduler (own implementation)"},
        {"name": "E2-seqmc", "path": "/verif/seqmc", "serves_properties": [p for p in props if "E2" in claims.get(p, {}).get("engine", "")], "kind_free_text": "explicit-state BFS over operation sequences on fresh real objects in lock-step with a Go reference model; exhaustive input enumeration for pure functions"},
    ],
    "checks": checks,
    "not_applicable": na,
    "notes": "All checks: ./check <ID> --tier quick|thorough. Exit 0 held / 1 VIOLATION / 2 machinery error. known_findings.jsonl lists recorded findings and fixed defects.",
}
json.dump(m, open(os.path.join(V, "MANIFEST.json"), "w"), indent=1)
try:
    import jsonschema
    jsonschema.validate(m, json.load(open("/root/.vp/MANIFEST.schema.json")))
    print("MANIFEST.json valid: %d checks, %d not_applicable" % (len(checks), len(na)))
except ImportError:
    print("jsonschema not available; written without validation")
