#!/bin/bash
# seedcheck.sh <ID> <n> [check-ids...]  - verifies a sub-agent's seeded change n for property ID
# in its scratch worktree, then runs the given checks (default: ID) against /repo with the
# change applied, and always restores /repo.
set -u
ID=$1; N=$2; shift 2
CHECKS=${@:-$ID}
export GOFLAGS=-mod=mod GOPROXY=off GOSUMDB=off GOTOOLCHAIN=local
OUT=/tmp/seed-out/$ID; WT=/tmp/wt-$ID
P=$OUT/patch$N.diff; D=$OUT/demo${N}_test.go
[ -f "$P" ] || { echo "no patch $P"; exit 2; }
cd $WT && git checkout -q -- . && git clean -fdq
RUNCMD=$(head -15 $D | grep -m1 -oE "go test[^\`]*" | sed -E 's/ *\*\/ *$//')
PKGDIR=$(echo "$RUNCMD" | grep -oE "\./[A-Za-z0-9_/]+" | tail -1 | sed 's#^\./##; s#/\.\.\.$##; s#/$##')
echo "== demo pkg=$PKGDIR cmd=$RUNCMD"
cp $D $WT/$PKGDIR/zz_demo${N}_test.go
echo "-- demo on CLEAN tree (expect pass)"; (cd $WT && timeout 600 bash -c "$RUNCMD" 2>&1 | tail -3)
git -C $WT apply $P || { echo "PATCH DOES NOT APPLY"; exit 2; }
echo "-- build"; (cd $WT && go build ./... 2>&1 | tail -3)
TOUCHED=$(git -C $WT diff --name-only | grep '\.go$' | xargs -n1 dirname | sort -u | sed 's#^#./#' | tr '\n' ' ')
echo "-- demo WITH change (expect fail)"; (cd $WT && timeout 600 bash -c "$RUNCMD" 2>&1 | tail -4)
rm -f $WT/$PKGDIR/zz_demo${N}_test.go
echo "-- existing tests (whole suite) with change"; (cd $WT && go test -vet=off -count=1 ./... 2>&1 | grep -v "^ok\|no test files" | tail -5; echo "suite-exit=$?")
git -C $WT checkout -q -- . ; git -C $WT clean -fdq
git -C /repo apply --check $P || { echo "does not apply to /repo HEAD"; exit 2; }
echo "== running checks against the scratch worktree with the change applied (VERIF_REPO=$WT; same HEAD as /repo): $CHECKS"
git -C $WT apply $P
for c in $CHECKS; do
  echo "-- ./check $c --tier quick"; (cd /verif && VERIF_REPO=$WT VERIF_EVIDENCE_DIR=$OUT/evidence timeout 1500 ./check $c --tier quick 2>&1 | grep -E "^VIOLATION|^  class=|KNOWN|MACHINERY|tier=" | head -8; echo "rc=${PIPESTATUS[0]}")
done
git -C $WT checkout -q -- . ; git -C $WT clean -fdq
