#!/usr/bin/env python3
"""seedkeep.py <PROP> <n> <name> <caught_by> <violation_class> <needs...>  - keep a verified seeded change under /verif/seeded/<name>/"""
import sys, os, shutil, json
prop, n, name, caught_by, vclass = sys.argv[1:6]
needs = " ".join(sys.argv[6:])
src = os.environ.get("SEEDSRC", "/tmp/seed-out/%s" % prop)
dst = "/verif/seeded/%s" % name
os.makedirs(dst, exist_ok=True)
shutil.copy("%s/patch%s.diff" % (src, n), dst + "/patch.diff")
shutil.copy("%s/demo%s_test.go" % (src, n), dst + "/demo_test.go.txt")
if os.path.exists("%s/notes%s.md" % (src, n)):
    shutil.copy("%s/notes%s.md" % (src, n), dst + "/notes.md")
head = open(dst + "/demo_test.go.txt").read().split("\n")[:2]
meta = {
    "breaks_property": prop,
    "author": "independent sub-agent given only the property record and a scratch worktree",
    "needs_to_manifest": needs,
    "demonstration": {"file": "demo_test.go.txt (rename to *_test.go in the package directory named in its first line)", "where_and_how": head},
    "verified_here": "tools/seedcheck.sh %s %s: patch applies to /repo HEAD and to a clean worktree, go build ./... ok, whole existing suite passes with the change, demonstration passes without / fails with the change" % (prop, n),
    "caught_by": caught_by,
    "reported_as": vclass,
}
json.dump(meta, open(dst + "/meta.json", "w"), indent=1)
print("kept", dst)
