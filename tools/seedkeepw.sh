#!/bin/bash
# seedkeepw.sh <wave> <suffix> <ID> <class> [caught_by]  - keep the verified change of <ID><wave> as seeded/<ID>-<suffix>;
# the "needs to manifest" text comes from /tmp/needs<wave>.json ({"C01": "..."}), the verification log is
# kept next to it, the scratch worktree is removed.
W=$1; SUF=$2; ID=$3; CLS=$4; CB=${5:-"./check $ID"}
NEEDS=$(python3 -c "import json;print(json.load(open('/tmp/needs$W.json'))['$ID'])") || exit 2
cd /verif && SEEDSRC=/tmp/seed-out/${ID}$W tools/seedkeep.py $ID 1 $ID-$SUF "$CB" "VIOLATION class=$CLS" "$NEEDS"
cp /tmp/seed-out/${ID}$W/check1.log /verif/seeded/$ID-$SUF/verification.log 2>/dev/null
git -C /repo worktree remove --force /tmp/wt-${ID}$W 2>/dev/null
