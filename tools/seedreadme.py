#!/usr/bin/env python3
"""Generates /verif/seeded/README.md from the meta.json files."""
import json, os, glob
rows = []
for d in sorted(glob.glob("/verif/seeded/*/meta.json")):
    m = json.load(open(d))
    name = os.path.basename(os.path.dirname(d))
    rows.append((name, m))
out = ["# Seeded property-breaking changes", "",
       "Each directory holds one change to openconfig/gnmi written by a fresh sub-agent that was given only the text of one property and its own scratch worktree (nothing from /verif), plus its demonstration and notes. Every change was re-verified here before it was kept: the patch applies to /repo HEAD, `go build ./...` succeeds, the whole existing test suite passes with it, and the demonstration passes without / fails with the change (`tools/seedcheck.sh`). None of them is ever committed to /repo: `git -C /repo apply seeded/<id>/patch.diff`, run the check, `git -C /repo checkout -- .`.", "",
       "A check that missed a change on its first run was strengthened (the `caught by` column says so) - never the other way round.", "",
       "| id | breaks | needs to manifest | caught by | reported as |", "|---|---|---|---|---|"]
missed_first = 0
for name, m in rows:
    if "MISSED" in m["caught_by"]:
        missed_first += 1
    out.append("| %s | %s | %s | %s | %s |" % (name, m["breaks_property"], m["needs_to_manifest"].replace("|", "/"), m["caught_by"].replace("|", "/"), m["reported_as"].replace("|", "/")))
out += ["", "%d changes kept; %d of them were missed by the first version of the check they target and led to a stronger check." % (len(rows), missed_first), ""]
open("/verif/seeded/README.md", "w").write("\n".join(out))
print(len(rows), "seeded changes,", missed_first, "initially missed")
