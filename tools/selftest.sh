#!/bin/sh
# Self-tests of the verification machinery itself (not of openconfig/gnmi):
#  xplore: the schedule explorer finds the classic defects at the expected bound, enumerates
#          every schedule exactly once (closed formulas), levels partition the schedule space,
#          unlock points / atomics / reversed default scheduler behave as documented;
#  hutil:  the brute-force linearizability checker agrees with porcupine v1.3.0 on every
#          history of a small register family (149 688 histories);
#  seqmc:  the explicit-state engine counts a known state graph exactly, closes it, finds the
#          planted defect by its shortest history, and its replay file reproduces it.
set -e
cd "$(dirname "$0")/.."
export GOFLAGS=-mod=mod GOPROXY=off GOSUMDB=off GOTOOLCHAIN=local
go test -count=1 ./xplore ./hutil ./seqmc
