#!/bin/bash
# sweep.sh <budget> <ids...> - thorough tier of the given checks, one after the other, against
# $VP_RUN_REPO (a snapshot of /repo's HEAD) when started through `vp run --with-repo`, so that seeded
# changes applied to /repo meanwhile do not disturb it. Not evidence: for false-alarm hunting only.
B=$1; shift
./setup.sh >/dev/null 2>&1
for id in "$@"; do
  echo "=== $id $(date +%T)"
  extra="-budget $B"; [ "$id" = C01 ] && extra=""
  ( time VERIF_REPO=${VP_RUN_REPO:-/repo} ./check $id --tier thorough $extra 2>&1 | grep -E "^VIOLATION|^  class=|KNOWN|MACHINERY|exhaustive|tier=" | head -40 ) 2>&1 | grep -v "^user\|^sys\|^$"
  echo "rc-of-$id done"
done
echo SWEEP-DONE
