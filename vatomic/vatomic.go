// Package vatomic replaces "sync/atomic" in instrumented packages: every
// operation is the real atomic operation preceded by a scheduling point, so
// that check-then-act patterns around atomics (lock-free fast paths) are
// interleaved by the explorer. The real operations keep their meaning for the
// race detector.
package vatomic

import (
	"sync/atomic"
	"unsafe"

	"github.com/openconfig/gnmi/zzverif/vrt"
)

func AddInt32(addr *int32, delta int32) int32     { vrt.Yield(); return atomic.AddInt32(addr, delta) }
func AddInt64(addr *int64, delta int64) int64     { vrt.Yield(); return atomic.AddInt64(addr, delta) }
func AddUint32(addr *uint32, delta uint32) uint32 { vrt.Yield(); return atomic.AddUint32(addr, delta) }
func AddUint64(addr *uint64, delta uint64) uint64 { vrt.Yield(); return atomic.AddUint64(addr, delta) }
func AddUintptr(addr *uintptr, delta uintptr) uintptr {
	vrt.Yield()
	return atomic.AddUintptr(addr, delta)
}

func LoadInt32(addr *int32) int32       { vrt.Yield(); return atomic.LoadInt32(addr) }
func LoadInt64(addr *int64) int64       { vrt.Yield(); return atomic.LoadInt64(addr) }
func LoadUint32(addr *uint32) uint32    { vrt.Yield(); return atomic.LoadUint32(addr) }
func LoadUint64(addr *uint64) uint64    { vrt.Yield(); return atomic.LoadUint64(addr) }
func LoadUintptr(addr *uintptr) uintptr { vrt.Yield(); return atomic.LoadUintptr(addr) }
func LoadPointer(addr *unsafe.Pointer) unsafe.Pointer {
	vrt.Yield()
	return atomic.LoadPointer(addr)
}

func StoreInt32(addr *int32, v int32)       { vrt.Yield(); atomic.StoreInt32(addr, v) }
func StoreInt64(addr *int64, v int64)       { vrt.Yield(); atomic.StoreInt64(addr, v) }
func StoreUint32(addr *uint32, v uint32)    { vrt.Yield(); atomic.StoreUint32(addr, v) }
func StoreUint64(addr *uint64, v uint64)    { vrt.Yield(); atomic.StoreUint64(addr, v) }
func StoreUintptr(addr *uintptr, v uintptr) { vrt.Yield(); atomic.StoreUintptr(addr, v) }
func StorePointer(addr *unsafe.Pointer, v unsafe.Pointer) {
	vrt.Yield()
	atomic.StorePointer(addr, v)
}

func SwapInt32(addr *int32, v int32) int32         { vrt.Yield(); return atomic.SwapInt32(addr, v) }
func SwapInt64(addr *int64, v int64) int64         { vrt.Yield(); return atomic.SwapInt64(addr, v) }
func SwapUint32(addr *uint32, v uint32) uint32     { vrt.Yield(); return atomic.SwapUint32(addr, v) }
func SwapUint64(addr *uint64, v uint64) uint64     { vrt.Yield(); return atomic.SwapUint64(addr, v) }
func SwapUintptr(addr *uintptr, v uintptr) uintptr { vrt.Yield(); return atomic.SwapUintptr(addr, v) }
func SwapPointer(addr *unsafe.Pointer, v unsafe.Pointer) unsafe.Pointer {
	vrt.Yield()
	return atomic.SwapPointer(addr, v)
}

func CompareAndSwapInt32(addr *int32, o, n int32) bool {
	vrt.Yield()
	return atomic.CompareAndSwapInt32(addr, o, n)
}
func CompareAndSwapInt64(addr *int64, o, n int64) bool {
	vrt.Yield()
	return atomic.CompareAndSwapInt64(addr, o, n)
}
func CompareAndSwapUint32(addr *uint32, o, n uint32) bool {
	vrt.Yield()
	return atomic.CompareAndSwapUint32(addr, o, n)
}
func CompareAndSwapUint64(addr *uint64, o, n uint64) bool {
	vrt.Yield()
	return atomic.CompareAndSwapUint64(addr, o, n)
}
func CompareAndSwapUintptr(addr *uintptr, o, n uintptr) bool {
	vrt.Yield()
	return atomic.CompareAndSwapUintptr(addr, o, n)
}
func CompareAndSwapPointer(addr *unsafe.Pointer, o, n unsafe.Pointer) bool {
	vrt.Yield()
	return atomic.CompareAndSwapPointer(addr, o, n)
}

// Typed values.

type Bool struct{ v atomic.Bool }

func (x *Bool) Load() bool                    { vrt.Yield(); return x.v.Load() }
func (x *Bool) Store(v bool)                  { vrt.Yield(); x.v.Store(v) }
func (x *Bool) Swap(v bool) bool              { vrt.Yield(); return x.v.Swap(v) }
func (x *Bool) CompareAndSwap(o, n bool) bool { vrt.Yield(); return x.v.CompareAndSwap(o, n) }

type Int32 struct{ v atomic.Int32 }

func (x *Int32) Load() int32                    { vrt.Yield(); return x.v.Load() }
func (x *Int32) Store(v int32)                  { vrt.Yield(); x.v.Store(v) }
func (x *Int32) Swap(v int32) int32             { vrt.Yield(); return x.v.Swap(v) }
func (x *Int32) Add(d int32) int32              { vrt.Yield(); return x.v.Add(d) }
func (x *Int32) CompareAndSwap(o, n int32) bool { vrt.Yield(); return x.v.CompareAndSwap(o, n) }

type Int64 struct{ v atomic.Int64 }

func (x *Int64) Load() int64                    { vrt.Yield(); return x.v.Load() }
func (x *Int64) Store(v int64)                  { vrt.Yield(); x.v.Store(v) }
func (x *Int64) Swap(v int64) int64             { vrt.Yield(); return x.v.Swap(v) }
func (x *Int64) Add(d int64) int64              { vrt.Yield(); return x.v.Add(d) }
func (x *Int64) CompareAndSwap(o, n int64) bool { vrt.Yield(); return x.v.CompareAndSwap(o, n) }

type Uint32 struct{ v atomic.Uint32 }

func (x *Uint32) Load() uint32                    { vrt.Yield(); return x.v.Load() }
func (x *Uint32) Store(v uint32)                  { vrt.Yield(); x.v.Store(v) }
func (x *Uint32) Swap(v uint32) uint32            { vrt.Yield(); return x.v.Swap(v) }
func (x *Uint32) Add(d uint32) uint32             { vrt.Yield(); return x.v.Add(d) }
func (x *Uint32) CompareAndSwap(o, n uint32) bool { vrt.Yield(); return x.v.CompareAndSwap(o, n) }

type Uint64 struct{ v atomic.Uint64 }

func (x *Uint64) Load() uint64                    { vrt.Yield(); return x.v.Load() }
func (x *Uint64) Store(v uint64)                  { vrt.Yield(); x.v.Store(v) }
func (x *Uint64) Swap(v uint64) uint64            { vrt.Yield(); return x.v.Swap(v) }
func (x *Uint64) Add(d uint64) uint64             { vrt.Yield(); return x.v.Add(d) }
func (x *Uint64) CompareAndSwap(o, n uint64) bool { vrt.Yield(); return x.v.CompareAndSwap(o, n) }

type Uintptr struct{ v atomic.Uintptr }

func (x *Uintptr) Load() uintptr                    { vrt.Yield(); return x.v.Load() }
func (x *Uintptr) Store(v uintptr)                  { vrt.Yield(); x.v.Store(v) }
func (x *Uintptr) Swap(v uintptr) uintptr           { vrt.Yield(); return x.v.Swap(v) }
func (x *Uintptr) Add(d uintptr) uintptr            { vrt.Yield(); return x.v.Add(d) }
func (x *Uintptr) CompareAndSwap(o, n uintptr) bool { vrt.Yield(); return x.v.CompareAndSwap(o, n) }

type Pointer[T any] struct{ v atomic.Pointer[T] }

func (x *Pointer[T]) Load() *T                    { vrt.Yield(); return x.v.Load() }
func (x *Pointer[T]) Store(v *T)                  { vrt.Yield(); x.v.Store(v) }
func (x *Pointer[T]) Swap(v *T) *T                { vrt.Yield(); return x.v.Swap(v) }
func (x *Pointer[T]) CompareAndSwap(o, n *T) bool { vrt.Yield(); return x.v.CompareAndSwap(o, n) }

type Value struct{ v atomic.Value }

func (x *Value) Load() any                    { vrt.Yield(); return x.v.Load() }
func (x *Value) Store(v any)                  { vrt.Yield(); x.v.Store(v) }
func (x *Value) Swap(v any) any               { vrt.Yield(); return x.v.Swap(v) }
func (x *Value) CompareAndSwap(o, n any) bool { vrt.Yield(); return x.v.CompareAndSwap(o, n) }
