// Package vbackoff stands in for github.com/cenkalti/backoff/v4 in the
// packages that ask for it (vinstr -backoff): the same ExponentialBackOff
// type, reading the VIRTUAL clock instead of the wall clock, so that its
// elapsed-time logic sees the time the explored execution has let pass. The
// external module itself cannot be instrumented (it cannot import packages of
// the main module), but its clock is a field.
package vbackoff

import (
	"time"

	bo "github.com/cenkalti/backoff/v4"

	"github.com/openconfig/gnmi/zzverif/vrt"
)

type (
	ExponentialBackOff = bo.ExponentialBackOff
	BackOff            = bo.BackOff
	Clock              = bo.Clock
)

const (
	Stop                       = bo.Stop
	DefaultInitialInterval     = bo.DefaultInitialInterval
	DefaultRandomizationFactor = bo.DefaultRandomizationFactor
	DefaultMultiplier          = bo.DefaultMultiplier
	DefaultMaxInterval         = bo.DefaultMaxInterval
	DefaultMaxElapsedTime      = bo.DefaultMaxElapsedTime
)

type vclock struct{}

func (vclock) Now() time.Time { return vrt.Now() }

// NewExponentialBackOff is backoff.NewExponentialBackOff on the virtual clock.
func NewExponentialBackOff() *ExponentialBackOff {
	e := bo.NewExponentialBackOff()
	e.Clock = vclock{}
	e.Reset()
	return e
}
