// Package vcontext replaces "context" in instrumented packages. Inside an
// execution, cancellable contexts are implemented here so that cancellation is
// a scheduling point, Done channels are closed by code the scheduler knows,
// and deadlines are virtual timers. Outside executions everything delegates to
// the real package. The Context interface is the real one.
package vcontext

import (
	"context"
	"sync/atomic"
	"time"

	"github.com/openconfig/gnmi/zzverif/vrt"
)

type (
	Context         = context.Context
	CancelFunc      = context.CancelFunc
	CancelCauseFunc = context.CancelCauseFunc
)

var (
	Canceled         = context.Canceled
	DeadlineExceeded = context.DeadlineExceeded
)

func Background() Context                   { return context.Background() }
func TODO() Context                         { return context.TODO() }
func WithValue(p Context, k, v any) Context { return context.WithValue(p, k, v) }
func WithoutCancel(p Context) Context       { return context.WithoutCancel(p) }
func Cause(c Context) error                 { return context.Cause(c) }

// AfterFunc mirrors context.AfterFunc for contexts of the instrumented world:
// once c is done, f runs in a thread of its own (a thread the scheduler knows).
func AfterFunc(c Context, f func()) (stop func() bool) {
	v, ok := c.Value(&key).(*vctx)
	if !vrt.Active() || !ok || v == nil {
		return context.AfterFunc(c, f)
	}
	a := &afterFn{f: f}
	if v.Err() != nil {
		a.started = true
		vrt.GoNamed("context.AfterFunc", f)
	} else {
		v.addAfter(a)
	}
	return func() bool {
		if a.started || a.stopped {
			return false
		}
		a.stopped = true
		return true
	}
}

type afterFn struct {
	f                func()
	started, stopped bool
}

type keyT struct{}

var key keyT

type errBox struct{ err error }

type vctx struct {
	parent   Context
	done     chan struct{}
	err      atomic.Pointer[errBox]
	children []*vctx // touched only by the running thread (norace helpers)
	after    []*afterFn
	deadline time.Time
	hasDl    bool
	tm       *vrt.Timer
}

func (c *vctx) Done() <-chan struct{} { return c.done }
func (c *vctx) Err() error {
	if b := c.err.Load(); b != nil {
		return b.err
	}
	return nil
}
func (c *vctx) Deadline() (time.Time, bool) {
	if c.hasDl {
		return c.deadline, true
	}
	return c.parent.Deadline()
}
func (c *vctx) Value(k any) any {
	if k == any(&key) {
		return c
	}
	return c.parent.Value(k)
}
func (c *vctx) String() string { return "vcontext" }

//go:norace
func (c *vctx) addChild(ch *vctx) { c.children = append(c.children, ch) }

//go:norace
func (c *vctx) kids() []*vctx { return c.children }

//go:norace
func (c *vctx) addAfter(a *afterFn) { c.after = append(c.after, a) }

//go:norace
func (c *vctx) afters() []*afterFn { return c.after }

// cancel closes c and its descendants (no scheduling point).
func (c *vctx) cancel(err error) {
	if !c.err.CompareAndSwap(nil, &errBox{err}) {
		return
	}
	close(c.done)
	if c.tm != nil {
		c.tm.Stop()
	}
	for _, a := range c.afters() {
		if !a.stopped && !a.started {
			a.started = true
			vrt.GoNamed("context.AfterFunc", a.f)
		}
	}
	for _, k := range c.kids() {
		k.cancel(err)
	}
}

func newCtx(parent Context) *vctx {
	c := &vctx{parent: parent, done: make(chan struct{})}
	if pv, ok := parent.Value(&key).(*vctx); ok && pv != nil {
		if e := pv.Err(); e != nil {
			c.cancel(e)
		} else {
			pv.addChild(c)
		}
	} else if parent.Done() != nil {
		panic("vcontext: cancellable parent context created outside the instrumented world")
	}
	return c
}

func WithCancel(parent Context) (Context, CancelFunc) {
	if !vrt.Active() {
		return context.WithCancel(parent)
	}
	c := newCtx(parent)
	return c, func() {
		vrt.Yield() // cancellation is observable: a scheduling point
		c.cancel(Canceled)
	}
}

func WithCancelCause(parent Context) (Context, CancelCauseFunc) {
	if !vrt.Active() {
		return context.WithCancelCause(parent)
	}
	c := newCtx(parent)
	return c, func(error) {
		vrt.Yield()
		c.cancel(Canceled)
	}
}

func WithDeadline(parent Context, d time.Time) (Context, CancelFunc) {
	if !vrt.Active() {
		return context.WithDeadline(parent, d)
	}
	c := newCtx(parent)
	c.deadline, c.hasDl = d, true
	if c.Err() == nil {
		c.tm = vrt.NewContextTimer(d.Sub(vrt.Now()), func() { c.cancel(DeadlineExceeded) })
	}
	return c, func() {
		vrt.Yield()
		c.cancel(Canceled)
	}
}

func WithTimeout(parent Context, d time.Duration) (Context, CancelFunc) {
	if !vrt.Active() {
		return context.WithTimeout(parent, d)
	}
	return WithDeadline(parent, vrt.Now().Add(d))
}

func WithDeadlineCause(parent Context, d time.Time, _ error) (Context, CancelFunc) {
	return WithDeadline(parent, d)
}

func WithTimeoutCause(parent Context, d time.Duration, _ error) (Context, CancelFunc) {
	return WithTimeout(parent, d)
}
