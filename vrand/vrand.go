// Package vrand replaces "math/rand" in the fake target's generator. In
// seeded mode (no script) it is the real PRNG. In oracle mode every draw is an
// enumerated choice: the harness supplies a script of answers, vrand records
// the arity of each draw, and the harness extends the script depth first, so
// ordering / range / repeat invariants are checked for EVERY PRNG outcome
// within the draw horizon (after the script ends, draws answer option 0).
package vrand

import (
	mrand "math/rand"
)

type Source = mrand.Source

func NewSource(seed int64) Source { return mrand.NewSource(seed) }

// Script drives oracle mode.
type Script struct {
	Answers []int
	pos     int
	Arity   []int // arity of every draw made (also beyond the script)
	Limit   int   // draws beyond this index are not recorded as choice points
}

var script *Script

// SetScript installs (or with nil removes) the oracle script.
func SetScript(s *Script) { script = s }

func choose(n int) int {
	s := script
	if n <= 1 {
		return 0
	}
	a := 0
	if s.pos < len(s.Answers) {
		a = s.Answers[s.pos]
		if a >= n {
			a = n - 1
		}
	}
	if s.pos < s.Limit {
		s.Arity = append(s.Arity, n)
	}
	s.pos++
	return a
}

type Rand struct{ r *mrand.Rand }

func New(src Source) *Rand { return &Rand{mrand.New(src)} }

// menu returns the candidate values for a draw in [0,n): all of them when
// n <= 3, otherwise the two ends and the middle.
func menu(n int64) []int64 {
	if n <= 3 {
		out := make([]int64, n)
		for i := range out {
			out[i] = int64(i)
		}
		return out
	}
	return []int64{0, n - 1, n / 2}
}

func (r *Rand) Int63n(n int64) int64 {
	if script == nil {
		return r.r.Int63n(n)
	}
	if n <= 0 {
		panic("invalid argument to Int63n")
	}
	m := menu(n)
	return m[choose(len(m))]
}

func (r *Rand) Intn(n int) int {
	if script == nil {
		return r.r.Intn(n)
	}
	if n <= 0 {
		panic("invalid argument to Intn")
	}
	m := menu(int64(n))
	return int(m[choose(len(m))])
}

func (r *Rand) Float64() float64 {
	if script == nil {
		return r.r.Float64()
	}
	return []float64{0, 0.9999999999999999, 0.5}[choose(3)]
}

func (r *Rand) Shuffle(n int, swap func(i, j int)) {
	if script == nil {
		r.r.Shuffle(n, swap)
		return
	}
	// Fisher-Yates with enumerated draws
	for i := n - 1; i > 0; i-- {
		j := r.Intn(i + 1)
		swap(i, j)
	}
}

func (r *Rand) Int63() int64         { return r.r.Int63() }
func (r *Rand) Int() int             { return r.r.Int() }
func (r *Rand) Int31n(n int32) int32 { return int32(r.Int63n(int64(n))) }
func (r *Rand) Perm(n int) []int {
	p := make([]int, n)
	for i := range p {
		p[i] = i
	}
	r.Shuffle(n, func(i, j int) { p[i], p[j] = p[j], p[i] })
	return p
}
func (r *Rand) Seed(s int64) { r.r.Seed(s) }

// package level functions (real PRNG)
func Intn(n int) int                  { return mrand.Intn(n) }
func Int63n(n int64) int64            { return mrand.Int63n(n) }
func Int63() int64                    { return mrand.Int63() }
func Int() int                        { return mrand.Int() }
func Float64() float64                { return mrand.Float64() }
func Seed(s int64)                    { mrand.Seed(s) }
func Perm(n int) []int                { return mrand.Perm(n) }
func Shuffle(n int, f func(i, j int)) { mrand.Shuffle(n, f) }
