package vrt

import (
	"runtime"
	"unsafe"
)

func chanPtr[T any](c chan T) unsafe.Pointer    { return *(*unsafe.Pointer)(unsafe.Pointer(&c)) }
func chanPtrR[T any](c <-chan T) unsafe.Pointer { return *(*unsafe.Pointer)(unsafe.Pointer(&c)) }
func chanPtrS[T any](c chan<- T) unsafe.Pointer { return *(*unsafe.Pointer)(unsafe.Pointer(&c)) }

// prep publishes a channel operation and waits to be scheduled. It returns
// the running thread (nil outside executions).
//
//go:norace
func prep(kind opKind, c unsafe.Pointer) *Thread {
	t := me()
	if t == nil {
		return nil
	}
	t.op = kind
	t.obj = c
	t.objID = objectID(c)
	t.s.point(t)
	return t
}

// kick is called by the thread that was scheduled to perform an operation on
// channel c. If c is unbuffered and open, the parked partner is released in
// rendezvous mode so that the real transfer can complete.
//
//go:norace
func kick(t *Thread, c unsafe.Pointer, send bool) bool {
	if t == nil || t.rdv || c == nil {
		return false
	}
	h := (*hchan)(c)
	if h.dataqsiz != 0 || h.closed != 0 {
		return false
	}
	p := t.s.partner(t, c, send)
	if p == nil {
		t.s.abort("machinery", "unbuffered channel operation scheduled without partner")
		parkForever()
	}
	if p.op == opSelect {
		for j := 0; j < p.ncases; j++ {
			if p.cases[j].ch == c && p.cases[j].send != send {
				p.selRes = j
				break
			}
		}
	}
	p.rdv = true
	p.rdvFrom = t
	p.op = opResume
	// The partner becomes the "running" thread while it performs its half
	// of the transfer; it hands control back in afterRdv.
	t.s.cur = p
	raceDisable()
	p.wake <- struct{}{}
	raceEnable()
	return true
}

// handback waits (after the real transfer) until the passive partner has
// parked again and returned control to the initiator.
//
//go:norace
func handback(t *Thread) {
	raceDisable()
	<-t.wake
	raceEnable()
}

// afterRdv parks a thread that completed its half of a rendezvous as the
// passive partner until it is scheduled normally.
//
//go:norace
func afterRdv(t *Thread) {
	t.rdv = false
	from := t.rdvFrom
	t.rdvFrom = nil
	t.s.cur = from
	raceDisable()
	from.wake <- struct{}{}
	<-t.wake
	raceEnable()
	if t.s.over {
		parkForever()
	}
}

//go:norace
func isRdv(t *Thread) bool { return t != nil && t.rdv }

// Send is `c <- v`.
func Send[T any](c chan<- T, v T) {
	t := prep(opSend, chanPtrS(c))
	SendNow(c, v)
	_ = t
}

// SendNow performs a send that the scheduler has already decided on.
func SendNow[T any](c chan<- T, v T) {
	t := me()
	if t == nil {
		c <- v
		return
	}
	init := kick(t, chanPtrS(c), true)
	c <- v
	if init {
		handback(t)
	} else if isRdv(t) {
		afterRdv(t)
	}
}

// Recv is `<-c`.
func Recv[T any](c <-chan T) T {
	prep(opRecv, chanPtrR(c))
	return RecvNow(c)
}

// Recv2 is `v, ok := <-c`.
func Recv2[T any](c <-chan T) (T, bool) {
	prep(opRecv, chanPtrR(c))
	return RecvNow2(c)
}

// RecvNow performs a receive that the scheduler has already decided on.
func RecvNow[T any](c <-chan T) T {
	v, _ := RecvNow2(c)
	return v
}

// RecvNow2 is the two-valued form of RecvNow.
func RecvNow2[T any](c <-chan T) (T, bool) {
	t := me()
	if t == nil {
		v, ok := <-c
		return v, ok
	}
	init := kick(t, chanPtrR(c), false)
	v, ok := <-c
	if init {
		handback(t)
	} else if isRdv(t) {
		afterRdv(t)
	}
	return v, ok
}

// Close is `close(c)`.
func Close[T any](c chan<- T) {
	prep(opClose, chanPtrS(c))
	close(c)
}

// Len and Cap of a channel (no scheduling point).
func Len[T any](c chan T) int { return len(c) }

// Case describes one communication clause of a select statement.
type Case struct {
	ch   unsafe.Pointer
	send bool
}

// R is a receive case, S a send case.
func R[T any](c <-chan T) Case { return Case{chanPtrR(c), false} }
func S[T any](c chan<- T) Case { return Case{chanPtrS(c), true} }

// Select publishes a select statement and returns the index of the clause to
// execute, or -1 for the default clause. The caller then performs the real
// operation with RecvNow / SendNow.
//
//go:norace
func Select(hasDefault bool, cases ...Case) int {
	t := me()
	if t == nil {
		return selectPassthrough(hasDefault, cases)
	}
	if len(cases) > maxCases {
		panic("vrt.Select: too many cases")
	}
	t.op = opSelect
	t.ncases = len(cases)
	t.hasDef = hasDefault
	t.obj = nil
	t.objID = -1
	for i, c := range cases {
		t.cases[i] = selCase{c.ch, c.send}
		if i == 0 {
			t.obj = c.ch
			t.objID = objectID(c.ch)
		}
	}
	t.s.point(t)
	if t.rdv {
		return t.selRes
	}
	var ready [maxCases]int
	n := 0
	for i := 0; i < t.ncases; i++ {
		if t.s.chanReady(t, t.cases[i].ch, t.cases[i].send) {
			ready[n] = i
			n++
		}
	}
	if n == 0 {
		if !hasDefault {
			t.s.abort("machinery", "select scheduled with no ready case")
			parkForever()
		}
		return -1
	}
	if n == 1 {
		return ready[0]
	}
	var costs [maxCases]uint8
	if !t.s.opt.FreeSwitch {
		for i := 1; i < n; i++ {
			costs[i] = 1
		}
	}
	t.s.points++
	k := t.s.ch.Choose(n, costs[:n], fnv(t.s.sig, 4242))
	t.s.sig = fnv(t.s.sig, uint64(k)+1000)
	return ready[k]
}

// selectPassthrough emulates select outside executions by polling readiness
// from the real channel state (single-threaded use only).
//
//go:norace
func selectPassthrough(hasDefault bool, cases []Case) int {
	for spin := 0; ; spin++ {
		for i, c := range cases {
			if c.ch == nil {
				continue
			}
			h := (*hchan)(c.ch)
			if h.closed != 0 {
				return i
			}
			if h.dataqsiz > 0 {
				if c.send && h.qcount < h.dataqsiz {
					return i
				}
				if !c.send && h.qcount > 0 {
					return i
				}
			}
		}
		if hasDefault {
			return -1
		}
		if spin > 1000 {
			panic("vrt.Select outside an execution would block")
		}
		runtime.Gosched()
	}
}

// SelfTest validates the assumptions about the runtime's channel layout.
func SelfTest() error {
	c := make(chan int, 3)
	c <- 1
	c <- 2
	h := (*hchan)(chanPtr(c))
	if h.qcount != 2 || h.dataqsiz != 3 || h.closed != 0 {
		return errLayout
	}
	close(c)
	if h.closed == 0 {
		return errLayout
	}
	u := make(chan struct{})
	hu := (*hchan)(chanPtr(u))
	if hu.qcount != 0 || hu.dataqsiz != 0 || hu.closed != 0 {
		return errLayout
	}
	close(u)
	if hu.closed == 0 {
		return errLayout
	}
	return nil
}

type layoutErr struct{}

func (layoutErr) Error() string { return "vrt: runtime.hchan layout differs from the expected one" }

var errLayout = layoutErr{}
