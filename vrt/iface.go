package vrt

import "reflect"

func isDirectIface(k any) bool {
	switch reflect.TypeOf(k).Kind() {
	case reflect.Ptr, reflect.Chan, reflect.Func, reflect.Map, reflect.UnsafePointer:
		return true
	}
	return false
}
