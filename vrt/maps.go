package vrt

import (
	"fmt"
	"sort"
	"unsafe"
)

type eface struct {
	typ  unsafe.Pointer
	data unsafe.Pointer
}

//go:norace
func resetTouch() {}

// Touch registers a map key of pointer shape so that MapKeys can order such
// keys by first insertion instead of by address.
//
//go:norace
func Touch(k any) {
	if cur == nil {
		return
	}
	e := (*eface)(unsafe.Pointer(&k))
	if e.data != nil && pointerShaped(k) {
		objectID(e.data)
	}
}

func pointerShaped(k any) bool {
	switch k.(type) {
	case string, int, int8, int16, int32, int64, uint, uint8, uint16, uint32, uint64, uintptr, float32, float64, bool:
		return false
	}
	// pointers, channels, funcs, maps and interfaces holding those are stored
	// directly in the interface word; everything else is boxed.
	return isDirectIface(k)
}

//go:norace
func orderKey(k any) (int64, string) {
	if pointerShaped(k) {
		e := (*eface)(unsafe.Pointer(&k))
		return int64(objectID(e.data)), ""
	}
	return 0, fmt.Sprintf("%#v", k)
}

// MapKeys returns the keys of m in a deterministic order: natural order for
// strings and integers, first-touch order for pointer-shaped keys, formatted
// order otherwise; reversed when the execution runs with Options.MapDesc.
func MapKeys[K comparable, V any](m map[K]V) []K {
	keys := make([]K, 0, len(m))
	for k := range m {
		keys = append(keys, k)
	}
	switch ks := any(keys).(type) {
	case []string:
		sort.Strings(ks)
	case []int:
		sort.Ints(ks)
	case []int64:
		sort.Slice(ks, func(i, j int) bool { return ks[i] < ks[j] })
	case []uint64:
		sort.Slice(ks, func(i, j int) bool { return ks[i] < ks[j] })
	case []int32:
		sort.Slice(ks, func(i, j int) bool { return ks[i] < ks[j] })
	case []uint32:
		sort.Slice(ks, func(i, j int) bool { return ks[i] < ks[j] })
	default:
		type ok struct {
			n int64
			s string
		}
		oks := make([]ok, len(keys))
		for i, k := range keys {
			n, s := orderKey(any(k))
			oks[i] = ok{n, s}
		}
		idx := make([]int, len(keys))
		for i := range idx {
			idx[i] = i
		}
		sort.SliceStable(idx, func(a, b int) bool {
			x, y := oks[idx[a]], oks[idx[b]]
			if x.n != y.n {
				return x.n < y.n
			}
			return x.s < y.s
		})
		out := make([]K, len(keys))
		for i, j := range idx {
			out[i] = keys[j]
		}
		keys = out
	}
	if mapDesc() {
		for i, j := 0, len(keys)-1; i < j; i, j = i+1, j-1 {
			keys[i], keys[j] = keys[j], keys[i]
		}
	}
	if p := passthroughMapPerm; p > 0 && cur == nil && len(keys) > 1 {
		// p-th permutation (Lehmer code) of the sorted keys
		rest := append([]K{}, keys...)
		out := keys[:0:0]
		f := 1
		for i := 2; i <= len(rest); i++ {
			f *= i
		}
		p %= f
		for n := len(rest); n > 0; n-- {
			f /= n
			i := p / f
			p %= f
			out = append(out, rest[i])
			rest = append(rest[:i], rest[i+1:]...)
		}
		keys = out
	}
	return keys
}

//go:norace
func mapDesc() bool { return cur != nil && cur.mapDesc || cur == nil && passthroughMapDesc }

var passthroughMapDesc bool
var passthroughMapPerm int

// SetPassthroughMapPerm selects, outside executions, the p-th permutation of
// the sorted keys for every instrumented map iteration (0 = sorted).
func SetPassthroughMapPerm(p int) { passthroughMapPerm = p }

// SetPassthroughMapDesc sets the map order used outside executions.
func SetPassthroughMapDesc(b bool) { passthroughMapDesc = b }
