//go:build !race

package vrt

const raceEnabled = false

func raceDisable() {}
func raceEnable()  {}
