//go:build race

package vrt

import "runtime"

const raceEnabled = true

func raceDisable() { runtime.RaceDisable() }
func raceEnable()  { runtime.RaceEnable() }
