// Package vrt is the controlled runtime used by the schedule explorer.
//
// Every goroutine of the code under test (rewritten by vinstr) is a Thread.
// Exactly one thread runs at a time. A thread that reaches a hooked
// operation publishes the operation and asks the scheduler who runs next; the
// scheduler computes the enabled set from its model of the synchronisation
// objects and asks the Chooser. The woken thread then performs the REAL
// operation on the REAL primitive (which cannot block, because the model said
// it is enabled).
//
// All scheduler bookkeeping is done in //go:norace functions over
// pre-allocated arrays and all hand-offs are wrapped in
// runtime.RaceDisable/RaceEnable, so that a -race build sees exactly the
// synchronisation of the program under test and none of the scheduler's.
package vrt

import (
	"fmt"
	"runtime/debug"
	"unsafe"
)

// Chooser decides every nondeterministic choice of an execution.
type Chooser interface {
	// Choose picks one of n>=2 options. costs[i] is the deviation cost of
	// option i; costs[0] is always 0. sig is a fingerprint of the scheduler
	// state at this point (used to detect divergence during replay).
	Choose(n int, costs []uint8, sig uint64) int
}

type opKind uint8

const (
	opNone opKind = iota
	opStart
	opResume
	opYield
	opLock
	opRLock
	opWLock    // RWMutex writer: try-or-announce, always enabled
	opWAcquire // RWMutex announced writer waiting for the lock
	opSend
	opRecv
	opSelect
	opClose
	opIdle
	opWGWait
	opCondWait
	opSleep
	opGate
	opOnce
	opCancel
)

var opNames = [...]string{"none", "start", "resume", "yield", "lock", "rlock", "wlock", "wacquire", "send", "recv", "select", "close", "idle", "wgwait", "condwait", "sleep", "gate", "once", "cancel"}

func (k opKind) String() string { return opNames[k] }

const (
	maxThreads = 64
	maxTimers  = 64
	maxCases   = 8
	maxObjs    = 4096
)

type tstate uint8

const (
	tsPending tstate = iota // parked with a published op
	tsRunning
	tsFinished
)

type selCase struct {
	ch   unsafe.Pointer // hchan
	send bool
}

// Thread is one goroutine under the scheduler.
type Thread struct {
	id     int
	name   string
	wake   chan struct{}
	exited chan struct{}
	state  tstate
	op     opKind
	obj    unsafe.Pointer // mutex / hchan / timer / gate
	objID  int32
	cases  [maxCases]selCase
	ncases int
	hasDef bool
	selRes int
	// rendezvous: set by the partner that completes an unbuffered transfer.
	rdv     bool
	rdvFrom *Thread
	s       *sched
}

// Options configure one execution.
type Options struct {
	// EarlyTimers lets an armed timer fire while threads are still enabled
	// (a deviation of cost 1). Otherwise timers fire only through FireTimer.
	EarlyTimers bool
	// MaxSteps bounds the number of scheduling steps (0 = default 20000).
	MaxSteps int
	// Trace records a human readable trace of every step.
	Trace bool
	// MapDesc reverses the deterministic map iteration order.
	MapDesc bool
	// FreeSwitch selects CHESS-style pre-emption bounding: when the running
	// thread blocked or finished, choosing among the other enabled threads is
	// free and only switching away from a runnable thread costs a deviation.
	// Without it every departure from the deterministic default scheduler
	// (keep running; else lowest thread id) costs one deviation ("delay
	// bounding"), which keeps the tree polynomial in the number of points.
	FreeSwitch bool
	// Reverse makes the default scheduler prefer the NEWEST enabled thread
	// (highest id) instead of the oldest when the running thread cannot
	// continue. Delay bounding explores a ball around the default schedule;
	// running a program under both defaults covers two quite different balls.
	Reverse bool
	// UnlockPoints adds a scheduling point right AFTER every Unlock/RUnlock.
	// Releases are left-movers, so for race-free code this adds nothing; it
	// matters for code that touches shared state after releasing a lock (a
	// narrowed critical section), where the window opens at the release.
	UnlockPoints bool
	// StartNanos is the initial reading of the virtual clock.
	StartNanos int64
}

// Result describes one finished execution.
type Result struct {
	Steps    int
	Points   int // choice points offered to the Chooser
	Aborted  string
	Panic    string
	Leaked   int // threads still parked when the main thread returned
	TraceSig uint64
	Trace    []string
	Parked   []string // description of parked threads at abort / end
	MaxEn    int      // max number of simultaneously enabled threads
	Threads  int
}

type timerEnt struct {
	t     *Timer
	armed bool
}

type sched struct {
	ch       Chooser
	opt      Options
	threads  [maxThreads]*Thread
	nthreads int
	cur      *Thread
	timers   [maxTimers]*Timer
	ntimers  int
	done     chan struct{}
	over     bool
	steps    int
	points   int
	maxSteps int
	aborted  string
	panicMsg string
	sig      uint64
	maxEn    int
	trace    []string
	now      int64
	mapDesc  bool
	touchSeq int64
}

// S is the scheduler of the execution in progress (nil outside executions).
var cur *sched

// DefaultUnlockPoints turns Options.UnlockPoints on for every execution
// (set from the -unlockpoints flag of the harness binaries).
var DefaultUnlockPoints bool

// RaceMode reports whether the binary was built with -race.
var RaceMode = raceEnabled

// Active reports whether an execution is in progress.
//
//go:norace
func Active() bool { return cur != nil && !cur.over }

//go:norace
func fnv(h uint64, v uint64) uint64 {
	h ^= v
	h *= 1099511628211
	return h
}

type objEnt struct {
	p  unsafe.Pointer
	id int32
}

var (
	objTab  [maxObjs]objEnt
	objUsed [maxObjs]uint16
	nobjs   int32
)

//go:norace
func resetObjs() {
	for i := int32(0); i < nobjs; i++ {
		objTab[objUsed[i]] = objEnt{}
	}
	nobjs = 0
}

// objectID returns a small deterministic id for a sync object (first-use
// order within the execution). The table keeps the object reachable, so an
// address is never reused within one execution.
//
//go:norace
func objectID(p unsafe.Pointer) int32 {
	if p == nil {
		return -1
	}
	h := uint32(uintptr(p)>>3) * 2654435761
	i := h % maxObjs
	for n := 0; n < maxObjs; n++ {
		e := &objTab[i]
		if e.p == p {
			return e.id
		}
		if e.p == nil {
			if nobjs >= maxObjs-1 {
				return -2
			}
			objUsed[nobjs] = uint16(i)
			nobjs++
			e.p = p
			e.id = nobjs
			return nobjs
		}
		i = (i + 1) % maxObjs
	}
	return -2
}

// Run executes main as thread 0 under the scheduler and returns when main
// returned, the execution dead-locked, a thread panicked or the step limit
// was reached.
//
//go:norace
func Run(ch Chooser, opt Options, main func()) *Result {
	if cur != nil && !cur.over {
		panic("vrt: nested Run")
	}
	if DefaultUnlockPoints {
		opt.UnlockPoints = true
	}
	s := &sched{ch: ch, opt: opt, done: make(chan struct{}, 1)}
	s.maxSteps = opt.MaxSteps
	if s.maxSteps == 0 {
		s.maxSteps = 20000
	}
	s.sig = 14695981039346656037
	s.now = opt.StartNanos
	s.mapDesc = opt.MapDesc
	if opt.Trace {
		s.trace = make([]string, 0, 1024)
	}
	resetObjs()
	resetTouch()
	stamp = 0
	cur = s
	t0 := s.newThread("main")
	go threadBody(t0, main)
	s.cur = t0
	t0.state = tsRunning
	raceDisable()
	t0.wake <- struct{}{}
	<-s.done
	raceEnable()
	s.over = true
	r := &Result{Steps: s.steps, Points: s.points, Aborted: s.aborted, Panic: s.panicMsg, TraceSig: s.sig, Trace: s.trace, MaxEn: s.maxEn, Threads: s.nthreads}
	for i := 0; i < s.nthreads; i++ {
		t := s.threads[i]
		if t.state != tsFinished {
			r.Leaked++
			r.Parked = append(r.Parked, fmt.Sprintf("T%d(%s) parked at %s obj#%d", t.id, t.name, t.op, t.objID))
		} else {
			// real, race-visible join edge: thread exit -> driver
			<-t.exited
		}
	}
	cur = nil
	return r
}

//go:norace
func (s *sched) newThread(name string) *Thread {
	if s.nthreads >= maxThreads {
		panic("vrt: too many threads")
	}
	t := &Thread{id: s.nthreads, name: name, wake: make(chan struct{}, 1), exited: make(chan struct{}), s: s, op: opStart, state: tsPending}
	s.threads[s.nthreads] = t
	s.nthreads++
	return t
}

func threadBody(t *Thread, f func()) {
	threadStart(t)
	defer threadEnd(t)
	f()
}

//go:norace
func threadStart(t *Thread) {
	raceDisable()
	<-t.wake
	raceEnable()
}

//go:norace
func threadEnd(t *Thread) {
	if r := recover(); r != nil {
		if _, ok := r.(abortToken); ok {
			return
		}
		t.s.abort("panic", fmt.Sprintf("T%d(%s): %v\n%s", t.id, t.name, r, debug.Stack()))
		return
	}
	t.exit()
}

type abortToken struct{}

// Go starts f as a new thread.
func Go(f func()) { GoNamed("", f) }

// GoNamed starts f as a new named thread.
//
//go:norace
func GoNamed(name string, f func()) {
	s := cur
	if s == nil || s.over {
		go f()
		return
	}
	t := s.newThread(name)
	go threadBody(t, f) // real go statement: race-visible parent -> child edge
}

// Go1 .. Go4: `go f(a, b)` with arguments evaluated by the caller.
func Go1[A any](f func(A), a A)                                  { Go(func() { f(a) }) }
func Go2[A, B any](f func(A, B), a A, b B)                       { Go(func() { f(a, b) }) }
func Go3[A, B, C any](f func(A, B, C), a A, b B, c C)            { Go(func() { f(a, b, c) }) }
func Go4[A, B, C, D any](f func(A, B, C, D), a A, b B, c C, d D) { Go(func() { f(a, b, c, d) }) }
func Go5[A, B, C, D, E any](f func(A, B, C, D, E), a A, b B, c C, d D, e E) {
	Go(func() { f(a, b, c, d, e) })
}

//go:norace
func (t *Thread) exit() {
	s := t.s
	t.state = tsFinished
	t.op = opNone
	close(t.exited)
	if s.over {
		return
	}
	if t.id == 0 {
		// main returned: execution over.
		s.finish()
		return
	}
	next := s.pick(nil)
	if next == nil {
		return
	}
	s.cur = next
	next.state = tsRunning
	raceDisable()
	next.wake <- struct{}{}
	raceEnable()
}

//go:norace
func (s *sched) finish() {
	if s.over {
		return
	}
	s.over = true
	raceDisable()
	s.done <- struct{}{}
	raceEnable()
}

// abort ends the execution; the calling goroutine must not touch scheduler
// state afterwards.
//
//go:norace
func (s *sched) abort(kind, msg string) {
	if s.over {
		return
	}
	if kind == "panic" {
		s.panicMsg = msg
	}
	s.aborted = kind + ": " + msg
	s.finish()
}

// parkForever blocks the calling goroutine for good (after an abort).
func parkForever() {
	raceDisable()
	select {}
}

// point publishes the current thread's pending operation, lets the scheduler
// pick, and returns when this thread has been chosen to perform it.
//
//go:norace
func (s *sched) point(t *Thread) {
	if s.over {
		parkForever()
	}
	s.steps++
	if s.steps > s.maxSteps {
		s.abort("steplimit", "step limit reached")
		parkForever()
	}
	t.state = tsPending
	next := s.pick(t)
	if next == nil {
		parkForever()
	}
	s.cur = next
	next.state = tsRunning
	if next != t {
		raceDisable()
		next.wake <- struct{}{}
		<-t.wake
		raceEnable()
		if t.rdv {
			// released as the passive half of a rendezvous: the initiator
			// is still the running thread; touch no scheduler state.
			return
		}
		if s.over {
			parkForever()
		}
	}
	if s.trace != nil {
		s.traceStep(t)
	}
	s.sig = fnv(fnv(fnv(s.sig, uint64(t.id)), uint64(t.op)), uint64(uint32(t.objID)))
}

//go:norace
func (s *sched) traceStep(t *Thread) {
	s.trace = append(s.trace, fmt.Sprintf("T%d %s #%d", t.id, t.op, t.objID))
}

// enabled reports whether t's pending operation can be performed now.
//
//go:norace
func (s *sched) enabled(t *Thread) bool {
	switch t.op {
	case opStart, opResume, opYield, opWLock, opClose, opCancel:
		return true
	case opLock:
		return (*Mutex)(t.obj).holder == 0
	case opOnce:
		return (*Once)(t.obj).m.holder == 0
	case opRLock:
		m := (*RWMutex)(t.obj)
		return m.writer == 0 && m.wwait == 0
	case opWAcquire:
		m := (*RWMutex)(t.obj)
		return m.writer == 0 && m.readers == 0
	case opSend:
		return s.chanReady(t, t.obj, true)
	case opRecv:
		return s.chanReady(t, t.obj, false)
	case opSelect:
		if t.hasDef {
			return true
		}
		for i := 0; i < t.ncases; i++ {
			if s.chanReady(t, t.cases[i].ch, t.cases[i].send) {
				return true
			}
		}
		return false
	case opWGWait:
		return (*WaitGroup)(t.obj).n <= 0
	case opCondWait:
		return false // woken by Signal/Broadcast which changes op to opLock
	case opSleep:
		return (*Timer)(t.obj).fired
	case opGate:
		return (*Gate)(t.obj).open
	case opIdle:
		return false // handled in pick
	}
	return false
}

// hchan mirrors the head of runtime.hchan (validated by selfTest at start-up).
type hchan struct {
	qcount   uint
	dataqsiz uint
	buf      unsafe.Pointer
	elemsize uint16
	closed   uint32
}

//go:norace
func (s *sched) chanReady(self *Thread, c unsafe.Pointer, send bool) bool {
	if c == nil {
		return false
	}
	h := (*hchan)(c)
	if h.closed != 0 {
		return true // recv yields zero value; send panics (as Go does)
	}
	if h.dataqsiz > 0 {
		if send {
			return h.qcount < h.dataqsiz
		}
		return h.qcount > 0
	}
	// unbuffered: needs a partner parked on the opposite direction
	return s.partner(self, c, send) != nil
}

// partner finds a thread parked on the opposite direction of unbuffered c.
//
//go:norace
func (s *sched) partner(self *Thread, c unsafe.Pointer, send bool) *Thread {
	for i := 0; i < s.nthreads; i++ {
		p := s.threads[i]
		if p == self || p.state != tsPending {
			continue
		}
		switch p.op {
		case opSend:
			if !send && p.obj == c {
				return p
			}
		case opRecv:
			if send && p.obj == c {
				return p
			}
		case opSelect:
			for j := 0; j < p.ncases; j++ {
				if p.cases[j].ch == c && p.cases[j].send != send {
					return p
				}
			}
		}
	}
	return nil
}

// pick chooses the next thread to run. c is the calling thread (nil when the
// caller has finished). Armed timers may fire here as deviations.
//
//go:norace
func (s *sched) pick(c *Thread) *Thread {
	var opts [maxThreads + maxTimers]int16 // >=0 thread id, <0 timer index -(i+1)
	var costs [maxThreads + maxTimers]uint8
	for {
		n := 0
		curEn := c != nil && s.enabled(c)
		if curEn {
			opts[n] = int16(c.id)
			costs[n] = 0
			n++
		}
		var idle *Thread
		for j := 0; j < s.nthreads; j++ {
			i := j
			if s.opt.Reverse {
				i = s.nthreads - 1 - j
			}
			t := s.threads[i]
			if t == c || t.state != tsPending {
				continue
			}
			if t.op == opIdle {
				idle = t
				continue
			}
			if s.enabled(t) {
				opts[n] = int16(t.id)
				if curEn || (n > 0 && !s.opt.FreeSwitch) {
					costs[n] = 1
				} else {
					costs[n] = 0
				}
				n++
			}
		}
		if c != nil && c.op == opIdle {
			idle = c
		}
		if n > s.maxEn {
			s.maxEn = n
		}
		if n == 0 {
			if idle != nil {
				return idle
			}
			s.abort("deadlock", "no enabled thread")
			return nil
		}
		if s.opt.EarlyTimers {
			for i := 0; i < s.ntimers; i++ {
				if s.timers[i].armed {
					opts[n] = int16(-(i + 1))
					costs[n] = 1
					n++
				}
			}
		}
		if n == 1 {
			return s.threads[opts[0]]
		}
		sig := s.sig
		for i := 0; i < n; i++ {
			sig = fnv(sig, uint64(uint16(opts[i])))
			if opts[i] >= 0 {
				t := s.threads[opts[i]]
				sig = fnv(fnv(sig, uint64(t.op)), uint64(uint32(t.objID)))
			}
		}
		s.points++
		k := s.ch.Choose(n, costs[:n], sig)
		if k < 0 || k >= n {
			s.abort("machinery", "chooser returned out-of-range choice")
			return nil
		}
		if opts[k] >= 0 {
			return s.threads[opts[k]]
		}
		s.fire(s.timers[-opts[k]-1])
		// loop: pick again with the timer fired
	}
}

// me returns the running thread, or nil outside executions.
//
//go:norace
func me() *Thread {
	s := cur
	if s == nil || s.over {
		return nil
	}
	return s.cur
}

// Yield is a pure scheduling point.
//
//go:norace
func Yield() {
	t := me()
	if t == nil {
		return
	}
	t.op = opYield
	t.obj = nil
	t.objID = -1
	t.s.point(t)
}

// Idle parks the calling thread (normally main) until no other thread is
// enabled.
//
//go:norace
func Idle() {
	t := me()
	if t == nil {
		return
	}
	t.op = opIdle
	t.obj = nil
	t.objID = -1
	t.s.point(t)
}

// Choose asks the explorer for an environment answer in [0,n). When dev is
// true every answer other than 0 costs one deviation.
//
//go:norace
func Choose(n int, dev bool) int {
	s := cur
	if s == nil || s.over || n <= 1 {
		return 0
	}
	var costs [64]uint8
	if n > 64 {
		panic("vrt.Choose: n too large")
	}
	if dev {
		for i := 1; i < n; i++ {
			costs[i] = 1
		}
	}
	s.points++
	k := s.ch.Choose(n, costs[:n], fnv(s.sig, uint64(n)+7777))
	s.sig = fnv(s.sig, uint64(k)+99)
	if s.trace != nil {
		s.traceChoose(n, k)
	}
	return k
}

//go:norace
func (s *sched) traceChoose(n, k int) {
	s.trace = append(s.trace, fmt.Sprintf("T%d choose %d/%d", s.cur.id, k, n))
}

// AllDone reports whether every thread except the caller has finished.
//
//go:norace
func AllDone() bool {
	s := cur
	if s == nil {
		return true
	}
	for i := 0; i < s.nthreads; i++ {
		t := s.threads[i]
		if t != s.cur && t.state != tsFinished {
			return false
		}
	}
	return true
}

// ParkedInfo describes the threads that have not finished (diagnostics).
//
//go:norace
func ParkedInfo() []string {
	s := cur
	if s == nil {
		return nil
	}
	var out []string
	for i := 0; i < s.nthreads; i++ {
		t := s.threads[i]
		if t != s.cur && t.state != tsFinished {
			out = append(out, fmt.Sprintf("T%d(%s) parked at %s obj#%d", t.id, t.name, t.op, t.objID))
		}
	}
	return out
}

// ThreadID returns the id of the running thread (-1 outside executions).
//
//go:norace
func ThreadID() int {
	t := me()
	if t == nil {
		return -1
	}
	return t.id
}

// Steps returns the number of scheduling steps so far (a logical clock).
//
//go:norace
func Steps() int {
	if cur == nil {
		return 0
	}
	return cur.steps
}

// Join gives the calling thread a real (race-visible) happens-before edge
// from every finished thread. Harness main threads call it before reading
// what the other threads produced.
//
//go:norace
func Join() {
	s := cur
	if s == nil {
		return
	}
	for i := 0; i < s.nthreads; i++ {
		t := s.threads[i]
		if t != s.cur && t.state == tsFinished {
			<-t.exited
		}
	}
}

var stamp int64

// Stamp returns the next value of a global logical clock (total order of
// harness events; one thread runs at a time).
//
//go:norace
func Stamp() int64 {
	stamp++
	return stamp
}

// afterUnlock is called by the lock shims after the real release.
//
//go:norace
func afterUnlock(obj unsafe.Pointer) {
	s := cur
	if s == nil || s.over || !s.opt.UnlockPoints {
		return
	}
	t := s.cur
	if t == nil || t.rdv {
		return
	}
	t.op = opYield
	t.obj = obj
	t.objID = objectID(obj)
	s.point(t)
}
