package vrt

import (
	"sync"
	"unsafe"
)

// Mutex is a sync.Mutex whose acquisitions are scheduling points. The real
// mutex underneath is what the race detector sees.
type Mutex struct {
	mu     sync.Mutex
	holder int32 // thread id+1; 0 free; -1 held outside an execution
}

//go:norace
func (m *Mutex) Lock() {
	t := me()
	if t == nil {
		m.mu.Lock()
		m.holder = -1
		return
	}
	t.op = opLock
	t.obj = unsafe.Pointer(m)
	t.objID = objectID(t.obj)
	t.s.point(t)
	m.holder = int32(t.id) + 1
	m.mu.Lock()
}

//go:norace
func (m *Mutex) Unlock() {
	m.holder = 0
	m.mu.Unlock()
	afterUnlock(unsafe.Pointer(m))
}

//go:norace
func (m *Mutex) TryLock() bool {
	t := me()
	if t == nil {
		if m.mu.TryLock() {
			m.holder = -1
			return true
		}
		return false
	}
	t.op = opYield
	t.obj = unsafe.Pointer(m)
	t.objID = objectID(t.obj)
	t.s.point(t)
	if m.holder != 0 {
		return false
	}
	m.holder = int32(t.id) + 1
	m.mu.Lock()
	return true
}

// RWMutex models Go's writer preference: once a writer waits, new readers block.
type RWMutex struct {
	mu      sync.RWMutex
	writer  int32
	readers int32
	wwait   int32
}

//go:norace
func (m *RWMutex) RLock() {
	t := me()
	if t == nil {
		m.mu.RLock()
		m.readers++
		return
	}
	t.op = opRLock
	t.obj = unsafe.Pointer(m)
	t.objID = objectID(t.obj)
	t.s.point(t)
	m.readers++
	m.mu.RLock()
}

//go:norace
func (m *RWMutex) RUnlock() {
	m.readers--
	m.mu.RUnlock()
	afterUnlock(unsafe.Pointer(m))
}

//go:norace
func (m *RWMutex) Lock() {
	t := me()
	if t == nil {
		m.mu.Lock()
		m.writer = -1
		return
	}
	t.op = opWLock
	t.obj = unsafe.Pointer(m)
	t.objID = objectID(t.obj)
	t.s.point(t)
	if m.writer != 0 || m.readers != 0 {
		// announce: from now on new readers block, as in Go.
		m.wwait++
		t.op = opWAcquire
		t.s.point(t)
		m.wwait--
	}
	m.writer = int32(t.id) + 1
	m.mu.Lock()
}

//go:norace
func (m *RWMutex) Unlock() {
	m.writer = 0
	m.mu.Unlock()
	afterUnlock(unsafe.Pointer(m))
}

//go:norace
func (m *RWMutex) TryLock() bool {
	t := me()
	if t != nil {
		t.op = opYield
		t.obj = unsafe.Pointer(m)
		t.objID = objectID(t.obj)
		t.s.point(t)
	}
	if m.writer != 0 || m.readers != 0 {
		return false
	}
	m.writer = -1
	if t != nil {
		m.writer = int32(t.id) + 1
	}
	m.mu.Lock()
	return true
}

//go:norace
func (m *RWMutex) TryRLock() bool {
	t := me()
	if t != nil {
		t.op = opYield
		t.obj = unsafe.Pointer(m)
		t.objID = objectID(t.obj)
		t.s.point(t)
	}
	if m.writer != 0 || m.wwait != 0 {
		return false
	}
	m.readers++
	m.mu.RLock()
	return true
}

type rlocker RWMutex

func (r *rlocker) Lock()   { (*RWMutex)(r).RLock() }
func (r *rlocker) Unlock() { (*RWMutex)(r).RUnlock() }

// RLocker returns a Locker that calls RLock/RUnlock.
func (m *RWMutex) RLocker() sync.Locker { return (*rlocker)(m) }

// Once is sync.Once with a scheduling point in front of Do.
type Once struct {
	real sync.Once
	m    Mutex // only the holder field is used (model of "Do in progress")
	done bool
}

//go:norace
func (o *Once) Do(f func()) {
	t := me()
	if t == nil {
		o.real.Do(f)
		return
	}
	t.op = opOnce
	t.obj = unsafe.Pointer(o)
	t.objID = objectID(t.obj)
	t.s.point(t)
	if o.done {
		o.real.Do(func() {})
		return
	}
	o.m.holder = int32(t.id) + 1
	defer o.onceDone()
	o.real.Do(f)
}

//go:norace
func (o *Once) onceDone() {
	o.done = true
	o.m.holder = 0
}

// WaitGroup is sync.WaitGroup with a blocking Wait modelled by the scheduler.
type WaitGroup struct {
	real sync.WaitGroup
	n    int
}

//go:norace
func (w *WaitGroup) Add(d int) {
	w.n += d
	w.real.Add(d)
}

func (w *WaitGroup) Done() { w.Add(-1) }

//go:norace
func (w *WaitGroup) Wait() {
	t := me()
	if t == nil {
		w.real.Wait()
		return
	}
	t.op = opWGWait
	t.obj = unsafe.Pointer(w)
	t.objID = objectID(t.obj)
	t.s.point(t)
	w.real.Wait()
}

// Cond is a ticket-based condition variable.
type Cond struct {
	L       sync.Locker
	waitSeq int64
	wakeSeq int64
	real    sync.Mutex // gives Signal -> Wait a race-visible edge
}

func NewCond(l sync.Locker) *Cond { return &Cond{L: l} }

//go:norace
func (c *Cond) Wait() {
	t := me()
	if t == nil {
		panic("vrt.Cond.Wait outside an execution is not supported")
	}
	// a scheduling point BEFORE the caller joins the wait list: whatever it
	// checked under the lock may change (without the lock) right here
	Yield()
	ticket := c.waitSeq
	c.waitSeq++
	c.L.Unlock()
	for c.wakeSeq <= ticket {
		// park until a Signal/Broadcast covers our ticket
		t.op = opCondWait
		t.obj = unsafe.Pointer(c)
		t.objID = objectID(t.obj)
		t.s.point(t)
	}
	c.real.Lock()
	c.real.Unlock()
	c.L.Lock()
}

//go:norace
func (c *Cond) Signal() {
	Yield()
	c.real.Lock()
	c.real.Unlock()
	if c.wakeSeq < c.waitSeq {
		c.wakeSeq++
		c.release()
	}
}

//go:norace
func (c *Cond) Broadcast() {
	Yield()
	c.real.Lock()
	c.real.Unlock()
	c.wakeSeq = c.waitSeq
	c.release()
}

// release makes the covered waiters runnable again.
//
//go:norace
func (c *Cond) release() {
	s := cur
	if s == nil {
		return
	}
	for i := 0; i < s.nthreads; i++ {
		p := s.threads[i]
		if p.state == tsPending && p.op == opCondWait && p.obj == unsafe.Pointer(c) {
			p.op = opResume
		}
	}
}

// Gate is a harness helper: threads wait until the gate is opened.
type Gate struct{ open bool }

//go:norace
func (g *Gate) Wait() {
	t := me()
	if t == nil {
		return
	}
	t.op = opGate
	t.obj = unsafe.Pointer(g)
	t.objID = objectID(t.obj)
	t.s.point(t)
}

//go:norace
func (g *Gate) Open() { g.open = true }

//go:norace
func (g *Gate) IsOpen() bool { return g.open }
