package vrt

import (
	"time"
	"unsafe"
)

// The virtual clock. Durations only order the clock readings; which armed
// timer fires next is decided by the explorer / the harness, never by the
// durations.
var vnow int64 = 1_000_000_000_000_000_000

// Now returns the virtual time.
//
//go:norace
func Now() time.Time { return time.Unix(0, vnow) }

// NowNanos returns the virtual clock reading.
//
//go:norace
func NowNanos() int64 { return vnow }

// SetNow sets the virtual clock.
//
//go:norace
func SetNow(n int64) { vnow = n }

// Advance moves the virtual clock forward.
//
//go:norace
func Advance(d time.Duration) { vnow += int64(d) }

// Elapse lets d of virtual time pass on the calling thread ("this operation
// took d"): the clock advances and every armed timer whose deadline has been
// reached expires, earliest deadline first. Unlike FireAny and the early-expiry
// deviation, which let an armed timer expire whatever its duration, Elapse
// respects durations: a timer re-armed for longer than d does not expire.
//
//go:norace
func Elapse(d time.Duration) {
	vnow += int64(d)
	s := cur
	if s == nil || s.over {
		return
	}
	for {
		best := -1
		for i := 0; i < s.ntimers; i++ {
			t := s.timers[i]
			if t.armed && t.deadline <= vnow && (best < 0 || t.deadline < s.timers[best].deadline) {
				best = i
			}
		}
		if best < 0 {
			return
		}
		s.fire(s.timers[best])
	}
}

// Timer mirrors time.Timer (pre-Go-1.23 channel semantics: the channel has
// capacity 1 and Stop/Reset do not drain it, which is what a go.mod with
// `go 1.22` selects).
type Timer struct {
	C        <-chan time.Time
	c        chan time.Time
	armed    bool
	fired    bool
	deadline int64
	period   int64 // tickers re-arm
	onFire   func()
	reg      bool
}

//go:norace
func (s *sched) register(t *Timer) {
	if t.reg {
		return
	}
	if s.ntimers >= maxTimers {
		// reuse a slot of a dead (stopped, unreferenced by threads) timer
		for i := 0; i < s.ntimers; i++ {
			if !s.timers[i].armed {
				s.timers[i].reg = false
				s.timers[i] = t
				t.reg = true
				return
			}
		}
		panic("vrt: too many timers")
	}
	s.timers[s.ntimers] = t
	s.ntimers++
	t.reg = true
}

//go:norace
func newTimer(d time.Duration, withChan bool) *Timer {
	t := &Timer{}
	if withChan {
		t.c = make(chan time.Time, 1)
		t.C = t.c
	}
	t.arm(d)
	return t
}

//go:norace
func (t *Timer) arm(d time.Duration) {
	t.armed = true
	t.fired = false
	t.deadline = vnow + int64(d)
	if s := cur; s != nil && !s.over {
		s.register(t)
	}
}

// NewTimer mirrors time.NewTimer.
func NewTimer(d time.Duration) *Timer { return newTimer(d, true) }

// After mirrors time.After.
func After(d time.Duration) <-chan time.Time { return newTimer(d, true).C }

// AfterFunc mirrors time.AfterFunc: f runs in its own thread once the timer fired.
func AfterFunc(d time.Duration, f func()) *Timer {
	t := newTimer(d, false)
	GoNamed("afterfunc", func() {
		for {
			waitFired(t)
			if t.fired {
				t.fired = false
				f()
			}
			if !t.armed {
				return
			}
		}
	})
	return t
}

//go:norace
func waitFired(t *Timer) {
	th := me()
	if th == nil {
		return
	}
	th.op = opSleep
	th.obj = unsafe.Pointer(t)
	th.objID = objectID(th.obj)
	th.s.point(th)
}

// Sleep blocks until its (virtual) timer is fired.
func Sleep(d time.Duration) {
	if me() == nil {
		return
	}
	t := newTimer(d, false)
	waitFired(t)
}

// Stop mirrors (*time.Timer).Stop.
//
//go:norace
func (t *Timer) Stop() bool {
	was := t.armed
	t.armed = false
	return was
}

// Reset mirrors (*time.Timer).Reset.
//
//go:norace
func (t *Timer) Reset(d time.Duration) bool {
	was := t.armed
	t.arm(d)
	return was
}

// fire delivers the expiry of an armed timer. It runs on whichever goroutine
// is executing the scheduler, with synchronisation hidden from the race
// detector (a timer expiry orders nothing).
//
//go:norace
func (s *sched) fire(t *Timer) {
	if !t.armed {
		return
	}
	t.armed = false
	t.fired = true
	if t.deadline > vnow {
		vnow = t.deadline
	}
	if s.trace != nil {
		s.traceFire(t)
	}
	s.sig = fnv(s.sig, 31337)
	raceDisable()
	if t.c != nil {
		select {
		case t.c <- time.Unix(0, vnow):
		default:
		}
	}
	if t.onFire != nil {
		t.onFire()
	}
	raceEnable()
	if t.period > 0 {
		t.armed = true
		t.deadline = vnow + t.period
	}
}

//go:norace
func (s *sched) traceFire(t *Timer) {
	for i := 0; i < s.ntimers; i++ {
		if s.timers[i] == t {
			s.trace = append(s.trace, "fire timer "+itoa(i))
		}
	}
}

func itoa(i int) string {
	if i == 0 {
		return "0"
	}
	var b [20]byte
	n := len(b)
	neg := i < 0
	if neg {
		i = -i
	}
	for i > 0 {
		n--
		b[n] = byte('0' + i%10)
		i /= 10
	}
	if neg {
		n--
		b[n] = '-'
	}
	return string(b[n:])
}

// NewContextTimer arms a timer whose expiry calls f inside the scheduler
// (used by vcontext for deadlines).
func NewContextTimer(d time.Duration, f func()) *Timer {
	t := &Timer{onFire: f}
	t.arm(d)
	return t
}

// ArmedTimers returns the number of armed timers.
//
//go:norace
func ArmedTimers() int {
	s := cur
	if s == nil {
		return 0
	}
	n := 0
	for i := 0; i < s.ntimers; i++ {
		if s.timers[i].armed {
			n++
		}
	}
	return n
}

// FireAny lets the explorer pick one armed timer (a free choice) and fires
// it. It reports whether a timer fired. Called by harness main threads at
// quiescence: "time passes".
//
//go:norace
func FireAny() bool {
	s := cur
	if s == nil || s.over {
		return false
	}
	var idx [maxTimers]int
	n := 0
	for i := 0; i < s.ntimers; i++ {
		if s.timers[i].armed {
			idx[n] = i
			n++
		}
	}
	if n == 0 {
		return false
	}
	k := 0
	if n > 1 {
		k = Choose(n, false)
	}
	s.fire(s.timers[idx[k]])
	return true
}

// Ticker mirrors time.Ticker; it ticks whenever its timer is fired.
type Ticker struct {
	C <-chan time.Time
	t *Timer
}

func NewTicker(d time.Duration) *Ticker {
	t := newTimer(d, true)
	t.period = int64(d)
	return &Ticker{C: t.C, t: t}
}

//go:norace
func (t *Ticker) Stop() { t.t.armed = false; t.t.period = 0 }

//go:norace
func (t *Ticker) Reset(d time.Duration) { t.t.period = int64(d); t.t.arm(d) }
