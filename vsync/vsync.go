// Package vsync replaces "sync" in instrumented packages (vinstr rewrites the
// import path and keeps the local name `sync`).
package vsync

import (
	"sync"

	"github.com/openconfig/gnmi/zzverif/vrt"
)

type (
	Mutex     = vrt.Mutex
	RWMutex   = vrt.RWMutex
	Once      = vrt.Once
	WaitGroup = vrt.WaitGroup
	Cond      = vrt.Cond
	Locker    = sync.Locker
	Map       = sync.Map
	Pool      = sync.Pool
)

func NewCond(l Locker) *Cond { return vrt.NewCond(l) }

func OnceFunc(f func()) func() {
	var o Once
	return func() { o.Do(f) }
}

func OnceValue[T any](f func() T) func() T {
	var o Once
	var v T
	return func() T { o.Do(func() { v = f() }); return v }
}

func OnceValues[T1, T2 any](f func() (T1, T2)) func() (T1, T2) {
	var o Once
	var v1 T1
	var v2 T2
	return func() (T1, T2) { o.Do(func() { v1, v2 = f() }); return v1, v2 }
}
