// Package vsync replaces "sync" in instrumented packages (vinstr rewrites the
// import path and keeps the local name `sync`).
package vsync

import (
	"fmt"
	"sort"
	"sync"

	"github.com/openconfig/gnmi/zzverif/vrt"
)

type (
	Mutex     = vrt.Mutex
	RWMutex   = vrt.RWMutex
	Once      = vrt.Once
	WaitGroup = vrt.WaitGroup
	Cond      = vrt.Cond
	Locker    = sync.Locker
)

func NewCond(l Locker) *Cond { return vrt.NewCond(l) }

func OnceFunc(f func()) func() {
	var o Once
	return func() { o.Do(f) }
}

func OnceValue[T any](f func() T) func() T {
	var o Once
	var v T
	return func() T { o.Do(func() { v = f() }); return v }
}

func OnceValues[T1, T2 any](f func() (T1, T2)) func() (T1, T2) {
	var o Once
	var v1 T1
	var v2 T2
	return func() (T1, T2) { o.Do(func() { v1, v2 = f() }); return v1, v2 }
}

// Map is sync.Map with a scheduling point in front of every operation (each
// operation is atomic, sequences of them are not).
type Map struct{ m sync.Map }

func (m *Map) Load(key any) (any, bool)        { vrt.Yield(); return m.m.Load(key) }
func (m *Map) Store(key, value any)            { vrt.Yield(); m.m.Store(key, value) }
func (m *Map) Delete(key any)                  { vrt.Yield(); m.m.Delete(key) }
func (m *Map) Swap(key, value any) (any, bool) { vrt.Yield(); return m.m.Swap(key, value) }
func (m *Map) LoadOrStore(key, value any) (any, bool) {
	vrt.Yield()
	return m.m.LoadOrStore(key, value)
}
func (m *Map) LoadAndDelete(key any) (any, bool) { vrt.Yield(); return m.m.LoadAndDelete(key) }
func (m *Map) CompareAndSwap(key, old, new any) bool {
	vrt.Yield()
	return m.m.CompareAndSwap(key, old, new)
}
func (m *Map) CompareAndDelete(key, old any) bool {
	vrt.Yield()
	return m.m.CompareAndDelete(key, old)
}

// Range visits the entries in a deterministic order (sorted by the printed
// key) with a scheduling point before each callback.
func (m *Map) Range(f func(key, value any) bool) {
	vrt.Yield()
	type kv struct {
		k, v any
		s    string
	}
	var all []kv
	m.m.Range(func(k, v any) bool { all = append(all, kv{k, v, fmt.Sprint(k)}); return true })
	sort.SliceStable(all, func(i, j int) bool { return all[i].s < all[j].s })
	for _, e := range all {
		vrt.Yield()
		if !f(e.k, e.v) {
			return
		}
	}
}

// Pool is a deterministic, adversarial sync.Pool: one shared LIFO (the object
// put last is the one handed out next, whichever thread asks - a behaviour the
// real pool may show), with a scheduling point before Get and after Put, so
// that "still used after it was put back" is explored instead of left to the
// runtime's per-P caches.
type Pool struct {
	New   func() any
	items []any
}

func (p *Pool) Get() any {
	vrt.Yield()
	if n := len(p.items); n > 0 {
		x := p.items[n-1]
		p.items = p.items[:n-1]
		return x
	}
	if p.New != nil {
		return p.New()
	}
	return nil
}

func (p *Pool) Put(x any) {
	if x == nil {
		return
	}
	p.items = append(p.items, x)
	vrt.Yield()
}
