// Package vtime replaces "time" in instrumented packages: the clock, timers
// and sleeps are virtual (owned by vrt); everything else is the real package.
package vtime

import (
	"time"

	"github.com/openconfig/gnmi/zzverif/vrt"
)

type (
	Duration   = time.Duration
	Time       = time.Time
	Month      = time.Month
	Weekday    = time.Weekday
	Location   = time.Location
	ParseError = time.ParseError
	Timer      = vrt.Timer
	Ticker     = vrt.Ticker
)

const (
	Nanosecond  = time.Nanosecond
	Microsecond = time.Microsecond
	Millisecond = time.Millisecond
	Second      = time.Second
	Minute      = time.Minute
	Hour        = time.Hour

	Layout      = time.Layout
	ANSIC       = time.ANSIC
	UnixDate    = time.UnixDate
	RubyDate    = time.RubyDate
	RFC822      = time.RFC822
	RFC822Z     = time.RFC822Z
	RFC850      = time.RFC850
	RFC1123     = time.RFC1123
	RFC1123Z    = time.RFC1123Z
	RFC3339     = time.RFC3339
	RFC3339Nano = time.RFC3339Nano
	Kitchen     = time.Kitchen
	Stamp       = time.Stamp
	StampMilli  = time.StampMilli
	StampMicro  = time.StampMicro
	StampNano   = time.StampNano
	DateTime    = time.DateTime
	DateOnly    = time.DateOnly
	TimeOnly    = time.TimeOnly

	January   = time.January
	February  = time.February
	March     = time.March
	April     = time.April
	May       = time.May
	June      = time.June
	July      = time.July
	August    = time.August
	September = time.September
	October   = time.October
	November  = time.November
	December  = time.December

	Sunday    = time.Sunday
	Monday    = time.Monday
	Tuesday   = time.Tuesday
	Wednesday = time.Wednesday
	Thursday  = time.Thursday
	Friday    = time.Friday
	Saturday  = time.Saturday
)

var (
	UTC   = time.UTC
	Local = time.Local
)

func Now() Time                                { return vrt.Now() }
func Since(t Time) Duration                    { return vrt.Now().Sub(t) }
func Until(t Time) Duration                    { return t.Sub(vrt.Now()) }
func Sleep(d Duration)                         { vrt.Sleep(d) }
func NewTimer(d Duration) *Timer               { return vrt.NewTimer(d) }
func After(d Duration) <-chan Time             { return vrt.After(d) }
func AfterFunc(d Duration, f func()) *Timer    { return vrt.AfterFunc(d, f) }
func NewTicker(d Duration) *Ticker             { return vrt.NewTicker(d) }
func Tick(d Duration) <-chan Time              { return vrt.NewTicker(d).C }
func Unix(sec, nsec int64) Time                { return time.Unix(sec, nsec) }
func UnixMilli(m int64) Time                   { return time.UnixMilli(m) }
func UnixMicro(m int64) Time                   { return time.UnixMicro(m) }
func ParseDuration(s string) (Duration, error) { return time.ParseDuration(s) }
func Parse(layout, value string) (Time, error) { return time.Parse(layout, value) }
func ParseInLocation(l, v string, loc *Location) (Time, error) {
	return time.ParseInLocation(l, v, loc)
}
func Date(y int, m Month, d, h, mi, s, ns int, loc *Location) Time {
	return time.Date(y, m, d, h, mi, s, ns, loc)
}
func FixedZone(name string, off int) *Location    { return time.FixedZone(name, off) }
func LoadLocation(name string) (*Location, error) { return time.LoadLocation(name) }
func LoadLocationFromTZData(n string, d []byte) (*Location, error) {
	return time.LoadLocationFromTZData(n, d)
}
