package xplore

import (
	"bufio"
	"encoding/json"
	"flag"
	"fmt"
	"os"
	"os/exec"
	"path/filepath"
	"runtime"
	"sort"
	"strings"
	"sync"
	"sync/atomic"
	"time"

	"github.com/openconfig/gnmi/zzverif/vrt"
)

// Item is one unit of work: explore the subtree below Devs.
type Item struct {
	ID       int   `json:"id"`
	Cfg      int   `json:"cfg"`
	Bound    int   `json:"bound"`
	Devs     []Dev `json:"devs"`
	Cost     int   `json:"cost"`
	Split    int   `json:"split"`
	Deadline int64 `json:"deadline"` // unix ms; 0 = none
}

// VioRec is a violation with the schedule that produced it.
type VioRec struct {
	Cfg     int      `json:"cfg"`
	CfgName string   `json:"cfg_name"`
	Devs    []Dev    `json:"devs"`
	Class   string   `json:"class"`
	Msg     string   `json:"msg"`
	Trace   []string `json:"trace,omitempty"`
	Stable  bool     `json:"stable"`
}

// ItemResult is what a worker returns for an item.
type ItemResult struct {
	ID         int              `json:"id"`
	Cfg        int              `json:"cfg"`
	Bound      int              `json:"bound"`
	Execs      int64            `json:"execs"` // distinct schedules (cost == level)
	Runs       int64            `json:"runs"`  // executions actually run (incl. re-runs of cheaper schedules)
	ByCost     []int64          `json:"by_cost"`
	Nodes      int64            `json:"nodes"`
	Steps      int64            `json:"steps"`
	Obs        map[string]int64 `json:"obs"`
	Nontrivial int64            `json:"nontrivial"`
	Violations []VioRec         `json:"violations"`
	Known      map[string]int64 `json:"known"`
	Children   []Item           `json:"children"`
	Incomplete bool             `json:"incomplete"`
	MaxEn      int              `json:"max_en"`
	MaxThreads int              `json:"max_threads"`
	Leaked     int64            `json:"leaked"`
	StepLimit  int64            `json:"step_limit"`
	Machinery  string           `json:"machinery"`
	Sample     string           `json:"sample,omitempty"`
}

var progress int64 // executions finished by this worker process (watchdog)

type worker struct {
	race     *raceWatcher
	h        Harness
	tier     string
	cfgs     []Config
	known    map[string]bool
	maxVio   int
	obsLimit int
}

func (w *worker) process(it Item) ItemResult {
	r := ItemResult{ID: it.ID, Cfg: it.Cfg, Bound: it.Bound, Obs: map[string]int64{}, Known: map[string]int64{}, ByCost: make([]int64, it.Bound+1)}
	cfg := w.cfgs[it.Cfg]
	var rec func(devs []Dev, cost int, split int)
	stop := false
	rec = func(devs []Dev, cost int, split int) {
		if stop {
			return
		}
		if it.Deadline != 0 && time.Now().UnixMilli() > it.Deadline {
			r.Incomplete = true
			stop = true
			return
		}
		out, res, c := execOnce(w.h, cfg, devs, false)
		atomic.AddInt64(&progress, 1)
		out.Violations = append(out.Violations, w.race.poll()...)
		if c.diverged != "" {
			r.Machinery = fmt.Sprintf("cfg %s: %s", cfg.Name, c.diverged)
			stop = true
			return
		}
		if strings.HasPrefix(res.Aborted, "machinery") {
			r.Machinery = fmt.Sprintf("cfg %s: %s", cfg.Name, res.Aborted)
			stop = true
			return
		}
		r.Runs++
		if cost < len(r.ByCost) {
			r.ByCost[cost]++
		}
		start := 0
		if len(devs) > 0 {
			start = devs[len(devs)-1].At + 1
		}
		// Iterative bounding re-runs the cheaper schedules at every level;
		// only schedules whose cost equals the level are new and counted.
		isNew := cost == it.Bound
		if isNew {
			r.Execs++
			r.Nodes += int64(len(c.pts) - start)
			if len(devs) == 0 {
				r.Nodes++
			}
			r.Steps += int64(res.Steps)
		}
		r.Leaked += int64(res.Leaked)
		if res.MaxEn > r.MaxEn {
			r.MaxEn = res.MaxEn
		}
		if res.Threads > r.MaxThreads {
			r.MaxThreads = res.Threads
		}
		if strings.HasPrefix(res.Aborted, "steplimit") {
			r.StepLimit++
			r.Incomplete = true
		}
		if out.Nontrivial && isNew {
			r.Nontrivial++
		}
		if isNew && (len(r.Obs) < w.obsLimit || r.Obs[out.Obs] > 0) {
			r.Obs[out.Obs]++
		}
		if r.Sample == "" && len(devs) == it.Bound && out.Obs != "" {
			r.Sample = fmt.Sprintf("cfg=%s devs=%v obs=%s", cfg.Name, devsShort(devs), out.Obs)
		}
		for _, v := range out.Violations {
			if w.known[v.Class] {
				r.Known[v.Class]++
				continue
			}
			if strings.HasPrefix(v.Class, "race-in-harness:") {
				r.Machinery = fmt.Sprintf("cfg %s: %s\n%s", cfg.Name, v.Class, v.Msg)
				stop = true
				return
			}
			var vr VioRec
			if strings.HasPrefix(v.Class, "race:") {
				// the detector reports each race once per process: no re-run
				vr = VioRec{Cfg: it.Cfg, CfgName: cfg.Name, Devs: devs, Class: v.Class, Msg: v.Msg, Stable: true}
			} else {
				vr = w.confirm(cfg, it.Cfg, devs, v)
			}
			r.Violations = append(r.Violations, vr)
			if len(r.Violations) >= w.maxVio {
				stop = true
				return
			}
		}
		pts := c.pts
		for i := start; i < len(pts) && !stop; i++ {
			p := pts[i]
			for alt := 1; alt < int(p.n); alt++ {
				cc := cost
				if p.mask&(1<<uint(alt)) != 0 {
					cc++
				}
				if cc > it.Bound {
					continue
				}
				child := make([]Dev, len(devs)+1)
				copy(child, devs)
				child[len(devs)] = Dev{At: i, Choice: alt, Sig: p.sig}
				if split > 0 {
					r.Children = append(r.Children, Item{Cfg: it.Cfg, Bound: it.Bound, Devs: child, Cost: cc, Split: split - 1, Deadline: it.Deadline})
				} else {
					rec(child, cc, 0)
				}
			}
		}
	}
	rec(it.Devs, it.Cost, it.Split)
	return r
}

func devsShort(d []Dev) string {
	var b strings.Builder
	for i, x := range d {
		if i > 0 {
			b.WriteByte(' ')
		}
		fmt.Fprintf(&b, "%d:%d", x.At, x.Choice)
	}
	return "[" + b.String() + "]"
}

// confirm re-runs a violating schedule five times and requires the same
// trace and the same violation class each time.
func (w *worker) confirm(cfg Config, ci int, devs []Dev, v Violation) VioRec {
	vr := VioRec{Cfg: ci, CfgName: cfg.Name, Devs: devs, Class: v.Class, Msg: v.Msg, Stable: true}
	var sig uint64
	for i := 0; i < 5; i++ {
		out, res, c := execOnce(w.h, cfg, devs, i == 0)
		if i == 0 {
			sig = res.TraceSig
			vr.Trace = res.Trace
			if len(vr.Trace) > 400 {
				vr.Trace = vr.Trace[len(vr.Trace)-400:]
			}
		}
		found := false
		for _, x := range out.Violations {
			if x.Class == v.Class {
				found = true
			}
		}
		if !found || res.TraceSig != sig || c.diverged != "" {
			vr.Stable = false
		}
	}
	return vr
}

// Finding is one line of known_findings.jsonl.
type Finding struct {
	Status   string `json:"status"` // "known" or "fixed"
	Property string `json:"property"`
	Class    string `json:"class"`
	What     string `json:"what"`
	Commit   string `json:"commit,omitempty"`
}

// LoadFindings reads the known-findings file (read-only at run time).
func LoadFindings(path, property string) (known []Finding) {
	f, err := os.Open(path)
	if err != nil {
		return nil
	}
	defer f.Close()
	sc := bufio.NewScanner(f)
	sc.Buffer(make([]byte, 1<<20), 1<<20)
	for sc.Scan() {
		line := strings.TrimSpace(sc.Text())
		if line == "" || strings.HasPrefix(line, "#") {
			continue
		}
		var fd Finding
		if json.Unmarshal([]byte(line), &fd) != nil {
			continue
		}
		if fd.Property == property && fd.Status == "known" {
			known = append(known, fd)
		}
	}
	return known
}

// Main is the entry point of every schedule-exploration harness binary.
func Main(h Harness) {
	var (
		tier     = flag.String("tier", "quick", "quick|thorough")
		isWorker = flag.Bool("worker", false, "run as worker (items on stdin)")
		replay   = flag.String("replay", "", "replay a violation file")
		evidence = flag.String("evidence", "", "evidence file to write")
		knownF   = flag.String("known", "", "known findings file")
		replays  = flag.String("replays", "", "directory for replay artefacts")
		procs    = flag.Int("procs", 0, "worker processes (0 = NumCPU)")
		budget   = flag.Duration("budget", 0, "wall-clock budget (0 = none); levels in progress become exhaustive:false")
		only     = flag.String("only", "", "only configurations whose name contains this")
		maxBound = flag.Int("maxbound", -1, "override deviation bound")
		list     = flag.Bool("list", false, "list configurations")
		racepass = flag.Bool("racepass", false, "this is the -race build: collect race detector reports per execution")
		racelog  = flag.String("racelog", "", "GORACE log_path prefix")
		unlockPt = flag.Bool("unlockpoints", false, "scheduling point after every Unlock/RUnlock as well")
	)
	QuietLogs()
	flag.Parse()
	vrt.DefaultUnlockPoints = *unlockPt
	if err := vrt.SelfTest(); err != nil {
		fmt.Fprintln(os.Stderr, "MACHINERY:", err)
		os.Exit(2)
	}
	cfgs := h.Configs(*tier)
	if *list {
		for i, c := range cfgs {
			fmt.Printf("%d %s bound=%d\n", i, c.Name, c.Bound)
		}
		return
	}
	known := map[string]bool{}
	var knownList []Finding
	if *knownF != "" {
		knownList = LoadFindings(*knownF, h.Property())
		for _, k := range knownList {
			known[k.Class] = true
		}
	}
	if *racepass && !vrt.RaceMode {
		fmt.Fprintln(os.Stderr, "MACHINERY: -racepass needs a -race build")
		os.Exit(2)
	}
	if *isWorker {
		runWorker(h, *tier, cfgs, known, *racelog)
		return
	}
	if *replay != "" {
		os.Exit(doReplay(h, cfgs, *replay))
	}
	d := &driver{racelog: *racelog, h: h, tier: *tier, cfgs: cfgs, known: knownList, evidence: *evidence, replays: *replays, procs: *procs, budget: *budget, only: *only, maxBound: *maxBound, knownFile: *knownF}
	os.Exit(d.run())
}

func runWorker(h Harness, tier string, cfgs []Config, known map[string]bool, racelog string) {
	w := &worker{h: h, tier: tier, cfgs: cfgs, known: known, maxVio: 3, obsLimit: 2000, race: newRaceWatcher(racelog)}
	in := bufio.NewReaderSize(os.Stdin, 1<<20)
	out := bufio.NewWriter(os.Stdout)
	dec := json.NewDecoder(in)
	enc := json.NewEncoder(out)
	// watchdog: an execution that stops making progress is a machinery error.
	var mu sync.Mutex
	last := time.Now()
	busy := false
	go func() {
		var seen int64 = -1
		for {
			time.Sleep(5 * time.Second)
			mu.Lock()
			if p := atomic.LoadInt64(&progress); p != seen {
				seen, last = p, time.Now()
			}
			stuck := busy && time.Since(last) > 120*time.Second
			mu.Unlock()
			if stuck {
				fmt.Fprintln(os.Stderr, "MACHINERY: worker watchdog expired")
				buf := make([]byte, 1<<20)
				n := runtime.Stack(buf, true)
				os.Stderr.Write(buf[:n])
				os.Exit(3)
			}
		}
	}()
	for {
		var it Item
		if err := dec.Decode(&it); err != nil {
			return
		}
		mu.Lock()
		busy, last = true, time.Now()
		mu.Unlock()
		r := w.process(it)
		mu.Lock()
		busy = false
		mu.Unlock()
		if err := enc.Encode(&r); err != nil {
			return
		}
		out.Flush()
	}
}

type driver struct {
	racelog   string
	h         Harness
	tier      string
	cfgs      []Config
	known     []Finding
	knownFile string
	evidence  string
	replays   string
	procs     int
	budget    time.Duration
	only      string
	maxBound  int
}

type levelStat struct {
	Bound      int   `json:"bound"`
	Executions int64 `json:"executions"`
	Completed  bool  `json:"completed"`
}

func (d *driver) run() int {
	start := time.Now()
	prop := d.h.Property()
	n := d.procs
	if n <= 0 {
		n = runtime.NumCPU()
	}
	self, _ := os.Executable()
	type wproc struct {
		cmd *exec.Cmd
		enc *json.Encoder
		dec *json.Decoder
		w   *bufio.Writer
	}
	var deadline int64
	if d.budget > 0 {
		deadline = start.Add(d.budget).UnixMilli()
	}
	// Work queue: iterative bounding per configuration. Level k of a config
	// is queued only after level k-1 completed.
	type cfgState struct {
		level     int
		pending   int
		failed    bool
		completed int // highest completed bound, -1 none
		levels    []levelStat
		cur       levelStat
	}
	states := make([]*cfgState, len(d.cfgs))
	var queue []Item
	nextID := 0
	active := 0
	for i, c := range d.cfgs {
		if d.only != "" && !strings.Contains(c.Name, d.only) {
			continue
		}
		states[i] = &cfgState{completed: -1}
		active++
	}
	if active == 0 {
		fmt.Fprintln(os.Stderr, "MACHINERY: no configurations")
		return 2
	}
	split := 0
	if active < 2*n {
		split = 2
	}
	boundOf := func(i int) int {
		if d.maxBound >= 0 {
			return d.maxBound
		}
		return d.cfgs[i].Bound
	}
	enqueueLevel := func(i int) {
		st := states[i]
		st.cur = levelStat{Bound: st.level}
		st.pending = 1
		sp := split
		if st.level == 0 {
			sp = 0
		}
		queue = append(queue, Item{ID: nextID, Cfg: i, Bound: st.level, Split: sp, Deadline: deadline})
		nextID++
	}
	// The queue is a stack: a configuration's next level is taken up as soon
	// as its previous one completed. Configurations are listed simplest first,
	// so they are pushed in reverse: the simplest ones run to their full bound
	// first (the first counterexample found is the easiest to explain, and a
	// violation in a cheap configuration is not kept waiting by expensive ones).
	for i := len(d.cfgs) - 1; i >= 0; i-- {
		if states[i] != nil {
			enqueueLevel(i)
		}
	}
	results := make(chan ItemResult, 1024)
	work := make(chan Item)
	var wg sync.WaitGroup
	machinery := ""
	var mmu sync.Mutex
	for k := 0; k < n; k++ {
		wg.Add(1)
		go func() {
			defer wg.Done()
			var p *wproc
			startProc := func() error {
				// the worker sees exactly the driver's flags (harnesses add their own)
				args := append(append([]string{}, os.Args[1:]...), "-worker")
				cmd := exec.Command(self, args...)
				cmd.Env = append(os.Environ(), "GOMAXPROCS=2")
				cmd.Stderr = os.Stderr
				in, err := cmd.StdinPipe()
				if err != nil {
					return err
				}
				outp, err := cmd.StdoutPipe()
				if err != nil {
					return err
				}
				if err := cmd.Start(); err != nil {
					return err
				}
				w := bufio.NewWriter(in)
				p = &wproc{cmd: cmd, enc: json.NewEncoder(w), dec: json.NewDecoder(bufio.NewReaderSize(outp, 1<<20)), w: w}
				return nil
			}
			stopProc := func() {
				if p != nil {
					p.cmd.Process.Kill()
					p.cmd.Wait()
					p = nil
				}
			}
			defer stopProc()
			served := 0
			for it := range work {
				if p == nil {
					if err := startProc(); err != nil {
						mmu.Lock()
						machinery = "cannot start worker: " + err.Error()
						mmu.Unlock()
						results <- ItemResult{ID: it.ID, Cfg: it.Cfg, Bound: it.Bound, Machinery: machinery}
						continue
					}
				}
				var r ItemResult
				err := p.enc.Encode(&it)
				if err == nil {
					err = p.w.Flush()
				}
				if err == nil {
					err = p.dec.Decode(&r)
				}
				if err != nil {
					// the worker died (fatal error, watchdog, OOM): machinery error
					stopProc()
					r = ItemResult{ID: it.ID, Cfg: it.Cfg, Bound: it.Bound, Machinery: fmt.Sprintf("worker died on cfg %s devs %s: %v", d.cfgs[it.Cfg].Name, devsShort(it.Devs), err)}
				}
				served++
				if r.Leaked > 0 && served%50 == 0 || r.Leaked > 5000 {
					stopProc() // shed leaked goroutines
				}
				results <- r
			}
		}()
	}
	// dispatcher
	var (
		totalRuns                                                                        int64
		totalExecs, totalNodes, totalSteps, totalNontrivial, totalLeaked, totalStepLimit int64
		obs                                                                              = map[string]int64{}
		knownHits                                                                        = map[string]int64{}
		violations                                                                       []VioRec
		samples                                                                          []string
		maxEn, maxThreads                                                                int
		inflight                                                                         int
		stopping                                                                         bool
	)
	for len(queue) > 0 || inflight > 0 {
		var send chan Item
		var head Item
		if len(queue) > 0 {
			send = work
			head = queue[len(queue)-1]
		}
		select {
		case send <- head:
			queue = queue[:len(queue)-1]
			inflight++
		case r := <-results:
			inflight--
			st := states[r.Cfg]
			if r.Machinery != "" {
				mmu.Lock()
				machinery = r.Machinery
				mmu.Unlock()
				st.failed = true
			}
			totalExecs += r.Execs
			totalRuns += r.Runs
			totalNodes += r.Nodes
			totalSteps += r.Steps
			totalNontrivial += r.Nontrivial
			totalLeaked += r.Leaked
			totalStepLimit += r.StepLimit
			if r.MaxEn > maxEn {
				maxEn = r.MaxEn
			}
			if r.MaxThreads > maxThreads {
				maxThreads = r.MaxThreads
			}
			for k, v := range r.Obs {
				if len(obs) < 5000 || obs[k] > 0 {
					obs[k] += v
				}
			}
			for k, v := range r.Known {
				knownHits[k] += v
			}
			if r.Sample != "" && len(samples) < 6 {
				samples = append(samples, r.Sample)
			}
			violations = append(violations, r.Violations...)
			if len(violations) > 0 && !stopping {
				// a violation (not a known finding) was found: work in flight is
				// finished, nothing new is started - the verdict is in, and a
				// defective tree can make the remaining space arbitrarily large
				stopping = true
				queue = nil
			}
			st.cur.Executions += r.Execs
			if r.Incomplete || len(r.Violations) > 0 {
				st.failed = true
			}
			st.pending--
			if !st.failed && !stopping {
				for _, c := range r.Children {
					c.ID = nextID
					nextID++
					queue = append(queue, c)
					st.pending++
				}
			}
			if st.pending == 0 {
				st.cur.Completed = !st.failed
				st.levels = append(st.levels, st.cur)
				if !st.failed {
					st.completed = st.level
					if !stopping && st.level < boundOf(r.Cfg) && (deadline == 0 || time.Now().UnixMilli() < deadline) {
						st.level++
						enqueueLevel(r.Cfg)
					}
				}
			}
		}
	}
	close(work)
	wg.Wait()

	// ---- report
	exhaustive := true
	minCompleted := 1 << 30
	var cfgSummaries []map[string]interface{}
	for i, st := range states {
		if st == nil {
			continue
		}
		if st.completed < boundOf(i) {
			exhaustive = false
		}
		if st.completed < minCompleted {
			minCompleted = st.completed
		}
		if len(cfgSummaries) < 400 {
			cfgSummaries = append(cfgSummaries, map[string]interface{}{"name": d.cfgs[i].Name, "target_bound": boundOf(i), "completed_bound": st.completed, "levels": st.levels})
		}
	}
	rc := 0
	if machinery != "" {
		fmt.Fprintln(os.Stderr, "MACHINERY:", machinery)
		rc = 2
	}
	for _, k := range d.known {
		if knownHits[k.Class] > 0 {
			fmt.Printf("KNOWN-FINDING: property=%s %s (class %s, %d executions)\n", prop, k.What, k.Class, knownHits[k.Class])
		}
	}
	// de-duplicate violations by class, keep the one with the fewest deviations
	sort.SliceStable(violations, func(i, j int) bool { return len(violations[i].Devs) < len(violations[j].Devs) })
	seen := map[string]bool{}
	nvio := 0
	for _, v := range violations {
		if !v.Stable {
			fmt.Fprintf(os.Stderr, "MACHINERY: violation %s on cfg %s did not reproduce identically 5x (unowned nondeterminism): %s\n", v.Class, v.CfgName, v.Msg)
			if rc == 0 {
				rc = 2
			}
			continue
		}
		if seen[v.Class] {
			continue
		}
		seen[v.Class] = true
		nvio++
		path := d.writeReplay(v)
		fmt.Printf("VIOLATION property=%s replay=%s\n", prop, path)
		fmt.Printf("  class=%s cfg=%s devs=%s\n  %s\n", v.Class, v.CfgName, devsShort(v.Devs), strings.ReplaceAll(v.Msg, "\n", "\n  "))
		rc = 1
	}
	wall := time.Since(start).Seconds()
	fmt.Printf("%s tier=%s configs=%d executions=%d nodes=%d steps=%d distinct_outcomes=%d nontrivial=%d max_enabled=%d threads=%d completed_bound(min)=%d exhaustive=%v leaked=%d wall=%.1fs\n",
		prop, d.tier, active, totalExecs, totalNodes, totalSteps, len(obs), totalNontrivial, maxEn, maxThreads, minCompleted, exhaustive, totalLeaked, wall)
	if d.evidence != "" && rc != 2 {
		var sm []interface{}
		for _, s := range samples {
			sm = append(sm, s)
		}
		if len(sm) == 0 {
			sm = append(sm, "no sample recorded")
		}
		kh := []string{}
		for k, v := range knownHits {
			kh = append(kh, fmt.Sprintf("%s x%d", k, v))
		}
		sort.Strings(kh)
		ev := map[string]interface{}{
			"property_id": prop,
			"tier":        d.tier,
			"seed":        seedFromEnv(),
			"level":       "model_checking",
			"wall_s":      wall,
			"violations":  nvio,
			"coverage": map[string]interface{}{
				"states":                        totalNodes,
				"transitions":                   totalSteps,
				"traces_validated_against_impl": totalExecs,
				"samples":                       sm,
				"evaluations":                   totalExecs,
				"executions_run":                totalRuns,
				"distinct_nontrivial":           totalNontrivial,
				"distinct_outcomes":             len(obs),
				"rule":                          "stateless DFS over schedules/environment answers of the real (instrumented) code; states = distinct choice-point nodes of the execution tree, transitions = scheduler steps executed, every execution is an implementation trace; nontrivial = executions the harness flags as containing a real conflict",
				"exhaustive":                    exhaustive,
				"completed_bound_min":           minCompleted,
				"max_enabled_threads":           maxEn,
				"threads":                       maxThreads,
				"step_limit_hits":               totalStepLimit,
				"configs":                       cfgSummaries,
				"known_findings_matched":        kh,
				"engine":                        "E1 schedule explorer (vrt+xplore)",
				"race_build":                    vrt.RaceMode,
				"unlock_points":                 vrt.DefaultUnlockPoints,
			},
			"assumptions": []string{
				"vrt object models decide enabledness; the real primitive is executed underneath",
				"timer durations are ignored: any armed timer may fire when the harness lets time pass",
				"bounded: programs, deviation bound and horizon as listed per configuration",
			},
		}
		b, _ := json.MarshalIndent(ev, "", " ")
		os.MkdirAll(filepath.Dir(d.evidence), 0o755)
		if err := os.WriteFile(d.evidence, b, 0o644); err != nil {
			fmt.Fprintln(os.Stderr, "MACHINERY: cannot write evidence:", err)
			rc = 2
		}
	}
	return rc
}

func seedFromEnv() int {
	var s int
	fmt.Sscanf(os.Getenv("VERIF_SEED"), "%d", &s)
	return s
}

// ReplayFile is the on-disk form of a violation.
type ReplayFile struct {
	Property string   `json:"property"`
	Tier     string   `json:"tier"`
	Cfg      int      `json:"cfg"`
	CfgName  string   `json:"cfg_name"`
	Devs     []Dev    `json:"devs"`
	Class    string   `json:"class"`
	Msg      string   `json:"msg"`
	Trace    []string `json:"trace"`
}

func (d *driver) writeReplay(v VioRec) string {
	dir := d.replays
	if dir == "" {
		dir = "replays"
	}
	os.MkdirAll(dir, 0o755)
	name := fmt.Sprintf("%s-%s.json", d.h.Property(), sanitize(v.Class))
	path := filepath.Join(dir, name)
	rf := ReplayFile{Property: d.h.Property(), Tier: d.tier, Cfg: v.Cfg, CfgName: v.CfgName, Devs: v.Devs, Class: v.Class, Msg: v.Msg, Trace: v.Trace}
	b, _ := json.MarshalIndent(rf, "", " ")
	os.WriteFile(path, b, 0o644)
	abs, err := filepath.Abs(path)
	if err == nil {
		return abs
	}
	return path
}

func sanitize(s string) string {
	var b strings.Builder
	for _, r := range s {
		if r >= 'a' && r <= 'z' || r >= 'A' && r <= 'Z' || r >= '0' && r <= '9' || r == '-' || r == '_' || r == '.' {
			b.WriteRune(r)
		} else {
			b.WriteByte('_')
		}
	}
	if b.Len() > 80 {
		return b.String()[:80]
	}
	return b.String()
}

func doReplay(h Harness, cfgs []Config, path string) int {
	b, err := os.ReadFile(path)
	if err != nil {
		fmt.Fprintln(os.Stderr, "MACHINERY:", err)
		return 2
	}
	var rf ReplayFile
	if err := json.Unmarshal(b, &rf); err != nil {
		fmt.Fprintln(os.Stderr, "MACHINERY:", err)
		return 2
	}
	ci := -1
	for i, c := range cfgs {
		if c.Name == rf.CfgName {
			ci = i
		}
	}
	if ci < 0 {
		fmt.Fprintf(os.Stderr, "MACHINERY: configuration %q not found in tier (pass -tier %s)\n", rf.CfgName, rf.Tier)
		return 2
	}
	out, res, c := execOnce(h, cfgs[ci], rf.Devs, true)
	for _, l := range res.Trace {
		fmt.Println("  ", l)
	}
	if c.diverged != "" {
		fmt.Println("DIVERGED:", c.diverged)
		return 2
	}
	fmt.Printf("obs=%s aborted=%q\n", out.Obs, res.Aborted)
	for _, v := range out.Violations {
		fmt.Printf("VIOLATION property=%s replay=%s\n  class=%s\n  %s\n", rf.Property, path, v.Class, v.Msg)
	}
	if len(out.Violations) > 0 {
		return 1
	}
	fmt.Println("no violation on replay")
	return 0
}
