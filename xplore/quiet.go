package xplore

import (
	"flag"
	"os"
)

// QuietLogs routes glog output of the code under test (if glog is linked in)
// to files below $VERIF_LOGDIR (removed with the build directory) instead of
// stderr. Called by both engines' Main before flag parsing.
func QuietLogs() {
	if flag.Lookup("logtostderr") == nil {
		return
	}
	dir := os.Getenv("VERIF_LOGDIR")
	if dir == "" {
		dir = os.TempDir()
	}
	os.MkdirAll(dir, 0o755)
	flag.Set("logtostderr", "false")
	flag.Set("alsologtostderr", "false")
	flag.Set("stderrthreshold", "FATAL")
	flag.Set("log_dir", dir)
}
