package xplore

import (
	"fmt"
	"os"
	"sort"
	"strings"
)

// raceWatcher reads the race detector's log file (GORACE=log_path=...) of
// this process and turns new reports into violations of the execution that
// just finished. The detector reports each distinct pair of stacks once per
// process, so the first schedule that exhibits a race carries the report.
type raceWatcher struct {
	path string
	off  int64
}

func newRaceWatcher(prefix string) *raceWatcher {
	if prefix == "" {
		return nil
	}
	return &raceWatcher{path: fmt.Sprintf("%s.%d", prefix, os.Getpid())}
}

const modPrefix = "github.com/openconfig/gnmi/"

func (w *raceWatcher) poll() []Violation {
	if w == nil {
		return nil
	}
	st, err := os.Stat(w.path)
	if err != nil || st.Size() <= w.off {
		return nil
	}
	f, err := os.Open(w.path)
	if err != nil {
		return nil
	}
	defer f.Close()
	buf := make([]byte, st.Size()-w.off)
	n, _ := f.ReadAt(buf, w.off)
	w.off += int64(n)
	var out []Violation
	for _, blk := range strings.Split(string(buf[:n]), "==================") {
		if !strings.Contains(blk, "WARNING: DATA RACE") {
			continue
		}
		out = append(out, classifyRace(blk))
	}
	return out
}

func classifyRace(blk string) Violation {
	lines := strings.Split(blk, "\n")
	var stacks [][]string
	var cur []string
	in := false
	for _, l := range lines {
		t := strings.TrimSpace(l)
		if strings.HasPrefix(t, "Read at") || strings.HasPrefix(t, "Write at") || strings.HasPrefix(t, "Previous read at") || strings.HasPrefix(t, "Previous write at") ||
			strings.HasPrefix(t, "Atomic read at") || strings.HasPrefix(t, "Atomic write at") || strings.HasPrefix(t, "Previous atomic") {
			if in {
				stacks = append(stacks, cur)
			}
			cur, in = nil, true
			continue
		}
		if in {
			if t == "" {
				stacks = append(stacks, cur)
				cur, in = nil, false
				continue
			}
			if strings.HasPrefix(l, "  ") && !strings.HasPrefix(l, "      ") {
				cur = append(cur, strings.TrimSuffix(t, "()"))
			}
		}
	}
	if in {
		stacks = append(stacks, cur)
	}
	var names []string
	harnessOnly := true
	for i, s := range stacks {
		if i >= 2 {
			break
		}
		pick := ""
		for _, fn := range s {
			if strings.HasPrefix(fn, modPrefix) && !strings.Contains(fn, "/zzverif/") {
				pick = strings.TrimPrefix(fn, modPrefix)
				break
			}
		}
		if pick == "" && len(s) > 0 {
			pick = s[0]
		} else {
			harnessOnly = false
		}
		// strip closure suffixes so that the class is stable
		if k := strings.Index(pick, ".func"); k > 0 {
			pick = pick[:k]
		}
		names = append(names, pick)
	}
	sort.Strings(names)
	class := "race:" + strings.Join(names, "|")
	if harnessOnly {
		class = "race-in-harness:" + strings.Join(names, "|")
	}
	return Violation{Class: class, Msg: "data race reported by the race detector under the controlled scheduler:\n" + strings.TrimSpace(blk)}
}
