// Package xplore is the stateless, deviation-bounded depth-first explorer that
// drives executions of a harness under vrt, plus the driver/worker plumbing
// that shards the search over processes and writes evidence.
package xplore

import (
	"fmt"

	"github.com/openconfig/gnmi/zzverif/vrt"
)

// Dev is one deviation from the default choice (0) at choice point At.
type Dev struct {
	At     int    `json:"at"`
	Choice int    `json:"c"`
	Sig    uint64 `json:"s"`
}

type pt struct {
	n      uint8
	chosen uint8
	mask   uint64 // bit i set: option i costs one deviation
	sig    uint64
}

// chooser replays a list of deviations and answers 0 everywhere else.
type chooser struct {
	devs     []Dev
	di       int
	pts      []pt
	diverged string
}

//go:norace
func (c *chooser) Choose(n int, costs []uint8, sig uint64) int {
	idx := len(c.pts)
	k := 0
	if c.di < len(c.devs) && c.devs[c.di].At == idx {
		d := c.devs[c.di]
		c.di++
		if d.Sig != 0 && d.Sig != sig {
			c.diverged = fmt.Sprintf("divergence at point %d: signature %x, recorded %x", idx, sig, d.Sig)
		} else if d.Choice >= n {
			c.diverged = fmt.Sprintf("divergence at point %d: choice %d of %d options", idx, d.Choice, n)
		} else {
			k = d.Choice
		}
	}
	var mask uint64
	for i, x := range costs {
		if x != 0 && i < 64 {
			mask |= 1 << uint(i)
		}
	}
	if n > 64 {
		n = 64
	}
	c.pts = append(c.pts, pt{n: uint8(n), chosen: uint8(k), mask: mask, sig: sig})
	return k
}

// Violation is one failed oracle.
type Violation struct {
	// Class is a stable identifier of what failed (matched against the
	// known-findings file); Msg is the human readable detail.
	Class string `json:"class"`
	Msg   string `json:"msg"`
}

// Outcome is what a harness reports for one execution.
type Outcome struct {
	Violations []Violation
	// Obs is a canonical rendering of the observable outcome (used to count
	// distinct outcomes; never compared across configurations).
	Obs string
	// Nontrivial: the execution contained a real conflict by the harness's rule.
	Nontrivial bool
}

// Harness is a closed driver plus oracle for one property.
type Harness interface {
	Property() string
	// Configs enumerates the finite family of programs for a tier.
	Configs(tier string) []Config
	// Run executes one configuration once under the chooser. It must call
	// vrt.Run exactly once (or not at all for purely sequential harnesses).
	Run(cfg Config, ch vrt.Chooser, trace bool) (Outcome, *vrt.Result)
}

// Config is one closed program.
type Config struct {
	Name  string `json:"name"`
	Bound int    `json:"bound"` // deviation bound to complete for this config
	// Reverse: run under the newest-thread-first default scheduler (the
	// harness passes it on as vrt.Options.Reverse).
	Reverse bool `json:"reverse"`
	// Data is harness private (must round-trip through the harness's own
	// Configs enumeration: only the index is sent to workers).
	Data interface{} `json:"-"`
}

// execOnce runs cfg under the deviation list.
func execOnce(h Harness, cfg Config, devs []Dev, trace bool) (Outcome, *vrt.Result, *chooser) {
	c := &chooser{devs: devs, pts: make([]pt, 0, 256)}
	out, res := h.Run(cfg, c, trace)
	if res == nil {
		res = &vrt.Result{}
	}
	if c.diverged == "" && c.di < len(c.devs) {
		c.diverged = fmt.Sprintf("divergence: execution ended after %d points, deviation at %d not reached", len(c.pts), c.devs[c.di].At)
	}
	return out, res, c
}

// WithReverse returns cfgs followed by a copy of each that runs under the
// reversed (newest-thread-first) default scheduler.
func WithReverse(cfgs []Config) []Config {
	out := append([]Config{}, cfgs...)
	for _, c := range cfgs {
		c.Reverse = true
		c.Name += " [newest-first]"
		out = append(out, c)
	}
	return out
}
