package xplore

import (
	"context"
	"fmt"
	"testing"
	"time"

	"github.com/openconfig/gnmi/zzverif/vrt"
)

type toy struct {
	name string
	f    func() Outcome // runs inside vrt main thread
	opt  vrt.Options
}

type toyH struct{ toys []toy }

func (h toyH) Property() string { return "TOY" }
func (h toyH) Configs(string) []Config {
	var out []Config
	for i, t := range h.toys {
		out = append(out, Config{Name: t.name, Bound: 2, Data: i})
	}
	return out
}
func (h toyH) Run(cfg Config, ch vrt.Chooser, trace bool) (Outcome, *vrt.Result) {
	t := h.toys[cfg.Data.(int)]
	var out Outcome
	o := t.opt
	o.Trace = trace
	o.FreeSwitch = true
	res := vrt.Run(ch, o, func() { out = t.f() })
	if res.Aborted != "" {
		out.Violations = append(out.Violations, Violation{Class: "abort:" + res.Aborted[:8], Msg: res.Aborted + fmt.Sprint(res.Parked)})
	}
	return out, res
}

func exploreToy(t *testing.T, ty toy, bound int) ItemResult {
	h := toyH{[]toy{ty}}
	w := &worker{h: h, cfgs: h.Configs(""), known: map[string]bool{}, maxVio: 1000, obsLimit: 1000}
	var total ItemResult
	total.Obs = map[string]int64{}
	for b := 0; b <= bound; b++ {
		r := w.process(Item{Cfg: 0, Bound: b})
		if r.Machinery != "" {
			t.Fatalf("machinery: %s", r.Machinery)
		}
		total.Execs += r.Execs
		total.Violations = append(total.Violations, r.Violations...)
		for k, v := range r.Obs {
			total.Obs[k] += v
		}
	}
	return total
}

func TestLostUpdate(t *testing.T) {
	ty := toy{name: "lostupdate", f: func() Outcome {
		x := 0
		var mu vrt.Mutex
		inc := func() {
			mu.Lock()
			v := x
			mu.Unlock()
			mu.Lock()
			x = v + 1
			mu.Unlock()
		}
		vrt.Go(inc)
		vrt.Go(inc)
		vrt.Idle()
		return Outcome{Obs: fmt.Sprint(x)}
	}}
	r := exploreToy(t, ty, 0)
	if len(r.Obs) != 1 || r.Obs["2"] == 0 {
		t.Errorf("bound 0: want only outcome 2, got %v", r.Obs)
	}
	r = exploreToy(t, ty, 1)
	if r.Obs["1"] == 0 || r.Obs["2"] == 0 {
		t.Errorf("bound 1: want outcomes 1 and 2, got %v", r.Obs)
	}
	t.Logf("execs=%d obs=%v", r.Execs, r.Obs)
}

func TestDeadlockABBA(t *testing.T) {
	ty := toy{name: "abba", f: func() Outcome {
		var a, b vrt.Mutex
		vrt.Go(func() { a.Lock(); b.Lock(); b.Unlock(); a.Unlock() })
		vrt.Go(func() { b.Lock(); a.Lock(); a.Unlock(); b.Unlock() })
		vrt.Idle()
		if !vrt.AllDone() {
			return Outcome{Obs: "stuck", Violations: []Violation{{Class: "deadlock", Msg: fmt.Sprint(vrt.ParkedInfo())}}}
		}
		return Outcome{Obs: "ok"}
	}}
	r := exploreToy(t, ty, 0)
	if len(r.Violations) != 0 {
		t.Errorf("bound 0 should not deadlock: %v", r.Violations)
	}
	r = exploreToy(t, ty, 1)
	if len(r.Violations) == 0 {
		t.Errorf("bound 1 should find the ABBA deadlock")
	}
}

func TestRWRecursiveReadDeadlock(t *testing.T) {
	ty := toy{name: "rwrec", f: func() Outcome {
		var m vrt.RWMutex
		vrt.Go(func() { m.RLock(); m.RLock(); m.RUnlock(); m.RUnlock() })
		vrt.Go(func() { m.Lock(); m.Unlock() })
		vrt.Idle()
		if !vrt.AllDone() {
			return Outcome{Obs: "stuck", Violations: []Violation{{Class: "deadlock", Msg: fmt.Sprint(vrt.ParkedInfo())}}}
		}
		return Outcome{Obs: "ok"}
	}}
	if r := exploreToy(t, ty, 0); len(r.Violations) != 0 {
		t.Errorf("bound 0: %v", r.Violations)
	}
	if r := exploreToy(t, ty, 1); len(r.Violations) == 0 {
		t.Errorf("bound 1 should find the recursive read lock deadlock (writer preference)")
	}
}

func TestChannels(t *testing.T) {
	ty := toy{name: "chan", f: func() Outcome {
		c := make(chan int, 1)
		done := make(chan struct{})
		got := []int{}
		vrt.Go(func() {
			for i := 0; i < 3; i++ {
				vrt.Send(c, i)
			}
			vrt.Close(c)
		})
		vrt.Go(func() {
			for {
				v, ok := vrt.Recv2(c)
				if !ok {
					break
				}
				got = append(got, v)
			}
			vrt.Close(done)
		})
		vrt.Recv(done)
		return Outcome{Obs: fmt.Sprint(got)}
	}}
	r := exploreToy(t, ty, 2)
	if len(r.Obs) != 1 || r.Obs["[0 1 2]"] == 0 {
		t.Errorf("fifo violated: %v", r.Obs)
	}
	if len(r.Violations) != 0 {
		t.Errorf("unexpected: %v", r.Violations)
	}
	t.Logf("execs=%d", r.Execs)
}

func TestRendezvousSelect(t *testing.T) {
	ty := toy{name: "rdv", f: func() Outcome {
		c := make(chan int)
		done := make(chan struct{})
		errC := make(chan error, 2)
		res := ""
		for i := 0; i < 2; i++ {
			i := i
			vrt.Go(func() {
				switch vrt.Select(false, vrt.S(c), vrt.R(done)) {
				case 0:
					vrt.SendNow(c, i)
				case 1:
					vrt.RecvNow(done)
				}
			})
		}
		switch vrt.Select(false, vrt.R(errC), vrt.R(c)) {
		case 0:
			vrt.RecvNow(errC)
			res = "err"
		case 1:
			res = fmt.Sprint(vrt.RecvNow(c))
		}
		vrt.Close(done)
		vrt.Idle()
		if !vrt.AllDone() {
			return Outcome{Obs: "stuck", Violations: []Violation{{Class: "deadlock", Msg: fmt.Sprint(vrt.ParkedInfo())}}}
		}
		return Outcome{Obs: res}
	}}
	r := exploreToy(t, ty, 2)
	if r.Obs["0"] == 0 || r.Obs["1"] == 0 || len(r.Obs) != 2 {
		t.Errorf("want both senders to win in some schedule: %v", r.Obs)
	}
	if len(r.Violations) != 0 {
		t.Errorf("unexpected: %v", r.Violations)
	}
}

func TestTimersAndContext(t *testing.T) {
	ty := toy{name: "timer", opt: vrt.Options{EarlyTimers: true}, f: func() Outcome {
		tm := vrt.NewTimer(time.Second)
		work := make(chan struct{}, 1)
		res := ""
		vrt.Go(func() {
			switch vrt.Select(false, vrt.R(tm.C), vrt.R(work)) {
			case 0:
				vrt.RecvNow(tm.C)
				res = "timeout"
			case 1:
				vrt.RecvNow(work)
				res = "work"
			}
		})
		vrt.Go(func() { vrt.Send(work, struct{}{}) })
		vrt.Idle()
		return Outcome{Obs: res}
	}}
	r := exploreToy(t, ty, 0)
	if len(r.Obs) != 1 || r.Obs["work"] == 0 {
		t.Errorf("bound 0: %v", r.Obs)
	}
	r = exploreToy(t, ty, 1)
	if r.Obs["timeout"] == 0 {
		t.Errorf("bound 1 should let the timer fire early: %v", r.Obs)
	}
	_ = context.Background
}

func TestPanicIsViolation(t *testing.T) {
	ty := toy{name: "panic", f: func() Outcome {
		c := make(chan int)
		vrt.Go(func() { vrt.Close(c) })
		vrt.Go(func() { vrt.Close(c) })
		vrt.Idle()
		return Outcome{Obs: "ok"}
	}}
	r := exploreToy(t, ty, 0)
	if len(r.Violations) == 0 {
		t.Errorf("double close must be reported")
	}
}

func TestDeterminism(t *testing.T) {
	// same deviation list twice => same trace signature
	ty := toy{name: "det", f: func() Outcome {
		var mu vrt.Mutex
		x := 0
		for i := 0; i < 3; i++ {
			vrt.Go(func() {
				mu.Lock()
				x++
				mu.Unlock()
				mu.Lock()
				x *= 2
				mu.Unlock()
			})
		}
		vrt.Idle()
		return Outcome{Obs: fmt.Sprint(x)}
	}}
	h := toyH{[]toy{ty}}
	cfg := h.Configs("")[0]
	_, r0, c0 := execOnce(h, cfg, nil, false)
	var devs []Dev
	for i, p := range c0.pts {
		if p.n > 1 && len(devs) < 2 && i > 0 {
			devs = append(devs, Dev{At: i, Choice: 1, Sig: p.sig})
			break
		}
	}
	_, r1, c1 := execOnce(h, cfg, devs, false)
	_, r2, c2 := execOnce(h, cfg, devs, false)
	if c1.diverged != "" || c2.diverged != "" {
		t.Fatalf("diverged: %s %s", c1.diverged, c2.diverged)
	}
	if r1.TraceSig != r2.TraceSig || r1.TraceSig == r0.TraceSig {
		t.Errorf("sigs: default %x, dev %x, dev again %x", r0.TraceSig, r1.TraceSig, r2.TraceSig)
	}
}
