package xplore

import (
	"context"
	"fmt"
	"testing"
	"time"

	"github.com/openconfig/gnmi/zzverif/vatomic"
	"github.com/openconfig/gnmi/zzverif/vrt"
)

type toy struct {
	name string
	f    func() Outcome // runs inside vrt main thread
	opt  vrt.Options
	// delay selects delay bounding (every departure from the default scheduler
	// costs one) instead of pre-emption bounding
	delay  bool
	sigObs bool
}

type toyH struct{ toys []toy }

func (h toyH) Property() string { return "TOY" }
func (h toyH) Configs(string) []Config {
	var out []Config
	for i, t := range h.toys {
		out = append(out, Config{Name: t.name, Bound: 2, Data: i})
	}
	return out
}
func (h toyH) Run(cfg Config, ch vrt.Chooser, trace bool) (Outcome, *vrt.Result) {
	t := h.toys[cfg.Data.(int)]
	var out Outcome
	o := t.opt
	o.Trace = trace
	o.FreeSwitch = !t.delay
	o.Reverse = cfg.Reverse
	res := vrt.Run(ch, o, func() { out = t.f() })
	if c, ok := ch.(*chooser); ok && t.sigObs {
		// the observation identifies the schedule (the choice taken at every
		// scheduling point), not just its visible effect
		out.Obs += "#"
		for _, p := range c.pts {
			out.Obs += fmt.Sprint(p.chosen)
		}
	}
	if res.Aborted != "" {
		out.Violations = append(out.Violations, Violation{Class: "abort:" + res.Aborted[:8], Msg: res.Aborted + fmt.Sprint(res.Parked)})
	}
	return out, res
}

func exploreToy(t *testing.T, ty toy, bound int) ItemResult {
	h := toyH{[]toy{ty}}
	w := &worker{h: h, cfgs: h.Configs(""), known: map[string]bool{}, maxVio: 1000, obsLimit: 1000}
	var total ItemResult
	total.Obs = map[string]int64{}
	for b := 0; b <= bound; b++ {
		r := w.process(Item{Cfg: 0, Bound: b})
		if r.Machinery != "" {
			t.Fatalf("machinery: %s", r.Machinery)
		}
		total.Execs += r.Execs
		total.Violations = append(total.Violations, r.Violations...)
		for k, v := range r.Obs {
			total.Obs[k] += v
		}
	}
	return total
}

func TestLostUpdate(t *testing.T) {
	ty := toy{name: "lostupdate", f: func() Outcome {
		x := 0
		var mu vrt.Mutex
		inc := func() {
			mu.Lock()
			v := x
			mu.Unlock()
			mu.Lock()
			x = v + 1
			mu.Unlock()
		}
		vrt.Go(inc)
		vrt.Go(inc)
		vrt.Idle()
		return Outcome{Obs: fmt.Sprint(x)}
	}}
	r := exploreToy(t, ty, 0)
	if len(r.Obs) != 1 || r.Obs["2"] == 0 {
		t.Errorf("bound 0: want only outcome 2, got %v", r.Obs)
	}
	r = exploreToy(t, ty, 1)
	if r.Obs["1"] == 0 || r.Obs["2"] == 0 {
		t.Errorf("bound 1: want outcomes 1 and 2, got %v", r.Obs)
	}
	t.Logf("execs=%d obs=%v", r.Execs, r.Obs)
}

func TestDeadlockABBA(t *testing.T) {
	ty := toy{name: "abba", f: func() Outcome {
		var a, b vrt.Mutex
		vrt.Go(func() { a.Lock(); b.Lock(); b.Unlock(); a.Unlock() })
		vrt.Go(func() { b.Lock(); a.Lock(); a.Unlock(); b.Unlock() })
		vrt.Idle()
		if !vrt.AllDone() {
			return Outcome{Obs: "stuck", Violations: []Violation{{Class: "deadlock", Msg: fmt.Sprint(vrt.ParkedInfo())}}}
		}
		return Outcome{Obs: "ok"}
	}}
	r := exploreToy(t, ty, 0)
	if len(r.Violations) != 0 {
		t.Errorf("bound 0 should not deadlock: %v", r.Violations)
	}
	r = exploreToy(t, ty, 1)
	if len(r.Violations) == 0 {
		t.Errorf("bound 1 should find the ABBA deadlock")
	}
}

func TestRWRecursiveReadDeadlock(t *testing.T) {
	ty := toy{name: "rwrec", f: func() Outcome {
		var m vrt.RWMutex
		vrt.Go(func() { m.RLock(); m.RLock(); m.RUnlock(); m.RUnlock() })
		vrt.Go(func() { m.Lock(); m.Unlock() })
		vrt.Idle()
		if !vrt.AllDone() {
			return Outcome{Obs: "stuck", Violations: []Violation{{Class: "deadlock", Msg: fmt.Sprint(vrt.ParkedInfo())}}}
		}
		return Outcome{Obs: "ok"}
	}}
	if r := exploreToy(t, ty, 0); len(r.Violations) != 0 {
		t.Errorf("bound 0: %v", r.Violations)
	}
	if r := exploreToy(t, ty, 1); len(r.Violations) == 0 {
		t.Errorf("bound 1 should find the recursive read lock deadlock (writer preference)")
	}
}

func TestChannels(t *testing.T) {
	ty := toy{name: "chan", f: func() Outcome {
		c := make(chan int, 1)
		done := make(chan struct{})
		got := []int{}
		vrt.Go(func() {
			for i := 0; i < 3; i++ {
				vrt.Send(c, i)
			}
			vrt.Close(c)
		})
		vrt.Go(func() {
			for {
				v, ok := vrt.Recv2(c)
				if !ok {
					break
				}
				got = append(got, v)
			}
			vrt.Close(done)
		})
		vrt.Recv(done)
		return Outcome{Obs: fmt.Sprint(got)}
	}}
	r := exploreToy(t, ty, 2)
	if len(r.Obs) != 1 || r.Obs["[0 1 2]"] == 0 {
		t.Errorf("fifo violated: %v", r.Obs)
	}
	if len(r.Violations) != 0 {
		t.Errorf("unexpected: %v", r.Violations)
	}
	t.Logf("execs=%d", r.Execs)
}

func TestRendezvousSelect(t *testing.T) {
	ty := toy{name: "rdv", f: func() Outcome {
		c := make(chan int)
		done := make(chan struct{})
		errC := make(chan error, 2)
		res := ""
		for i := 0; i < 2; i++ {
			i := i
			vrt.Go(func() {
				switch vrt.Select(false, vrt.S(c), vrt.R(done)) {
				case 0:
					vrt.SendNow(c, i)
				case 1:
					vrt.RecvNow(done)
				}
			})
		}
		switch vrt.Select(false, vrt.R(errC), vrt.R(c)) {
		case 0:
			vrt.RecvNow(errC)
			res = "err"
		case 1:
			res = fmt.Sprint(vrt.RecvNow(c))
		}
		vrt.Close(done)
		vrt.Idle()
		if !vrt.AllDone() {
			return Outcome{Obs: "stuck", Violations: []Violation{{Class: "deadlock", Msg: fmt.Sprint(vrt.ParkedInfo())}}}
		}
		return Outcome{Obs: res}
	}}
	r := exploreToy(t, ty, 2)
	if r.Obs["0"] == 0 || r.Obs["1"] == 0 || len(r.Obs) != 2 {
		t.Errorf("want both senders to win in some schedule: %v", r.Obs)
	}
	if len(r.Violations) != 0 {
		t.Errorf("unexpected: %v", r.Violations)
	}
}

func TestTimersAndContext(t *testing.T) {
	ty := toy{name: "timer", opt: vrt.Options{EarlyTimers: true}, f: func() Outcome {
		tm := vrt.NewTimer(time.Second)
		work := make(chan struct{}, 1)
		res := ""
		vrt.Go(func() {
			switch vrt.Select(false, vrt.R(tm.C), vrt.R(work)) {
			case 0:
				vrt.RecvNow(tm.C)
				res = "timeout"
			case 1:
				vrt.RecvNow(work)
				res = "work"
			}
		})
		vrt.Go(func() { vrt.Send(work, struct{}{}) })
		vrt.Idle()
		return Outcome{Obs: res}
	}}
	r := exploreToy(t, ty, 0)
	if len(r.Obs) != 1 || r.Obs["work"] == 0 {
		t.Errorf("bound 0: %v", r.Obs)
	}
	r = exploreToy(t, ty, 1)
	if r.Obs["timeout"] == 0 {
		t.Errorf("bound 1 should let the timer fire early: %v", r.Obs)
	}
	_ = context.Background
}

func TestPanicIsViolation(t *testing.T) {
	ty := toy{name: "panic", f: func() Outcome {
		c := make(chan int)
		vrt.Go(func() { vrt.Close(c) })
		vrt.Go(func() { vrt.Close(c) })
		vrt.Idle()
		return Outcome{Obs: "ok"}
	}}
	r := exploreToy(t, ty, 0)
	if len(r.Violations) == 0 {
		t.Errorf("double close must be reported")
	}
}

func TestDeterminism(t *testing.T) {
	// same deviation list twice => same trace signature
	ty := toy{name: "det", f: func() Outcome {
		var mu vrt.Mutex
		x := 0
		for i := 0; i < 3; i++ {
			vrt.Go(func() {
				mu.Lock()
				x++
				mu.Unlock()
				mu.Lock()
				x *= 2
				mu.Unlock()
			})
		}
		vrt.Idle()
		return Outcome{Obs: fmt.Sprint(x)}
	}}
	h := toyH{[]toy{ty}}
	cfg := h.Configs("")[0]
	_, r0, c0 := execOnce(h, cfg, nil, false)
	var devs []Dev
	for i, p := range c0.pts {
		if p.n > 1 && len(devs) < 2 && i > 0 {
			devs = append(devs, Dev{At: i, Choice: 1, Sig: p.sig})
			break
		}
	}
	_, r1, c1 := execOnce(h, cfg, devs, false)
	_, r2, c2 := execOnce(h, cfg, devs, false)
	if c1.diverged != "" || c2.diverged != "" {
		t.Fatalf("diverged: %s %s", c1.diverged, c2.diverged)
	}
	if r1.TraceSig != r2.TraceSig || r1.TraceSig == r0.TraceSig {
		t.Errorf("sigs: default %x, dev %x, dev again %x", r0.TraceSig, r1.TraceSig, r2.TraceSig)
	}
}

func binom(n, k int) int64 {
	r := int64(1)
	for i := 1; i <= k; i++ {
		r = r * int64(n-k+i) / int64(i)
	}
	return r
}

// TestEnumerationIsCompleteAndDuplicateFree: two threads of k scheduling
// points each have exactly C(2k, k) interleavings. With the bound raised until
// no level adds executions, every interleaving must be produced exactly once
// (Obs counts executions per observed order), under both bounding disciplines.
func TestEnumerationIsCompleteAndDuplicateFree(t *testing.T) {
	for _, delay := range []bool{false, true} {
		for k := 1; k <= 4; k++ {
			k := k
			ty := toy{name: fmt.Sprintf("interleavings-%d", k), delay: delay, sigObs: true, f: func() Outcome {
				var log []byte
				for id := 0; id < 2; id++ {
					id := id
					vrt.Go(func() {
						for i := 0; i < k; i++ {
							vrt.Yield()
							log = append(log, byte('a'+id))
						}
					})
				}
				vrt.Idle()
				return Outcome{Obs: string(log)}
			}}
			r := exploreToy(t, ty, 3*k+6)
			orders := map[string]bool{}
			for o, n := range r.Obs {
				orders[o[:2*k]] = true
				if n != 1 {
					t.Errorf("delay=%v k=%d: schedule %s executed %d times", delay, k, o, n)
				}
			}
			if want := binom(2*k, k); int64(len(orders)) != want {
				t.Errorf("delay=%v k=%d: %d distinct interleavings, want %d", delay, k, len(orders), want)
			}
			if r.Execs != int64(len(r.Obs)) {
				t.Errorf("delay=%v k=%d: %d executions for %d distinct schedules", delay, k, r.Execs, len(r.Obs))
			}
			// each thread has k+1 scheduling points (its start and k yields): the
			// number of schedules is exactly C(2k+2, k+1), under either discipline
			if want := binom(2*k+2, k+1); r.Execs != want {
				t.Errorf("delay=%v k=%d: %d schedules, want %d", delay, k, r.Execs, want)
			}
			t.Logf("delay=%v k=%d: %d schedules, %d interleavings", delay, k, len(r.Obs), len(orders))
		}
	}
}

// TestBoundLevelsPartitionSchedules: level b contributes exactly the schedules
// with b deviations: no schedule appears at two levels, and once the bound is
// high enough all 6!/(2!2!2!) = 90 interleavings of 3 threads x 2 steps exist.
func TestBoundLevelsPartitionSchedules(t *testing.T) {
	for _, delay := range []bool{false, true} {
		ty := toy{name: "levels", delay: delay, sigObs: true, f: func() Outcome {
			var log []byte
			for id := 0; id < 3; id++ {
				id := id
				vrt.Go(func() {
					for i := 0; i < 2; i++ {
						vrt.Yield()
						log = append(log, byte('a'+id))
					}
				})
			}
			vrt.Idle()
			return Outcome{Obs: string(log)}
		}}
		h := toyH{[]toy{ty}}
		w := &worker{h: h, cfgs: h.Configs(""), known: map[string]bool{}, maxVio: 1000, obsLimit: 1000000}
		seen := map[string]int{}
		orders := map[string]bool{}
		var total int64
		var perLevel []int64
		for b := 0; b <= 14; b++ {
			r := w.process(Item{Cfg: 0, Bound: b})
			for o, n := range r.Obs {
				if lv, dup := seen[o]; dup || n != 1 {
					t.Errorf("schedule %s produced at level %d and again at level %d (x%d)", o, lv, b, n)
				}
				seen[o] = b
				orders[o[:6]] = true
			}
			total += r.Execs
			perLevel = append(perLevel, r.Execs)
		}
		if len(orders) != 90 || total != int64(len(seen)) {
			t.Errorf("delay=%v: %d interleavings (want 90), %d executions for %d schedules", delay, len(orders), total, len(seen))
		}
		// 3 threads x 3 scheduling points: 9!/(3!3!3!) = 1680 schedules in all.
		// Level 0 is the single default schedule under delay bounding and the
		// 3! non-pre-emptive orders under pre-emption bounding.
		l0 := int64(6)
		if delay {
			l0 = 1
		}
		if perLevel[0] != l0 || perLevel[len(perLevel)-1] != 0 || total != 1680 {
			t.Errorf("delay=%v: level sizes %v (total %d): want level 0 = %d, total 1680, last level empty", delay, perLevel, total, l0)
		}
		t.Logf("delay=%v level sizes %v", delay, perLevel)
	}
}

// TestUnlockPoints: a write after the critical section races with the other
// thread's critical section only if the scheduler can switch right after
// Unlock.
func TestUnlockPoints(t *testing.T) {
	mk := func(up bool) toy {
		return toy{name: fmt.Sprintf("unlockpoints-%v", up), opt: vrt.Options{UnlockPoints: up}, f: func() Outcome {
			x, y := 0, 0
			var mu vrt.Mutex
			vrt.Go(func() {
				mu.Lock()
				x = 1
				mu.Unlock()
				y = 1 // published after the unlock, no scheduling point of its own
			})
			obs := ""
			vrt.Go(func() {
				mu.Lock()
				obs = fmt.Sprint(x, y)
				mu.Unlock()
			})
			vrt.Idle()
			return Outcome{Obs: obs}
		}}
	}
	if r := exploreToy(t, mk(false), 3); r.Obs["1 0"] != 0 {
		t.Errorf("without unlock points x=1,y=0 should be unobservable: %v", r.Obs)
	}
	if r := exploreToy(t, mk(true), 1); r.Obs["1 0"] == 0 || r.Obs["0 0"] == 0 || r.Obs["1 1"] == 0 {
		t.Errorf("with unlock points all of 00, 10, 11 are reachable within 1 pre-emption: %v", r.Obs)
	}
}

// TestReverseDefault: the newest-first default scheduler produces the mirror
// order at bound 0 and the same set of interleavings when unbounded.
func TestReverseDefault(t *testing.T) {
	ty := toy{name: "reverse", delay: true, f: func() Outcome {
		var log []byte
		for id := 0; id < 3; id++ {
			id := id
			vrt.Go(func() {
				vrt.Yield()
				log = append(log, byte('a'+id))
			})
		}
		vrt.Idle()
		return Outcome{Obs: string(log)}
	}}
	h := toyH{[]toy{ty}}
	cfgs := WithReverse(h.Configs(""))
	if len(cfgs) != 2 || !cfgs[1].Reverse {
		t.Fatalf("WithReverse: %+v", cfgs)
	}
	w := &worker{h: h, cfgs: cfgs, known: map[string]bool{}, maxVio: 1000, obsLimit: 1000}
	first := func(ci int) string {
		r := w.process(Item{Cfg: ci, Bound: 0})
		for o := range r.Obs {
			return o
		}
		return ""
	}
	if a, b := first(0), first(1); a != "abc" || b != "cba" {
		t.Errorf("bound 0: oldest-first %q, newest-first %q", a, b)
	}
	for ci := range cfgs {
		all := map[string]bool{}
		for b := 0; b <= 6; b++ {
			for o := range w.process(Item{Cfg: ci, Bound: b}).Obs {
				all[o] = true
			}
		}
		if len(all) != 6 {
			t.Errorf("cfg %d: %d of 6 orders reachable: %v", ci, len(all), all)
		}
	}
}

// TestAtomicsAreSchedulingPoints: a check-then-act on an atomic flag admits
// two winners only if the scheduler can switch between the load and the store.
func TestAtomicsAreSchedulingPoints(t *testing.T) {
	ty := toy{name: "atomic-flag", f: func() Outcome {
		var flag vatomic.Bool
		var winners vatomic.Int32
		for i := 0; i < 2; i++ {
			vrt.Go(func() {
				if !flag.Load() {
					flag.Store(true)
					winners.Add(1)
				}
			})
		}
		vrt.Idle()
		return Outcome{Obs: fmt.Sprint(winners.Load())}
	}}
	if r := exploreToy(t, ty, 0); len(r.Obs) != 1 || r.Obs["1"] == 0 {
		t.Errorf("bound 0: one winner expected: %v", r.Obs)
	}
	if r := exploreToy(t, ty, 1); r.Obs["2"] == 0 {
		t.Errorf("bound 1: both threads must be able to win: %v", r.Obs)
	}
}
